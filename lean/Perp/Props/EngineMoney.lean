/-
  G4 — what the engine's money-moving handlers compute and emit (handler level; parts of C04, C05,
  C06, C11, C12).  Statements were fixed before the proofs were written.
-/
import Perp.Model.World
import Perp.Lemmas.Basic
import Perp.Props.C19

namespace Perp.Props.EngineMoney
open Perp Perp.Engine
open Perp.Props.C19

def trunc (a b : Int) : Int := Int.tdiv a b

/-- funding owed by a position at the engine's current cumulative premium fraction -/
def fundingOwed (e : E) (p : Position) : Int :=
  trunc (((latestCum e p.vamm).toInt - p.chk.toInt) * p.size.toInt) (e.cfg.decimals : Int)

/-- who receives collateral from a message, if anyone -/
def payee (m : SubMsg) : Option Nat :=
  match m.msg with
  | .tokenTransfer to _ => some to
  | .tokenTransferFrom _ to _ => some to
  | .bankSend to _ => some to
  | _ => none

theorem unwrap_ok {α : Type} (x : Except Err α) (r : α) : unwrap x = .ok r ↔ x = .ok r := by
  cases x <;> simp [unwrap]

/-- `calc_remain_margin_with_funding_payment` is margin + delta − funding, floored at zero, the
    deficit reported as bad debt; the checkpoint returned is the current cumulative fraction -/
theorem calcRemainMargin_spec (e : E) (p : Position) (d : Integer) (rm : RemainMargin)
    (h : calcRemainMargin e p d = .ok rm) :
    rm.funding.toInt = fundingOwed e p ∧ rm.latest = latestCum e p.vamm
    ∧ (0 ≤ d.toInt - fundingOwed e p + p.margin →
         (rm.margin : Int) = d.toInt - fundingOwed e p + p.margin ∧ rm.badDebt = 0)
    ∧ (d.toInt - fundingOwed e p + p.margin < 0 →
         rm.margin = 0 ∧ (rm.badDebt : Int) = -(d.toInt - fundingOwed e p + p.margin)) := by
  unfold calcRemainMargin at h
  simp only [bind_ok_iff] at h
  obtain ⟨d1, h1, m, h2, f, h3, a, h4, rem, h5, h6⟩ := h
  have e1 := (sub_ok _ _ _ h1).1
  have e2 := (checkedMul_ok _ _ _ h2).1
  have e3 := (checkedDiv_ok _ _ _ h3).1
  have e4 := (sub_ok _ _ _ h4).1
  have e5 := (add_ok _ _ _ h5).1
  rw [toInt_newPositive] at e3 e5
  have hf : f.toInt = fundingOwed e p := by unfold fundingOwed trunc; rw [e3, e2, e1]
  have hv := toInt_natAbs rem
  split at h6
  · rename_i hneg
    have := (isNegative_iff rem).1 hneg
    simp at h6; subst h6
    simp only [Integer.invertSign]
    refine ⟨hf, trivial, ?_, ?_⟩ <;> intro hh
    · exfalso; omega
    · refine ⟨trivial, ?_⟩; omega
  · rename_i hneg
    have : ¬ rem.toInt < 0 := fun hh => hneg ((isNegative_iff rem).2 hh)
    simp at h6; subst h6
    refine ⟨hf, rfl, ?_, ?_⟩ <;> intro hh
    · refine ⟨?_, rfl⟩; show (rem.value : Int) = _; omega
    · exfalso; omega

/-- `withdraw`: the receiver is paid exactly `amount`; an insurance-fund withdrawal is requested only
    for the shortfall of the vault, and exactly that shortfall is booked as prepaid bad debt (C04) -/
theorem withdraw_spec (q : Q) (e : E) (st st' : State) (r amt pre : Nat) (msgs : List SubMsg)
    (h : withdraw q e st r amt pre = .ok (st', msgs)) :
    ∃ bal, q.balance ENGINE_ADDR = .ok bal ∧
      ((bal + pre < amt ∧ st'.prepaid = st.prepaid + (amt - (bal + pre)) ∧ st'.oi = st.oi ∧ st'.pause = st.pause
          ∧ msgs = [ifWithdrawMsg (amt - (bal + pre)), transferMsg e.cfg r amt])
       ∨ (amt ≤ bal + pre ∧ st' = st ∧ msgs = [transferMsg e.cfg r amt])) := by
  unfold withdraw at h
  simp only [bind_ok_iff, unwrap_ok, cadd_ok] at h
  obtain ⟨bal, hb, tot, ⟨ht1, rfl⟩, h⟩ := h
  refine ⟨bal, hb, ?_⟩
  split at h
  · rename_i hlt
    simp only [bind_ok_iff, csub_ok, cadd_ok, pure_ok_iff] at h
    obtain ⟨sf, ⟨_, rfl⟩, pp, ⟨_, rfl⟩, h⟩ := h
    injection h with h1 h2
    subst h1 h2
    exact Or.inl ⟨hlt, rfl, rfl, rfl, rfl⟩
  · rename_i hlt
    simp only [pure_ok_iff] at h
    injection h with h1 h2
    subst h1 h2
    exact Or.inr ⟨by omega, rfl, rfl⟩

/-! ### association-list storage -/

theorem find_erase_same (ps : List Position) (v t : Nat) :
    (erasePosition ps v t).find? (fun p => p.vamm == v && p.trader == t) = none := by
  unfold erasePosition
  induction ps with
  | nil => rfl
  | cons a ps ih =>
    simp only [List.filter_cons]
    split
    · rename_i hc
      rw [List.find?_cons]
      simp only [Bool.not_eq_true'] at hc
      rw [hc]; exact ih
    · exact ih

theorem find_erase_ne (ps : List Position) (v t v' t' : Nat) (hne : ¬ (v = v' ∧ t = t')) :
    (erasePosition ps v' t').find? (fun p => p.vamm == v && p.trader == t)
      = ps.find? (fun p => p.vamm == v && p.trader == t) := by
  unfold erasePosition
  induction ps with
  | nil => rfl
  | cons a ps ih =>
    simp only [List.filter_cons]
    split
    · rename_i hc
      rw [List.find?_cons, List.find?_cons, ih]
    · rename_i hc
      simp only [Bool.not_eq_true', Bool.not_eq_false, Bool.and_eq_true, beq_iff_eq] at hc
      rw [ih, List.find?_cons]
      have : (a.vamm == v && a.trader == t) = false := by
        simp only [Bool.and_eq_false_iff, beq_eq_false_iff_ne, ne_eq]
        by_cases h1 : a.vamm = v
        · right; intro h2; exact hne ⟨by omega, by omega⟩
        · left; exact h1
      rw [this]

theorem readPosition_store_same (e : E) (p : Position) :
    readPosition (storePosition e p) p.vamm p.trader = p := by
  simp [readPosition, storePosition]

theorem readPosition_store_ne (e : E) (p : Position) (v t : Nat) (hne : ¬ (v = p.vamm ∧ t = p.trader)) :
    readPosition (storePosition e p) v t = readPosition e v t := by
  unfold readPosition storePosition
  simp only []
  rw [List.find?_cons]
  have : (p.vamm == v && p.trader == t) = false := by
    simp only [Bool.and_eq_false_iff, beq_eq_false_iff_ne, ne_eq]
    by_cases h1 : p.vamm = v
    · right; intro h2; exact hne ⟨h1.symm, h2.symm⟩
    · left; exact h1
  rw [this, find_erase_ne _ _ _ _ _ hne]

theorem readPosition_remove_same (e : E) (p : Position) :
    readPosition (removePosition e p) p.vamm p.trader = Position.default := by
  unfold readPosition removePosition
  simp only []
  rw [find_erase_same]

theorem readPosition_remove_ne (e : E) (p : Position) (v t : Nat) (hne : ¬ (v = p.vamm ∧ t = p.trader)) :
    readPosition (removePosition e p) v t = readPosition e v t := by
  unfold readPosition removePosition
  simp only []
  rw [find_erase_ne _ _ _ _ _ hne]

theorem readPosition_key (e : E) (v t : Nat) :
    ((readPosition e v t).vamm = v ∧ (readPosition e v t).trader = t) ∨ readPosition e v t = Position.default := by
  unfold readPosition
  split
  · rename_i p hp
    have := List.find?_some hp
    simp only [Bool.and_eq_true, beq_iff_eq] at this
    exact Or.inl this
  · exact Or.inr rfl

theorem getPosition_key (env : Env) (e : E) (v t : Nat) (side : Side) :
    (getPosition env e v t side).vamm = v ∧ (getPosition env e v t side).trader = t := by
  unfold getPosition
  simp only []
  split
  · exact ⟨rfl, rfl⟩
  · rename_i hz
    rcases readPosition_key e v t with h | h
    · exact h
    · rw [h] at hz; exact absurd rfl hz

theorem bind_ok {ε α β : Type} {x : Except ε α} {f : α → Except ε β} {r : β}
    (h : (x >>= f) = .ok r) : ∃ v, x = .ok v ∧ f v = .ok r := (bind_ok_iff x f r).1 h

theorem ite_jp_ok {ε α β : Type} {c : Prop} [Decidable c] {x y : Except ε α} {k : α → Except ε β} {r : β}
    (h : (if c then x >>= k else y >>= k) = .ok r) : ∃ v, (if c then x else y) = .ok v ∧ k v = .ok r := by
  by_cases hc : c
  · rw [if_pos hc] at h ⊢; exact bind_ok h
  · rw [if_neg hc] at h ⊢; exact bind_ok h

open Lean.Parser.Tactic in
macro "peel " h:ident " as " v:rcasesPatLo ", " hv:ident : tactic =>
  `(tactic| (have h__ := bind_ok $h; clear $h; obtain ⟨$v, h2__⟩ := h__;
             have $hv:ident := h2__.1; have $h:ident := h2__.2; clear h2__))

open Lean.Parser.Tactic in
macro "peelj " h:ident " as " v:rcasesPatLo ", " hv:ident : tactic =>
  `(tactic| (have h__ := ite_jp_ok $h; clear $h; obtain ⟨$v, h2__⟩ := h__;
             have $hv:ident := h2__.1; have $h:ident := h2__.2; clear h2__))

/-- C04: a whole close pays the trader exactly margin + realised PnL − funding (never with bad debt),
    charges the fee on the open notional, and erases the position -/
theorem closePositionReply_spec (q : Q) (e e' : E) (env : Env) (out : Nat) (msgs : List SubMsg) (sw : TmpSwap)
    (hs : e.tmpSwap = some sw) (h : closePositionReply q e env out = .ok (e', msgs)) :
    let p := getPosition env e sw.vamm sw.trader sw.side
    ∃ delta rm wa st1 wmsgs fmsgs,
      closeMarginDelta p sw out = .ok delta ∧ calcRemainMargin e p delta = .ok rm ∧ rm.badDebt = 0
      ∧ Integer.checkedAdd (Integer.newPositive rm.margin) sw.upnl = .ok wa
      ∧ (if wa.isZero then st1 = e.st ∧ wmsgs = [] else withdraw q e e.st sw.trader wa.value 0 = .ok (st1, wmsgs))
      ∧ (if p.notional ≠ 0 then ∃ sp tl, transferFees q e sw.trader sw.vamm p.notional = .ok (fmsgs, sp, tl) else fmsgs = [])
      ∧ msgs = wmsgs ++ fmsgs
      ∧ e'.tmpSwap = none ∧ readPosition e' sw.vamm sw.trader = Position.default
      ∧ (∀ v t, ¬ (v = p.vamm ∧ t = p.trader) → readPosition e' v t = readPosition e v t) := by
  have hk := getPosition_key env e sw.vamm sw.trader sw.side
  unfold closePositionReply at h
  rw [hs] at h
  extract_lets jp at h
  simp only [pure_bind] at h
  simp -zeta only [jp] at h
  clear jp
  generalize getPosition env e sw.vamm sw.trader sw.side = p at h hk ⊢
  intro p0
  extract_lets e1 at h
  peel h as delta, hd
  peel h as rm, hrm
  peel h as wa, hwa
  by_cases hb : rm.badDebt = 0
  · rw [if_neg (fun hh => hh hb)] at h
    extract_lets jp2 at h
    peelj h as ⟨st1, wm⟩, hw
    simp -zeta only [jp2] at h
    clear jp2
    extract_lets jp3 at h
    have hfm : ∃ fm, (if p.notional ≠ 0 then ∃ sp tl, transferFees q e sw.trader sw.vamm p.notional = .ok (fm, sp, tl) else fm = [])
        ∧ jp3 (wm ++ fm) = .ok (e', msgs) := by
      split at h
      · rename_i hn
        peel h as ⟨fm, sp, tl⟩, hf
        rw [unwrap_ok] at hf
        refine ⟨fm, ?_, h⟩
        rw [if_pos hn]; exact ⟨sp, tl, hf⟩
      · rename_i hn
        refine ⟨[], ?_, ?_⟩
        · rw [if_neg hn]
        · simpa using h
    obtain ⟨fm, hfm, h⟩ := hfm
    simp only [jp3] at h
    peel h as v1, hv1
    peel h as value, hv2
    peel h as st2, hst2
    simp only [pure_ok_iff] at h
    injection h with h1 h2
    subst h1 h2
    refine ⟨delta, rm, wa, st1, wm, fm, hd, hrm, hb, hwa, ?_, hfm, rfl, rfl, ?_, ?_⟩
    · split at hw
      · rename_i hz
        simp at hz
        rw [if_neg (by simp [hz]), ← unwrap_ok]; exact hw
      · rename_i hz
        simp at hz
        rw [if_pos hz]
        simp at hw
        exact ⟨hw.1.symm, hw.2⟩
    · show readPosition (removePosition e p) sw.vamm sw.trader = Position.default
      rw [← hk.1, ← hk.2]; exact readPosition_remove_same e p
    · intro v t hne
      exact readPosition_remove_ne e p v t hne
  · rw [if_pos hb] at h; cases h

/-- C04: a partial close that would create bad debt is rejected -/
theorem partialClose_no_bad_debt (q : Q) (e e' : E) (env : Env) (i o : Nat) (msgs : List SubMsg) (sw : TmpSwap)
    (hs : e.tmpSwap = some sw) (h : partialClosePositionReply q e env i o = .ok (e', msgs)) :
    let p := getPosition env e sw.vamm sw.trader sw.side
    ∃ realized rm, realizedPnl p sw (signedOutput sw.side o) = .ok realized
      ∧ calcRemainMargin e p realized = .ok rm ∧ rm.badDebt = 0
      ∧ (readPosition e' sw.vamm sw.trader).margin = rm.margin
      ∧ (readPosition e' sw.vamm sw.trader).chk = rm.latest
      ∧ e'.tmpSwap = none := by
  have hk := getPosition_key env e sw.vamm sw.trader sw.side
  unfold partialClosePositionReply at h
  rw [hs] at h
  extract_lets jp at h
  simp only [pure_bind] at h
  simp -zeta only [jp] at h
  clear jp
  generalize getPosition env e sw.vamm sw.trader sw.side = p at h hk ⊢
  intro p0
  simp only [] at h
  peel h as st, hst
  peel h as realized, hr
  peel h as rm, hrm
  peel h as ua, hua
  peel h as rn, hrn
  peel h as fm, hfm
  peel h as ns, hns
  by_cases hb : rm.badDebt = 0
  · rw [if_neg (fun hh => hh hb)] at h
    simp only [pure_ok_iff] at h
    injection h with h1 h2
    subst h1 h2
    refine ⟨realized, rm, hr, hrm, hb, ?_, ?_, rfl⟩
    · rw [← hk.1, ← hk.2]
      exact congrArg Position.margin (readPosition_store_same e ⟨p.vamm, p.trader, p.direction, ns, rm.margin, rn.value, rm.latest, env.height⟩)
    · rw [← hk.1, ← hk.2]
      exact congrArg Position.chk (readPosition_store_same e ⟨p.vamm, p.trader, p.direction, ns, rm.margin, rn.value, rm.latest, env.height⟩)
  · rw [if_pos hb] at h; cases h

theorem payee_transferMsg (cfg : Config) (r a : Nat) : payee (transferMsg cfg r a) = some r := by
  unfold transferMsg; split <;> rfl

theorem payee_transferFromMsg (cfg : Config) (o r a : Nat) : payee (transferFromMsg cfg o r a) = some r := by
  unfold transferFromMsg; split <;> rfl

theorem payee_ifWithdrawMsg (a : Nat) : payee (ifWithdrawMsg a) = none := rfl

theorem readPosition_enterRestriction (e : E) (v h v' t' : Nat) :
    readPosition (enterRestrictionMode e v h) v' t' = readPosition e v' t' := rfl

theorem realizeBadDebt_msgs (st : State) (b : Nat) :
    (realizeBadDebt st b).2.1 = [] ∨ ∃ a, (realizeBadDebt st b).2.1 = [ifWithdrawMsg a] := by
  unfold realizeBadDebt
  split
  · exact Or.inl rfl
  · exact Or.inr ⟨_, rfl⟩

theorem liq_tail (q : Q) (e e' : E) (env : Env) (sw : TmpSwap) (liq : Nat) (p : Position) (fee margin badDebt : Nat)
    (msgs : List SubMsg) (hk : p.vamm = sw.vamm ∧ p.trader = sw.trader)
    (h : (unwrap (withdraw q e (if badDebt ≠ 0 then realizeBadDebt e.st badDebt else (e.st, [], 0)).fst liq fee
            (if badDebt ≠ 0 then realizeBadDebt e.st badDebt else (e.st, [], 0)).2.snd) >>= fun x =>
          pure (enterRestrictionMode { removePosition e p with st := x.fst, tmpSwap := none, tmpLiq := none }
                  sw.vamm env.height,
                ((if badDebt ≠ 0 then realizeBadDebt e.st badDebt else (e.st, [], 0)).2.fst ++
                   if margin ≠ 0 then [transferMsg e.cfg e.cfg.insuranceFund margin] else []) ++ x.snd))
          = .ok (e', msgs)) :
    ∃ st1 m1 pre st2 m3,
      (st1, m1, pre) = (if badDebt ≠ 0 then realizeBadDebt e.st badDebt else (e.st, [], 0))
      ∧ withdraw q e st1 liq fee pre = .ok (st2, m3)
      ∧ msgs = m1 ++ (if margin ≠ 0 then [transferMsg e.cfg e.cfg.insuranceFund margin] else []) ++ m3
      ∧ readPosition e' sw.vamm sw.trader = Position.default
      ∧ e'.tmpSwap = none ∧ e'.tmpLiq = none
      ∧ (∀ m ∈ msgs, payee m = some sw.trader → sw.trader = liq ∨ sw.trader = e.cfg.insuranceFund) := by
  have hT : (if badDebt ≠ 0 then realizeBadDebt e.st badDebt else (e.st, [], 0)).2.1 = [] ∨
      ∃ a, (if badDebt ≠ 0 then realizeBadDebt e.st badDebt else (e.st, [], 0)).2.1 = [ifWithdrawMsg a] := by
    split
    · exact realizeBadDebt_msgs _ _
    · exact Or.inl rfl
  generalize (if badDebt ≠ 0 then realizeBadDebt e.st badDebt else (e.st, [], 0)) = T at h hT ⊢
  obtain ⟨st1, m1, pre⟩ := T
  simp only [] at h hT
  peel h as x, hw
  obtain ⟨st2, m3⟩ := x
  rw [unwrap_ok] at hw
  simp only [pure_ok_iff] at h
  injection h with h1 h2
  subst h1 h2
  refine ⟨st1, m1, pre, st2, m3, rfl, hw, rfl, ?_, rfl, rfl, ?_⟩
  · rw [readPosition_enterRestriction]
    show readPosition (removePosition e p) sw.vamm sw.trader = Position.default
    rw [← hk.1, ← hk.2]; exact readPosition_remove_same e p
  · obtain ⟨bal, _, hm3⟩ := withdraw_spec q e st1 st2 liq fee pre m3 hw
    intro m hm hp
    simp only [List.mem_append] at hm
    rcases hm with (hm | hm) | hm
    · rcases hT with hT | ⟨a, hT⟩
      · rw [hT] at hm; cases hm
      · rw [hT] at hm
        simp only [List.mem_singleton] at hm
        subst hm; rw [payee_ifWithdrawMsg] at hp; cases hp
    · split at hm
      · simp only [List.mem_singleton] at hm
        subst hm; rw [payee_transferMsg] at hp
        injection hp with hp; exact Or.inr hp.symm
      · cases hm
    · rcases hm3 with ⟨_, _, _, _, hm3⟩ | ⟨_, _, hm3⟩
      · subst hm3
        simp only [List.mem_cons, List.mem_nil_iff, or_false] at hm
        rcases hm with hm | hm
        · subst hm; rw [payee_ifWithdrawMsg] at hp; cases hp
        · subst hm; rw [payee_transferMsg] at hp
          injection hp with hp; exact Or.inl hp.symm
      · subst hm3
        simp only [List.mem_singleton] at hm
        subst hm; rw [payee_transferMsg] at hp
        injection hp with hp; exact Or.inl hp.symm

/-- C06: a full liquidation pays the liquidator half the penalty, sends what is left of the margin to
    the insurance fund, removes the position and pays the liquidated trader nothing -/
theorem liquidateReply_spec (q : Q) (e e' : E) (env : Env) (out : Nat) (msgs : List SubMsg) (sw : TmpSwap)
    (liq : Nat) (hs : e.tmpSwap = some sw) (hl : e.tmpLiq = some liq)
    (h : liquidateReply q e env out = .ok (e', msgs)) :
    let p := getPosition env e sw.vamm sw.trader sw.side
    let fee := out * e.cfg.liqFee / e.cfg.decimals / 2
    ∃ delta rm margin badDebt st1 m1 pre st2 m3,
      closeMarginDelta p sw out = .ok delta ∧ calcRemainMargin e p delta = .ok rm
      ∧ (if fee > rm.margin then margin = 0 ∧ badDebt = rm.badDebt + (fee - rm.margin)
         else margin = rm.margin - fee ∧ badDebt = rm.badDebt)
      ∧ (st1, m1, pre) = (if badDebt ≠ 0 then realizeBadDebt e.st badDebt else (e.st, [], 0))
      ∧ withdraw q e st1 liq fee pre = .ok (st2, m3)
      ∧ msgs = m1 ++ (if margin ≠ 0 then [transferMsg e.cfg e.cfg.insuranceFund margin] else []) ++ m3
      ∧ readPosition e' sw.vamm sw.trader = Position.default
      ∧ e'.tmpSwap = none ∧ e'.tmpLiq = none
      ∧ (∀ m ∈ msgs, payee m = some sw.trader → sw.trader = liq ∨ sw.trader = e.cfg.insuranceFund) := by
  have hk := getPosition_key env e sw.vamm sw.trader sw.side
  unfold liquidateReply at h
  rw [hs, hl] at h
  simp only [pure_bind] at h
  generalize getPosition env e sw.vamm sw.trader sw.side = p at h hk ⊢
  intro p0 fee
  peel h as delta, hd
  peel h as rm, hrm
  peel h as x, hx
  peel h as pen, hpen
  simp only [cmul_ok] at hx
  obtain ⟨_, rfl⟩ := hx
  simp only [cdiv_ok] at hpen
  obtain ⟨_, rfl⟩ := hpen
  split at h
  · rename_i hc
    peel h as b, hb
    simp only [cadd_ok] at hb
    obtain ⟨_, rfl⟩ := hb
    obtain ⟨st1, m1, pre, st2, m3, h1, h2, h3, h4⟩ := liq_tail q e e' env sw liq p fee 0 _ msgs hk h
    refine ⟨delta, rm, 0, _, st1, m1, pre, st2, m3, hd, hrm, ?_, h1, h2, h3, h4⟩
    rw [if_pos hc]; exact ⟨rfl, rfl⟩
  · rename_i hc
    obtain ⟨st1, m1, pre, st2, m3, h1, h2, h3, h4⟩ := liq_tail q e e' env sw liq p fee _ _ msgs hk h
    refine ⟨delta, rm, _, _, st1, m1, pre, st2, m3, hd, hrm, ?_, h1, h2, h3, h4⟩
    rw [if_neg hc]; exact ⟨rfl, rfl⟩

macro "unjp " h:ident : tactic =>
  `(tactic| (extract_lets +onlyGivenNames jp__ at $h:ident; simp -zeta only [pure_bind, jp__] at $h:ident; clear jp__))

theorem lt_zero_iff (a : Integer) : Integer.lt a Integer.zero = true ↔ a.toInt < 0 := by
  unfold Integer.lt
  rw [beq_iff_eq, cmp_lt_iff]
  rfl

/-- C06: a partial liquidation reduces the size by the base amount exchanged, keeps its sign side,
    and pays the insurance fund and the liquidator half the penalty each -/
theorem partialLiquidationReply_spec (q : Q) (e e' : E) (env : Env) (i o : Nat) (msgs : List SubMsg)
    (sw : TmpSwap) (liq : Nat) (hs : e.tmpSwap = some sw) (hl : e.tmpLiq = some liq)
    (h : partialLiquidationReply q e env i o = .ok (e', msgs)) :
    let p := getPosition env e sw.vamm sw.trader sw.side
    let fee := o * e.cfg.liqFee / e.cfg.decimals / 2
    (readPosition e' sw.vamm sw.trader).size.toInt
        = (if p.size.toInt < 0 then p.size.toInt + i else p.size.toInt - i)
    ∧ (fee = 0 → msgs = [])
    ∧ (fee ≠ 0 → ∃ st2 m3, withdraw q e e.st liq fee 0 = .ok (st2, m3)
                  ∧ msgs = transferMsg e.cfg e.cfg.insuranceFund fee :: m3)
    ∧ e'.tmpSwap = none ∧ e'.tmpLiq = none
    ∧ (readPosition e' sw.vamm sw.trader).chk = p.chk ∧ (readPosition e' sw.vamm sw.trader).block = p.block := by
  have hk := getPosition_key env e sw.vamm sw.trader sw.side
  unfold partialLiquidationReply at h
  rw [hs, hl] at h
  unjp h
  unjp h
  unjp h
  generalize getPosition env e sw.vamm sw.trader sw.side = p at h hk ⊢
  intro p0 fee
  peel h as a, ha
  peel h as realized, hr
  peel h as x, hx
  peel h as pen, hpen
  simp only [cmul_ok] at hx
  obtain ⟨_, rfl⟩ := hx
  simp only [cdiv_ok] at hpen
  obtain ⟨_, rfl⟩ := hpen
  extract_lets jpA at h
  peelj h as ns, hns
  simp -zeta only [jpA] at h
  clear jpA
  peel h as m1, hm1
  peel h as nm, hnm
  extract_lets jpB at h
  have h2 : ∃ nn, jpB nn = .ok (e', msgs) := by
    split at h
    · peel h as a1, ha1
      peel h as nn, hnn
      exact ⟨nn, h⟩
    · peel h as a1, ha1
      peel h as nn, hnn
      exact ⟨nn, h⟩
  clear h
  obtain ⟨nn, h⟩ := h2
  simp -zeta only [jpB] at h
  clear jpB
  extract_lets p' e1 jpC at h
  have hsize : p'.size.toInt = (if p.size.toInt < 0 then p.size.toInt + i else p.size.toInt - i) := by
    show ns.toInt = _
    split at hns
    · rename_i hc
      rw [lt_zero_iff] at hc
      rw [if_pos hc, (add_ok _ _ _ hns).1, toInt_newPositive]
    · rename_i hc
      rw [lt_zero_iff] at hc
      rw [if_neg hc, (add_ok _ _ _ hns).1, toInt_newNegative]; omega
  have hrd : ∀ st, readPosition (enterRestrictionMode { storePosition e p' with st := st, tmpSwap := none, tmpLiq := none }
      sw.vamm env.height) sw.vamm sw.trader = p' := by
    intro st
    rw [readPosition_enterRestriction]
    show readPosition (storePosition e p') sw.vamm sw.trader = p'
    rw [← hk.1, ← hk.2]; exact readPosition_store_same e p'
  split at h
  · rename_i hc
    peel h as x, hw
    rw [unwrap_ok] at hw
    simp only [jpC, pure_ok_iff] at h
    injection h with h1 h2
    have hr' : readPosition e' sw.vamm sw.trader = p' := by rw [← h1]; exact hrd _
    rw [hr']
    subst h1 h2
    exact ⟨hsize, fun h0 => absurd h0 hc, fun _ => ⟨x.1, x.2, hw, rfl⟩, rfl, rfl, rfl, rfl⟩
  · rename_i hc
    simp only [jpC, pure_ok_iff] at h
    injection h with h1 h2
    have hr' : readPosition e' sw.vamm sw.trader = p' := by rw [← h1]; exact hrd _
    rw [hr']
    subst h1 h2
    exact ⟨hsize, fun _ => rfl, fun h0 => absurd h0 hc, rfl, rfl, rfl, rfl⟩

theorem readVammMap_store_same (e : E) (v : Nat) (m : VammMap) : readVammMap (storeVammMap e v m) v = m := by
  simp [readVammMap, storeVammMap]

theorem appendCum_spec (e e1 : E) (v : Nat) (pf : Integer) (h : appendCum e v pf = .ok e1) :
    (latestCum e1 v).toInt = (latestCum e v).toInt + pf.toInt
    ∧ e1.positions = e.positions ∧ e1.st = e.st ∧ e1.cfg = e.cfg := by
  unfold appendCum at h
  simp only [] at h
  unfold latestCum
  split at h
  · rename_i hc
    injection h with h; subst h
    rw [readVammMap_store_same, hc]
    refine ⟨?_, rfl, rfl, rfl⟩
    show pf.toInt = Integer.zero.toInt + pf.toInt
    have : Integer.zero.toInt = 0 := rfl
    omega
  · rename_i c cs hc
    peel h as s, hs
    simp only [pure_ok_iff] at h
    subst h
    rw [readVammMap_store_same, hc]
    refine ⟨?_, rfl, rfl, rfl⟩
    show s.toInt = c.toInt + pf.toInt
    rw [(add_ok _ _ _ hs).1]; omega

/-- C11: the engine's half of a funding settlement -/
theorem payFundingReply_spec (q : Q) (e e' : E) (env : Env) (pf : Integer) (v : Nat) (msgs : List SubMsg)
    (h : payFundingReply q e env pf v = .ok (e', msgs)) :
    (latestCum e' v).toInt = (latestCum e v).toInt + pf.toInt
    ∧ ∃ net, q.vammNet v = .ok net ∧
        let payment := trunc (net.toInt * pf.toInt) (e.cfg.decimals : Int)
        (payment < 0 → msgs = [ifWithdrawMsg payment.natAbs])
        ∧ (payment = 0 → msgs = [])
        ∧ (0 < payment → ∃ bal, q.balance ENGINE_ADDR = .ok bal ∧
              msgs = [transferMsg e.cfg e.cfg.insuranceFund (if bal < payment.natAbs then bal else payment.natAbs)])
    ∧ e'.positions = e.positions ∧ e'.st = e.st ∧ e'.cfg = e.cfg := by
  unfold payFundingReply at h
  peel h as e1, he1
  peel h as net, hnet
  peel h as a, ha
  peel h as pay, hpay
  obtain ⟨hc1, hc2, hc3, hc4⟩ := appendCum_spec e e1 v pf he1
  have e2 := (checkedMul_ok _ _ _ ha).1
  have e3 := (checkedDiv_ok _ _ _ hpay).1
  rw [toInt_newPositive, e2] at e3
  have hv := toInt_natAbs pay
  have hneg := isNegative_iff pay
  have hpos := isPositive_iff pay
  have hz := isZero_iff pay
  split at h
  · rename_i hc
    simp only [pure_ok_iff] at h
    injection h with h1 h2
    subst h1 h2
    refine ⟨hc1, net, hnet, ?_⟩
    intro payment
    have hp : payment = pay.toInt := e3.symm
    have : pay.toInt < 0 := hneg.1 hc.1
    refine ⟨fun _ => ?_, fun h0 => ?_, fun h0 => ?_, hc2, hc3, hc4⟩
    · rw [hp, hv]
    · omega
    · omega
  · rename_i hc
    split at h
    · rename_i hc'
      peel h as m, hm
      simp only [pure_ok_iff] at h
      injection h with h1 h2
      subst h1 h2
      unfold transferToInsuranceFund at hm
      peel hm as bal, hbal
      rw [unwrap_ok] at hbal
      simp only [pure_ok_iff] at hm
      subst hm
      refine ⟨hc1, net, hnet, ?_⟩
      intro payment
      have hp : payment = pay.toInt := e3.symm
      have h1 : 0 ≤ pay.toInt := hpos.1 hc'.1
      have h2 : ¬ pay.toInt = 0 := fun h0 => by
        have := hz.2 h0
        simp [this] at hc'
      refine ⟨fun _ => ?_, fun h0 => ?_, fun h0 => ?_, hc2, hc3, hc4⟩
      · omega
      · omega
      · refine ⟨bal, hbal, ?_⟩
        rw [hp, hv, hc4]
    · rename_i hc'
      simp only [pure_ok_iff] at h
      injection h with h1 h2
      subst h1 h2
      refine ⟨hc1, net, hnet, ?_⟩
      intro payment
      have hp : payment = pay.toInt := e3.symm
      have h0 : pay.toInt = 0 := by
        by_cases hz0 : pay.toInt = 0
        · exact hz0
        · exfalso
          have hz1 : pay.isZero = false := by
            cases hzz : pay.isZero
            · rfl
            · exact absurd (hz.1 hzz) hz0
          by_cases hn : pay.toInt < 0
          · exact hc ⟨hneg.2 hn, by simp [hz1]⟩
          · exact hc' ⟨hpos.2 (by omega), by simp [hz1]⟩
      refine ⟨fun _ => ?_, fun _ => rfl, fun _ => ?_, hc2, hc3, hc4⟩
      · omega
      · omega

theorem updatePositionReply_inv (q : Q) (e e' : E) (env : Env) (i o id : Nat) (msgs : List SubMsg) (sw : TmpSwap)
    (hs : e.tmpSwap = some sw) (h : updatePositionReply q e env i o id = .ok (e', msgs)) :
    ∃ (rm : RemainMargin) (md : Integer) (p' : Position) (st2 : State) (ms : List SubMsg) (ratio : Integer),
      calcRemainMargin e (getPosition env e sw.vamm sw.trader sw.side) md = .ok rm
      ∧ p'.vamm = sw.vamm ∧ p'.trader = sw.trader ∧ p'.chk = rm.latest ∧ p'.block = env.height
      ∧ ms.length ≤ 2
      ∧ (∀ m ∈ ms, payee m = none ∨ payee m = some sw.trader ∨ payee m = some ENGINE_ADDR)
      ∧ (sw.feesPaid = true → msgs = ms)
      ∧ (sw.feesPaid = false → ∃ fm sp tl,
            transferFees q e sw.trader sw.vamm sw.openNotional = .ok (fm, sp, tl) ∧ msgs = ms ++ fm)
      ∧ queryMarginRatio q (storePosition e p') p'.vamm p'.trader = .ok ratio
      ∧ requireAdditionalMargin ratio e.cfg.mmr = .ok ()
      ∧ e' = { storePosition e p' with st := st2, tmpSwap := none, sentFunds := none } := by
  have hk := getPosition_key env e sw.vamm sw.trader sw.side
  unfold updatePositionReply at h
  rw [hs] at h
  unjp h
  cases hsf : e.sentFunds with
  | none =>
    rw [hsf] at h
    simp [bind, Except.bind] at h
  | some funds =>
    rw [hsf] at h
    unjp h
    unjp h
    generalize getPosition env e sw.vamm sw.trader sw.side = p at h hk ⊢
    peel h as st, hst
    extract_lets -underBinder jpA at h
    have hA : ∃ x, jpA x = .ok (e', msgs) := by
      split at h
      · peel h as a1, ha1
        peel h as a2, ha2
        peel h as a3, ha3
        peel h as a4, ha4
        exact ⟨(a2, a3, Integer.newPositive a2, sideToDirection sw.side, a4), h⟩
      · peel h as a1, ha1
        peel h as a2, ha2
        peel h as a3, ha3
        exact ⟨(0, sw.marginToVault, a1, p.direction, a3.value), h⟩
    clear h
    obtain ⟨⟨sm, mtv, md, nd, nn⟩, h⟩ := hA
    simp -zeta only [jpA] at h
    clear jpA
    peel h as rm, hrm
    peel h as ns, hns
    extract_lets -underBinder p' e1 at h
    peel h as u, hcap
    extract_lets -underBinder jpB at h
    have hB : ∃ y : State × List SubMsg × Nat, jpB y = .ok (e', msgs) ∧ y.2.1.length ≤ 2
        ∧ (∀ m ∈ y.2.1, payee m = none ∨ payee m = some sw.trader ∨ payee m = some ENGINE_ADDR) := by
      split at h
      · peel h as x, hw
        rw [unwrap_ok] at hw
        obtain ⟨bal, _, hm⟩ := withdraw_spec q e1 st x.1 sw.trader mtv.value 0 x.2 hw
        refine ⟨(x.1, x.2, funds.required), h, ?_, ?_⟩
        · show x.2.length ≤ 2
          rcases hm with ⟨_, _, _, _, hm⟩ | ⟨_, _, hm⟩ <;> rw [hm] <;> simp
        · show ∀ m ∈ x.2, _
          intro m hmem
          rcases hm with ⟨_, _, _, _, hm⟩ | ⟨_, _, hm⟩
          · rw [hm] at hmem
            simp only [List.mem_cons, List.mem_nil_iff, or_false] at hmem
            rcases hmem with rfl | rfl
            · exact Or.inl (payee_ifWithdrawMsg _)
            · exact Or.inr (Or.inl (payee_transferMsg _ _ _))
          · rw [hm] at hmem
            simp only [List.mem_singleton] at hmem
            subst hmem
            exact Or.inr (Or.inl (payee_transferMsg _ _ _))
      · split at h
        · split at h
          · peel h as r, hr
            exact ⟨(st, [], r), h, by simp, by intro m hm; cases hm⟩
          · refine ⟨(st, [transferFromMsg e.cfg sw.trader ENGINE_ADDR mtv.value], funds.required), h, by simp, ?_⟩
            intro m hm
            simp only [List.mem_singleton] at hm
            subst hm
            exact Or.inr (Or.inr (payee_transferFromMsg _ _ _ _))
        · exact ⟨(st, [], funds.required), h, by simp, by intro m hm; cases hm⟩
    clear h
    obtain ⟨⟨st2, ms, rq⟩, h, hlen, hpay⟩ := hB
    simp only [] at hlen hpay
    simp -zeta only [jpB] at h
    clear jpB
    extract_lets -underBinder jpC at h
    have hC : ∃ z : List SubMsg × Nat, jpC z = .ok (e', msgs)
        ∧ (sw.feesPaid = true → z.1 = ms)
        ∧ (sw.feesPaid = false → ∃ fm sp tl,
            transferFees q e sw.trader sw.vamm sw.openNotional = .ok (fm, sp, tl) ∧ z.1 = ms ++ fm) := by
      split at h
      · rename_i hfp
        peel h as x, hx
        rw [unwrap_ok] at hx
        peel h as r1, hr1
        peel h as r2, hr2
        refine ⟨(ms ++ x.1, r2), h, ?_, ?_⟩
        · intro hh; rw [hh] at hfp; cases hfp
        · intro _
          exact ⟨x.1, x.2.1, x.2.2, hx, rfl⟩
      · rename_i hfp
        refine ⟨(ms, rq), h, fun _ => rfl, ?_⟩
        intro hh; rw [hh] at hfp; exact absurd rfl hfp
    clear h
    obtain ⟨⟨zs, zr⟩, h, hz1, hz2⟩ := hC
    simp only [] at hz1 hz2
    simp -zeta only [jpC] at h
    clear jpC
    extract_lets -underBinder jpD at h
    have hD : jpD () = .ok (e', msgs) := by
      split at h
      · peel h as u', hu'
        exact h
      · exact h
    clear h
    simp only [jpD] at hD
    peel hD as ratio, hratio
    peel hD as u2, hreq
    simp only [pure_ok_iff] at hD
    injection hD with h1 h2
    subst h2
    refine ⟨rm, md, p', st2, ms, ratio, hrm, hk.1, hk.2, rfl, rfl, hlen, hpay, ?_, ?_, hratio, hreq, h1.symm⟩
    · intro hh; exact hz1 hh
    · intro hh
      obtain ⟨fm, sp, tl, h3, h4⟩ := hz2 hh
      exact ⟨fm, sp, tl, h3, h4⟩

/-- C12: the fee of an open is charged in `update_position_reply` exactly when it has not been charged
    by the reversal leg before, on the requested notional -/
theorem updatePositionReply_fees (q : Q) (e e' : E) (env : Env) (i o id : Nat) (msgs : List SubMsg) (sw : TmpSwap)
    (hs : e.tmpSwap = some sw) (h : updatePositionReply q e env i o id = .ok (e', msgs)) :
    (sw.feesPaid = true → ∀ m ∈ msgs, payee m ≠ some e.cfg.feePool ∨ e.cfg.feePool = sw.trader ∨ e.cfg.feePool = ENGINE_ADDR)
    ∧ (sw.feesPaid = false → ∃ pre fm sp tl, msgs = pre ++ fm
         ∧ transferFees q e sw.trader sw.vamm sw.openNotional = .ok (fm, sp, tl)
         ∧ pre.length ≤ 2)
    ∧ e'.tmpSwap = none ∧ e'.sentFunds = none := by
  obtain ⟨rm, md, p', st2, ms, ratio, hrm, hv, ht, hchk, hblk, hlen, hpay, hf1, hf2, hratio, hreq, he'⟩ :=
    updatePositionReply_inv q e e' env i o id msgs sw hs h
  refine ⟨?_, ?_, ?_, ?_⟩
  · intro hfp m hm
    rw [hf1 hfp] at hm
    rcases hpay m hm with hp | hp | hp
    · left; rw [hp]; intro hh; cases hh
    · by_cases hc : e.cfg.feePool = sw.trader
      · exact Or.inr (Or.inl hc)
      · left; rw [hp]; intro hh; injection hh with hh; exact hc hh.symm
    · by_cases hc : e.cfg.feePool = ENGINE_ADDR
      · exact Or.inr (Or.inr hc)
      · left; rw [hp]; intro hh; injection hh with hh; exact hc hh.symm
  · intro hfp
    obtain ⟨fm, sp, tl, h3, h4⟩ := hf2 hfp
    exact ⟨ms, fm, sp, tl, h4, h3, hlen⟩
  · rw [he']
  · rw [he']

/-- C12: a reversal charges the fee once, on the requested notional, in its first leg and marks it paid -/
theorem reversePositionReply_fees (q : Q) (e e' : E) (env : Env) (out : Nat) (msgs : List SubMsg) (sw : TmpSwap)
    (hs : e.tmpSwap = some sw) (h : reversePositionReply q e env out = .ok (e', msgs)) :
    ∃ fm sp tl last, transferFees q e sw.trader sw.vamm sw.openNotional = .ok (fm, sp, tl)
      ∧ msgs = fm ++ [last]
      ∧ ((e'.tmpSwap = none ∧ e'.sentFunds = none ∧ ∃ amt, last = transferMsg e.cfg sw.trader amt)
         ∨ (∃ sw', e'.tmpSwap = some sw' ∧ sw'.feesPaid = true ∧ sw'.trader = sw.trader ∧ sw'.vamm = sw.vamm
              ∧ sw'.side = sw.side ∧ sw'.upnl = Integer.zero
              ∧ last = swapInputMsg sw.vamm sw.side sw'.openNotional 0 false REPLY_INCREASE))
      ∧ (readPosition e' sw.vamm sw.trader).size = Integer.zero
      ∧ (readPosition e' sw.vamm sw.trader).margin = 0 := by
  have hk := getPosition_key env e sw.vamm sw.trader sw.side
  unfold reversePositionReply at h
  rw [hs] at h
  unjp h
  cases hsf : e.sentFunds with
  | none =>
    rw [hsf] at h
    simp [bind, Except.bind] at h
  | some funds =>
    rw [hsf] at h
    unjp h
    generalize getPosition env e sw.vamm sw.trader sw.side = p at h hk ⊢
    peel h as st, hst
    peel h as rm0, hrm0
    peel h as pm, hpm
    extract_lets p' con newOpen at h
    peel h as x, hx
    obtain ⟨fm, sp, tl⟩ := x
    rw [unwrap_ok] at hx
    peel h as r, hr
    peel h as req, hreq
    peel h as lev, hlev
    have hrd : ∀ (E0 : E) (st0 : State), readPosition { storePosition E0 p' with st := st0 } sw.vamm sw.trader = p' := by
      intro E0 st0
      show readPosition (storePosition E0 p') sw.vamm sw.trader = p'
      rw [← hk.1, ← hk.2]; exact readPosition_store_same E0 p'
    split at h
    · peel h as margin, hmargin
      extract_lets ms jp at h
      have h2 : jp () = .ok (e', msgs) := by
        split at h
        · peel h as u, hu
          exact h
        · exact h
      clear h
      simp only [jp, pure_ok_iff] at h2
      injection h2 with h1 h2
      have hr' : readPosition e' sw.vamm sw.trader = p' := by rw [← h1]; exact hrd _ _
      rw [hr']
      subst h1 h2
      exact ⟨fm, sp, tl, _, hx, rfl, Or.inl ⟨rfl, rfl, _, rfl⟩, rfl, rfl⟩
    · peel h as mtv, hmtv
      extract_lets -underBinder jp at h
      have h2 : ∃ rq, jp rq = .ok (e', msgs) := by
        split at h
        · peel h as rq, hrq
          exact ⟨rq, h⟩
        · split at h
          · peel h as rq, hrq
            exact ⟨rq, h⟩
          · peel h as rq, hrq
            exact ⟨rq, h⟩
      clear h
      obtain ⟨rq, h2⟩ := h2
      simp only [jp, pure_ok_iff] at h2
      injection h2 with h1 h2
      have hr' : readPosition e' sw.vamm sw.trader = p' := by rw [← h1]; exact hrd _ _
      rw [hr']
      subst h1 h2
      exact ⟨fm, sp, tl, _, hx, rfl, Or.inr ⟨_, rfl, rfl, rfl, rfl, rfl, rfl, rfl⟩, rfl, rfl⟩

theorem queryMarginRatio_congr (q : Q) (e : E) (s : State) (a : Option TmpSwap) (b : Option SentFunds) (v t : Nat) :
    queryMarginRatio q { e with st := s, tmpSwap := a, sentFunds := b } v t = queryMarginRatio q e v t := rfl

/-- C05: the last guard of every open flow: the stored position's margin ratio is at least the
    maintenance ratio (the ratio does not depend on the fields changed afterwards) -/
theorem updatePositionReply_ratio (q : Q) (e e' : E) (env : Env) (i o id : Nat) (msgs : List SubMsg) (sw : TmpSwap)
    (hs : e.tmpSwap = some sw) (h : updatePositionReply q e env i o id = .ok (e', msgs)) :
    ∃ r, queryMarginRatio q e' sw.vamm sw.trader = .ok r ∧ Integer.lt r (Integer.newPositive e.cfg.mmr) = false
      ∧ (readPosition e' sw.vamm sw.trader).block = env.height
      ∧ (readPosition e' sw.vamm sw.trader).chk = latestCum e sw.vamm := by
  have hk := getPosition_key env e sw.vamm sw.trader sw.side
  obtain ⟨rm, md, p', st2, ms, ratio, hrm, hv, ht, hchk, hblk, hlen, hpay, hf1, hf2, hratio, hreq, he'⟩ :=
    updatePositionReply_inv q e e' env i o id msgs sw hs h
  have hlat := (calcRemainMargin_spec e _ md rm hrm).2.1
  rw [hk.1] at hlat
  have hr' : readPosition e' sw.vamm sw.trader = p' := by
    rw [he']
    show readPosition (storePosition e p') sw.vamm sw.trader = p'
    rw [← hv, ← ht]; exact readPosition_store_same e p'
  refine ⟨ratio, ?_, ?_, ?_, ?_⟩
  · rw [he', ← hv, ← ht]
    exact (queryMarginRatio_congr q (storePosition e p') st2 none none p'.vamm p'.trader).trans hratio
  · unfold requireAdditionalMargin at hreq
    split at hreq
    · cases hreq
    · rename_i hc
      simpa using hc
  · rw [hr', hblk]
  · rw [hr', hchk, hlat]

/-- C05: withdrawal — margin falls by amount + funding, checkpoint moves, free collateral covers it -/
theorem withdrawMargin_spec (q : Q) (e e' : E) (env : Env) (s v amt : Nat) (msgs : List SubMsg)
    (h : withdrawMargin q e env s v amt = .ok (e', msgs)) :
    let p := readPosition e v s
    ∃ rm fc st1, calcRemainMargin e p (Integer.newNegative amt) = .ok rm ∧ rm.badDebt = 0
      ∧ queryFreeCollateral q e v s = .ok fc ∧ (amt : Int) ≤ fc.toInt
      ∧ withdraw q e e.st s amt 0 = .ok (st1, msgs)
      ∧ readPosition e' p.vamm p.trader = { p with margin := rm.margin, chk := rm.latest }
      ∧ amt ≠ 0 := by
  unfold withdrawMargin at h
  peel h as u0, h0
  peel h as u1, h1
  peel h as u2, h2
  have hamt : amt ≠ 0 := by
    unfold requireNonZero at h2
    split at h2
    · cases h2
    · assumption
  intro p
  simp only [] at h
  peel h as rm, hrm
  by_cases hb : rm.badDebt = 0
  · rw [if_neg (fun hh => hh hb)] at h
    peel h as fc, hfc
    peel h as d, hd
    split at h
    · cases h
    · rename_i hneg
      peel h as x, hw
      rw [unwrap_ok] at hw
      obtain ⟨st1, ms⟩ := x
      simp only [pure_ok_iff] at h
      injection h with h1 h2
      subst h1 h2
      have e1 := (checkedSub_ok _ _ _ hd).1
      rw [toInt_newPositive] at e1
      have : ¬ d.toInt < 0 := fun hh => hneg ((isNegative_iff d).2 hh)
      refine ⟨rm, fc, st1, hrm, hb, hfc, by omega, hw, ?_, hamt⟩
      exact readPosition_store_same e { p with margin := rm.margin, chk := rm.latest }
  · rw [if_pos hb] at h; cases h

/-- C05: deposit — margin rises by exactly the amount taken (cw20: pulled; native: attached) -/
theorem depositMargin_spec (e e' : E) (env : Env) (s : Nat) (f : Funds) (v amt : Nat) (msgs : List SubMsg)
    (h : depositMargin e env s f v amt = .ok (e', msgs)) :
    let p := readPosition e v s
    p.trader = s ∧ readPosition e' p.vamm p.trader = { p with margin := p.margin + amt } ∧ amt ≠ 0
    ∧ (e.cfg.native = true → msgs = [] ∧ f.amount = amt ∧ f.extra = false)
    ∧ (e.cfg.native = false → msgs = [transferFromMsg e.cfg s ENGINE_ADDR amt]) := by
  unfold depositMargin at h
  peel h as u1, h1
  peel h as u2, h2
  have hamt : amt ≠ 0 := by
    unfold requireNonZero at h2
    split at h2
    · cases h2
    · assumption
  extract_lets -underBinder +onlyGivenNames jp at h
  have h3 : ∃ ms, jp ms = .ok (e', msgs)
      ∧ (e.cfg.native = true → ms = [] ∧ f.amount = amt ∧ f.extra = false)
      ∧ (e.cfg.native = false → ms = [transferFromMsg e.cfg s ENGINE_ADDR amt]) := by
    split at h
    · rename_i hn
      split at h
      · cases h
      · rename_i hx
        split at h
        · cases h
        · split at h
          · cases h
          · rename_i ha
            refine ⟨[], by simpa using h, fun _ => ⟨rfl, by simpa using ha, by simpa using hx⟩, fun h0 => ?_⟩
            rw [hn] at h0; cases h0
    · rename_i hn
      refine ⟨_, by simpa using h, fun h0 => absurd h0 hn, fun _ => rfl⟩
  clear h
  obtain ⟨ms, h, hm1, hm2⟩ := h3
  simp only [jp] at h
  intro p
  split at h
  · cases h
  · rename_i ht
    peel h as m, hm
    simp only [cadd_ok] at hm
    obtain ⟨_, rfl⟩ := hm
    simp only [pure_ok_iff] at h
    injection h with h1 h2
    subst h1 h2
    refine ⟨by simpa using ht, ?_, hamt, hm1, hm2⟩
    exact readPosition_store_same e { p with margin := p.margin + amt }

end Perp.Props.EngineMoney
