/-
  SatF (C14): pause, closed markets, registry shape, emergency shutdown — the model's step against
  `Spec.C14.check`.
-/
import Perp.Model.World
import Perp.Spec.World
import Perp.Lemmas.Basic
import Perp.Props.ModelStep
import Perp.Props.Dispatch
import Perp.Props.EngineGuards
import Perp.Props.WorldInv
import Perp.Props.VammGuards
import Perp.Props.G9Restr
import Perp.Props.Mirror.VammSide
import Perp.Props.Mirror.Exec
import Perp.Props.SatF09

namespace Perp.Props.SatF14
open Perp Perp.World Perp.Engine Perp.Spec Perp.Spec.W Perp.Props.ModelStep
open Perp.Props.Dispatch (execSubs_cons_ok execMsg_engine_frame setVamm_vamm_ne)
open Perp.Props.MirrorP (vammE_ok setVamm_vamm_same execMsg_swapInput_inv execMsg_swapOutput_inv
  execMsg_settle_inv execMsg_setOpen_inv)
open Perp.Props.SatF09 (msg_tx)

/-! ### the registry invariant -/

/-- Shape of the insurance fund's registry in every reachable world: no duplicates, at most
    `VAMM_LIMIT = 3` entries, and a non-empty list is a stored list (the storage item exists once a vAMM
    was ever added).  Established by instantiation (empty list), preserved by every `step`
    (`regInv_step`).  Needed by the C14 clause `registry-duplicates-or-over-capacity` (a transaction that
    does not touch the registry leaves a malformed registry malformed) and, through `stored`, by the
    shutdown clause (an owner's shutdown of a non-empty but "never stored" list would fail). -/
structure RegInv (s : Insurance.S) : Prop where
  nodup : s.vamms.Nodup
  cap : s.vamms.length ≤ 3
  stored : s.vamms ≠ [] → s.stored = true

theorem eraseDups_nodup (l : List Nat) (h : l.Nodup) : l.eraseDups = l := by
  induction l with
  | nil => rfl
  | cons a l ih =>
    rw [List.nodup_cons] at h
    rw [List.eraseDups_cons]
    have : l.filter (fun b => !b == a) = l := by
      rw [List.filter_eq_self]
      intro b hb
      simp only [Bool.not_eq_eq_eq_not, Bool.not_true, beq_eq_false_iff_ne, ne_eq]
      intro e; subst e; exact h.1 hb
    rw [this, ih h.2]

/-- the Boolean the check evaluates -/
theorem regInv_check (s : Insurance.S) (h : RegInv s) :
    (decide (s.vamms.length ≤ 3) && s.vamms.eraseDups.length == s.vamms.length) = true := by
  rw [eraseDups_nodup _ h.nodup]
  simp [h.cap]

/-! ### frames: who writes the registry -/

theorem execSubs_ifund : ∀ (fuel : Nat) (w w' : World) (c : Nat) (subs : List SubMsg),
    execSubs fuel w c subs = .ok w' → w'.ifund = w.ifund := by
  intro fuel
  induction fuel with
  | zero => intro w w' c subs h; unfold execSubs at h; cases h
  | succ fuel ih =>
    intro w w' c subs h
    cases subs with
    | nil => rw [WorldInv.execSubs_nil _ _ _ _ h]
    | cons s rest =>
      obtain ⟨w1, ev, hx, hyes, hno⟩ := execSubs_cons_ok fuel w w' c s rest h
      have hf := ((execMsg_engine_frame fuel).1 _ _ _ _ _ hx).2.2.1
      by_cases hr : s.replyOn = .always ∨ s.replyOn = .success
      · obtain ⟨_, e2, subs2, w3, hrep, hs2, hrest⟩ := hyes hr
        have h3 := ih _ _ _ _ hs2
        have h4 := ih _ _ _ _ hrest
        exact h4.trans (h3.trans hf)
      · exact (ih _ _ _ _ (hno hr)).trans hf

/-- only `ifAdd`, `ifRemove`, `ifOwner` write the insurance fund's state -/
theorem applyTx_ifund (w w' : World) (env : Env) (s : Nat) (f : Funds) (tx : Tx)
    (h1 : ∀ v, tx ≠ .ifAdd v) (h2 : ∀ v, tx ≠ .ifRemove v) (h3 : ∀ n, tx ≠ .ifOwner n)
    (h : applyTx w env s f tx = .ok w') : w'.ifund = w.ifund := by
  have hm : ∀ (w0 : World) m,
      (execMsg FUEL w0 s m).map (·.1) = .ok w' → w0.ifund = w.ifund → w'.ifund = w.ifund := by
    intro w0 m h' hl
    obtain ⟨ev, h'⟩ := msg_tx _ _ _ _ h'
    exact (((execMsg_engine_frame FUEL).1 _ _ _ _ _ h').2.2.1).trans hl
  cases tx with
  | engine m =>
    obtain ⟨w1, e1, subs, _, _, _, a4, _, _, _, hrun⟩ := WorldInv.applyTx_engine_inv w w' env s f m h
    exact (execSubs_ifund _ _ _ _ _ hrun).trans a4
  | ifAdd v => exact absurd rfl (h1 v)
  | ifRemove v => exact absurd rfl (h2 v)
  | ifOwner n => exact absurd rfl (h3 n)
  | vammSwapInput v dir amt lim cgo => exact hm _ _ h rfl
  | vammSwapOutput v dir amt lim => exact hm _ _ h rfl
  | vammSettle v => exact hm _ _ h rfl
  | vammSetOpen v o => exact hm _ _ h rfl
  | ifWithdraw amt => exact hm _ _ h rfl
  | vammConfig v u =>
    unfold applyTx at h
    simp only [bind_ok_iff, pure_ok_iff] at h
    obtain ⟨_, _, _, _, rfl⟩ := h
    rfl
  | vammOwner v n =>
    unfold applyTx at h
    simp only [bind_ok_iff, pure_ok_iff] at h
    obtain ⟨_, _, _, _, rfl⟩ := h
    rfl
  | ifShutdown =>
    unfold applyTx at h
    dsimp only at h
    split at h
    · cases h
    · split at h
      · cases h
      · have := execSubs_ifund _ _ _ _ _ h
        exact this
  | fpAdd tok =>
    unfold applyTx at h
    simp only [bind_ok_iff, pure_ok_iff] at h
    obtain ⟨_, _, rfl⟩ := h
    rfl
  | fpRemove tok =>
    unfold applyTx at h
    simp only [bind_ok_iff, pure_ok_iff] at h
    obtain ⟨_, _, rfl⟩ := h
    rfl
  | fpOwner n =>
    unfold applyTx at h
    simp only [bind_ok_iff, pure_ok_iff] at h
    obtain ⟨_, _, rfl⟩ := h
    rfl
  | fpSend tok amt to =>
    unfold applyTx at h
    dsimp only at h
    split at h
    · cases h
    split at h
    · cases h
    split at h
    · cases h
    split at h
    · cases h
    split at h
    · cases h
    have := execSubs_ifund _ _ _ _ _ h
    exact this
  | oracle price ts =>
    unfold applyTx at h
    dsimp only at h
    split at h
    · injection h with h; subst h; rfl
    · simp only [bind_ok_iff, pure_ok_iff] at h
      obtain ⟨_, _, rfl⟩ := h
      rfl
  | feedOwner n =>
    unfold applyTx at h
    dsimp only at h
    split at h
    · split at h
      · cases h
      · injection h with h; subst h; rfl
    · simp only [bind_ok_iff, pure_ok_iff] at h
      obtain ⟨_, _, rfl⟩ := h
      rfl
  | tokenApprove amt =>
    unfold applyTx at h
    dsimp only at h
    repeat' split at h
    all_goals first | (injection h with h; subst h; rfl) | cases h
  | tokenDecrease amt =>
    unfold applyTx at h
    dsimp only at h
    repeat' split at h
    all_goals first | (injection h with h; subst h; rfl) | cases h
  | tokenTransfer to amt =>
    unfold applyTx at h
    dsimp only at h
    split at h
    · cases h
    · exact hm _ _ h rfl
  | bankSend to amt =>
    unfold applyTx at h
    dsimp only at h
    split at h
    · cases h
    · exact hm _ _ h rfl


/-! ### the registry invariant is preserved by every transaction -/

theorem addVamm_stored (st st' : Insurance.S) (x v : Nat) (ed vd : Except Err Nat)
    (h : Insurance.addVamm st x v ed vd = .ok st') : st'.stored = true := by
  unfold Insurance.addVamm at h
  split at h
  · cases h
  simp only [bind_ok_iff] at h
  obtain ⟨d1, _, d2, _, h⟩ := h
  split at h
  · cases h
  split at h
  · cases h
  split at h
  · cases h
  simp only [pure_ok_iff] at h
  subst h
  rfl

theorem removeVamm_stored (st st' : Insurance.S) (x v : Nat)
    (h : Insurance.removeVamm st x v = .ok st') : st'.stored = true := by
  unfold Insurance.removeVamm at h
  split at h
  · cases h
  split at h
  · cases h
  rename_i hs
  split at h
  · cases h
  injection h with h
  subst h
  simpa using hs

theorem applyTx_regInv (w w' : World) (env : Env) (s : Nat) (f : Funds) (tx : Tx)
    (hr : RegInv w.ifund) (h : applyTx w env s f tx = .ok w') : RegInv w'.ifund := by
  by_cases h1 : ∃ v, tx = .ifAdd v
  · obtain ⟨v, rfl⟩ := h1
    unfold applyTx at h
    simp only [bind_ok_iff, pure_ok_iff] at h
    obtain ⟨x, hx, rfl⟩ := h
    obtain ⟨⟨a1, a2⟩, _⟩ := EngineGuards.addVamm_spec _ _ _ _ _ _ ⟨hr.nodup, hr.cap⟩ hx
    exact ⟨a1, a2, fun _ => addVamm_stored _ _ _ _ _ _ hx⟩
  by_cases h2 : ∃ v, tx = .ifRemove v
  · obtain ⟨v, rfl⟩ := h2
    unfold applyTx at h
    simp only [bind_ok_iff, pure_ok_iff] at h
    obtain ⟨x, hx, rfl⟩ := h
    obtain ⟨⟨a1, a2⟩, _⟩ := EngineGuards.removeVamm_spec _ _ _ _ ⟨hr.nodup, hr.cap⟩ hx
    exact ⟨a1, a2, fun _ => removeVamm_stored _ _ _ _ hx⟩
  by_cases h3 : ∃ n, tx = .ifOwner n
  · obtain ⟨n, rfl⟩ := h3
    unfold applyTx at h
    simp only [bind_ok_iff, pure_ok_iff] at h
    obtain ⟨x, hx, rfl⟩ := h
    unfold Insurance.updateOwner at hx
    split at hx
    · cases hx
    injection hx with hx
    subst hx
    exact ⟨hr.nodup, hr.cap, hr.stored⟩
  · rw [applyTx_ifund w w' env s f tx (fun v e => h1 ⟨v, e⟩) (fun v e => h2 ⟨v, e⟩) (fun n e => h3 ⟨n, e⟩) h]
    exact hr

/-- `RegInv` is an invariant of `step` (hence of every reachable world) -/
theorem regInv_step (w : World) (env : Env) (s : Nat) (f : Funds) (tx : Tx) (hr : RegInv w.ifund) :
    RegInv (step w env s f tx).ifund := by
  unfold step
  cases h : applyTx w env s f tx with
  | ok w' => exact applyTx_regInv w w' env s f tx hr h
  | error e => exact hr

/-! ### guards: pause, closed / unregistered markets -/

theorem not_isErr_ok {α : Type} (x : Except Err α) (a : α) (h : x = .ok a) : ¬ WorldInv.isErr x := by
  rintro ⟨e, he⟩; rw [he] at h; cases h

/-- a market that is not open, or not registered, in the sense of the spec, is rejected by `require_vamm` -/
theorem closed_hc (w : World) (v : Nat) (h : ¬ (isOpenV w v = true ∧ registered w v = true)) :
    w.engine.cfg.insuranceFund = IFUND →
      (w.ifund.vamms.contains v = false ∨ (∃ x, w.vamm? v = some x ∧ x.st.isOpen = false) ∨ w.vamm? v = none) := by
  intro _
  unfold isOpenV registered at h
  cases hc : w.ifund.vamms.contains v with
  | false => exact Or.inl rfl
  | true =>
    right
    cases hv : w.vamm? v with
    | none => exact Or.inr rfl
    | some x =>
      left
      refine ⟨x, rfl, ?_⟩
      cases ho : x.st.isOpen with
      | false => rfl
      | true => exact absurd ⟨by simp [hv, ho], hc⟩ h

/-- a successful `ClosePosition` swapped on the caller's vAMM, which was therefore open -/
theorem close_needs_open (w w' : World) (env : Env) (s : Nat) (f : Funds) (v l : Nat)
    (h : applyTx w env s f (.engine (.closePosition v l)) = .ok w') : isOpenV w v = true := by
  obtain ⟨w1, e1, subs, a1, _, a3, _, _, _, hex, hrun⟩ := WorldInv.applyTx_engine_inv w w' env s f _ h
  have hex' : closePosition w1.q w1.engine env s v l = .ok (e1, subs) := hex
  obtain ⟨_, _, hsz, _⟩ := MirrorP.closePosition_inv w1.q w1.engine env s v l _ hex'
  have hv := G9Restr.readPosition_vamm _ _ _ hsz
  have hvm : ∀ a, ({ w1 with engine := e1 } : World).vamm? a = w.vamm? a := by
    intro a; unfold vamm?; simp only [a3]
  have hm := EngineGuards.closePosition_msgs _ _ _ _ _ _ _ _ hex'
  simp only [hv] at hm
  unfold isOpenV
  rcases hm with hm | ⟨n, hm, _⟩
  · subst hm
    obtain ⟨w2, ev, hx, _⟩ := execSubs_cons_ok _ _ _ _ _ _ hrun
    obtain ⟨x, x', o, hx1, hx2, _⟩ := execMsg_swapOutput_inv _ _ _ _ _ _ _ _ _ hx
    rw [hvm] at hx1
    rw [hx1]
    exact (VammGuards.swapOutput_guards _ _ _ _ _ _ _ hx2).1
  · subst hm
    obtain ⟨w2, ev, hx, _⟩ := execSubs_cons_ok _ _ _ _ _ _ hrun
    obtain ⟨x, x', o, hx1, hx2, _⟩ := execMsg_swapInput_inv _ _ _ _ _ _ _ _ _ _ hx
    rw [hvm] at hx1
    rw [hx1]
    exact (VammGuards.swapInput_guards _ _ _ _ _ _ _ _ hx2).1


/-! ### emergency shutdown -/

def closeMsg (v : Nat) : SubMsg := ⟨.vammSetOpen v false, 0, .never⟩

theorem execSubs_never_step (fuel : Nat) (w w1 : World) (c : Nat) (s : SubMsg) (rest : List SubMsg) (ev : Ev)
    (hr : s.replyOn = .never) (hx : execMsg fuel w c s.msg = .ok (w1, ev)) :
    execSubs (fuel + 1) w c (s :: rest) = execSubs fuel w1 c rest := by
  conv => lhs; unfold execSubs
  simp [hx, hr]

theorem isOpenV_setVamm_closed (w : World) (a : Nat) (x x' : Vamm.V) (hx : w.vamm? a = some x)
    (hc : x'.st.isOpen = false) (v : Nat) (h : v = a ∨ isOpenV w v = false) :
    isOpenV (w.setVamm a x') v = false := by
  by_cases hv : v = a
  · subst hv
    unfold isOpenV
    rw [setVamm_vamm_same _ _ _ _ hx]
    exact hc
  · rcases h with h | h
    · exact absurd h hv
    · unfold isOpenV at h ⊢
      rw [setVamm_vamm_ne _ _ _ _ hv]
      exact h

/-- a successful shutdown run leaves every listed vAMM closed, and re-opens none -/
theorem shutdown_closes : ∀ (l : List Nat) (fuel : Nat) (w w' : World),
    execSubs fuel w IFUND (l.map closeMsg) = .ok w' →
    (∀ v, v ∈ l ∨ isOpenV w v = false → isOpenV w' v = false) := by
  intro l
  induction l with
  | nil =>
    intro fuel w w' h v hv
    rw [WorldInv.execSubs_nil _ _ _ _ h]
    rcases hv with hv | hv
    · cases hv
    · exact hv
  | cons a rest ih =>
    intro fuel w w' h v hv
    cases fuel with
    | zero => unfold execSubs at h; cases h
    | succ fuel =>
      rw [List.map_cons] at h
      obtain ⟨w1, ev, hx, _, hno⟩ := execSubs_cons_ok _ _ _ _ _ _ h
      have hrest := hno (by simp [closeMsg])
      obtain ⟨x, x', hx1, hx2, rfl⟩ := execMsg_setOpen_inv _ _ _ _ _ _ _ hx
      have hc := (VammGuards.setOpen_role _ _ _ _ _ hx2).2.2.1
      apply ih _ _ _ hrest v
      by_cases hva : v = a
      · exact Or.inr (isOpenV_setVamm_closed _ _ _ _ hx1 hc v (Or.inl hva))
      · rcases hv with hv | hv
        · simp only [List.mem_cons] at hv
          rcases hv with hv | hv
          · exact absurd hv hva
          · exact Or.inl hv
        · exact Or.inr (isOpenV_setVamm_closed _ _ _ _ hx1 hc v (Or.inr hv))

/-- the run over a duplicate-free list of open vAMMs that accept the fund's call succeeds -/
theorem shutdown_succeeds : ∀ (l : List Nat) (fuel : Nat) (w : World), l.Nodup → l.length + 2 ≤ fuel →
    (∀ v ∈ l, ∃ x, w.vamm? v = some x ∧ x.st.isOpen = true ∧ (x.cfg.insuranceFund = IFUND ∨ x.cfg.owner = IFUND)) →
    ∃ w', execSubs fuel w IFUND (l.map closeMsg) = .ok w' := by
  intro l
  induction l with
  | nil =>
    intro fuel w _ hf _
    cases fuel with
    | zero => simp at hf
    | succ fuel => exact ⟨w, by unfold execSubs; rfl⟩
  | cons a rest ih =>
    intro fuel w hn hf hall
    rw [List.nodup_cons] at hn
    cases fuel with
    | zero => simp at hf
    | succ fuel =>
      cases fuel with
      | zero => simp at hf
      | succ fuel =>
        obtain ⟨x, hx, ho, hwire⟩ := hall a (by simp)
        have hset : Vamm.setOpen x w.env IFUND false
            = .ok { x with st := { x.st with isOpen := false } } := by
          unfold Vamm.setOpen
          have h1 : ¬ ((IFUND ≠ x.cfg.owner ∧ IFUND ≠ x.cfg.insuranceFund) ∨ x.st.isOpen = false) := by
            rw [ho]
            rintro (⟨h1, h2⟩ | h)
            · rcases hwire with hw | hw
              · exact h2 hw.symm
              · exact h1 hw.symm
            · cases h
          rw [if_neg h1]
          simp
        have hmsg : execMsg (fuel + 1) w IFUND (closeMsg a).msg
            = .ok (w.setVamm a { x with st := { x.st with isOpen := false } }, .none) := by
          unfold execMsg
          simp only [closeMsg]
          rw [(vammE_ok _ _ _).2 hx]
          simp [hset]
        rw [List.map_cons, execSubs_never_step _ _ _ _ _ _ _ rfl hmsg]
        apply ih _ _ hn.2 (by simp at hf ⊢; omega)
        intro v hv
        have hva : v ≠ a := fun e => hn.1 (e ▸ hv)
        obtain ⟨y, hy, h2, h3⟩ := hall v (by simp [hv])
        exact ⟨y, by rw [setVamm_vamm_ne _ _ _ _ hva]; exact hy, h2, h3⟩


/-! ### the check on a successful transaction -/

theorem pause_false (w w' : World) (env : Env) (s : Nat) (f : Funds) (tx : Tx)
    (h : applyTx w env s f tx = .ok w')
    (hm : (∃ v sd m l b, tx = .engine (.openPosition v sd m l b)) ∨ (∃ v l, tx = .engine (.closePosition v l))
        ∨ (∃ v a, tx = .engine (.depositMargin v a)) ∨ (∃ v a, tx = .engine (.withdrawMargin v a))) :
    w.engine.st.pause = false := by
  cases hp : w.engine.st.pause with
  | false => rfl
  | true =>
    exfalso
    rcases hm with ⟨v, sd, m, l, b, rfl⟩ | ⟨v, l, rfl⟩ | ⟨v, a, rfl⟩ | ⟨v, a, rfl⟩
    · exact not_isErr_ok _ _ h (WorldInv.paused_tx_rejected w env s f v sd m l b 0 hp).1
    · exact not_isErr_ok _ _ h (WorldInv.paused_tx_rejected w env s f v .buy 0 l 0 0 hp).2.1
    · exact not_isErr_ok _ _ h (WorldInv.paused_tx_rejected w env s f v .buy 0 0 0 a hp).2.2.1
    · exact not_isErr_ok _ _ h (WorldInv.paused_tx_rejected w env s f v .buy 0 0 0 a hp).2.2.2

theorem market_ok (w w' : World) (env : Env) (s : Nat) (f : Funds) (tx : Tx) (v : Nat)
    (h : applyTx w env s f tx = .ok w')
    (hm : (∃ sd m l b, tx = .engine (.openPosition v sd m l b)) ∨ (∃ t l, tx = .engine (.liquidate v t l))
        ∨ (∃ a, tx = .engine (.withdrawMargin v a)) ∨ tx = .engine (.payFunding v)) :
    isOpenV w v = true ∧ registered w v = true := by
  apply Classical.byContradiction
  intro hn
  have hc := closed_hc w v hn
  rcases hm with ⟨sd, m, l, b, rfl⟩ | ⟨t, l, rfl⟩ | ⟨a, rfl⟩ | rfl
  · exact not_isErr_ok _ _ h (WorldInv.closed_or_unregistered_tx_rejected w env s f v sd m l b 0 0 hc).1
  · exact not_isErr_ok _ _ h (WorldInv.closed_or_unregistered_tx_rejected w env s f v .buy 0 l 0 0 t hc).2.1
  · exact not_isErr_ok _ _ h (WorldInv.closed_or_unregistered_tx_rejected w env s f v .buy 0 0 0 a 0 hc).2.2.1
  · exact not_isErr_ok _ _ h (WorldInv.closed_or_unregistered_tx_rejected w env s f v .buy 0 0 0 0 0 hc).2.2.2

theorem c14_ok (w w' : World) (env : Env) (s : Nat) (f : Funds) (tx : Tx) (xf : List (Nat × Nat × Nat)) (r : Bool)
    (hr : RegInv w.ifund) (h : applyTx w env s f tx = .ok w') :
    Spec.C14.check { pre := w, post := w', env := env, sender := s, funds := f, tx := tx, ok := true,
                     xfers := xf, residue := r } = [] := by
  have hreg := regInv_check _ (applyTx_regInv w w' env s f tx hr h)
  cases tx with
  | engine m =>
    cases m with
    | openPosition v sd mg l b =>
      have hp := pause_false w w' env s f _ h (Or.inl ⟨_, _, _, _, _, rfl⟩)
      have hm := market_ok w w' env s f _ v h (Or.inl ⟨_, _, _, _, rfl⟩)
      simp [Spec.C14.check, engineMsg, chk, hreg, hp, hm.1, hm.2]
    | closePosition v l =>
      have hp := pause_false w w' env s f _ h (Or.inr (Or.inl ⟨_, _, rfl⟩))
      have ho := close_needs_open w w' env s f v l h
      simp [Spec.C14.check, engineMsg, chk, hreg, hp, ho]
    | depositMargin v a =>
      have hp := pause_false w w' env s f _ h (Or.inr (Or.inr (Or.inl ⟨_, _, rfl⟩)))
      simp [Spec.C14.check, engineMsg, chk, hreg, hp]
    | withdrawMargin v a =>
      have hp := pause_false w w' env s f _ h (Or.inr (Or.inr (Or.inr ⟨_, _, rfl⟩)))
      have hm := market_ok w w' env s f _ v h (Or.inr (Or.inr (Or.inl ⟨_, rfl⟩)))
      simp [Spec.C14.check, engineMsg, chk, hreg, hp, hm.1, hm.2]
    | liquidate v t l =>
      have hm := market_ok w w' env s f _ v h (Or.inr (Or.inl ⟨_, _, rfl⟩))
      simp [Spec.C14.check, engineMsg, chk, hreg, hm.1, hm.2]
    | payFunding v =>
      have hm := market_ok w w' env s f _ v h (Or.inr (Or.inr (Or.inr rfl)))
      simp [Spec.C14.check, engineMsg, chk, hreg, hm.1, hm.2]
    | updateConfig u => simp [Spec.C14.check, engineMsg, chk, hreg]
    | updatePauser n => simp [Spec.C14.check, engineMsg, chk, hreg]
    | addWhitelist a => simp [Spec.C14.check, engineMsg, chk, hreg]
    | removeWhitelist a => simp [Spec.C14.check, engineMsg, chk, hreg]
    | setPause p => simp [Spec.C14.check, engineMsg, chk, hreg]
  | ifShutdown =>
    have hclosed : ∀ v ∈ w.ifund.vamms, isOpenV w' v = false := by
      unfold applyTx at h
      dsimp only at h
      split at h
      · cases h
      split at h
      · cases h
      rw [List.take_of_length_le (by simpa [Insurance.VAMM_LIMIT] using hr.cap)] at h
      intro v hv
      exact shutdown_closes _ _ _ _ h v (Or.inl hv)
    have hall : (w.ifund.vamms.all fun v => !isOpenV w' v) = true := by
      rw [List.all_eq_true]
      intro v hv
      simp [hclosed v hv]
    simp [Spec.C14.check, engineMsg, chk, hreg]
    simpa using hall
  | _ => simp [Spec.C14.check, engineMsg, chk, hreg]


/-! ### the check on a failed transaction -/

/-- the owner's shutdown of a non-empty registry of open vAMMs, each of which accepts the fund's call,
    succeeds -/
theorem shutdown_by_owner_succeeds (w : World) (env : Env) (f : Funds) (hr : RegInv w.ifund)
    (hne : w.ifund.vamms ≠ [])
    (hall : ∀ v ∈ w.ifund.vamms, ∃ x, w.vamm? v = some x ∧ x.st.isOpen = true
              ∧ (x.cfg.insuranceFund = IFUND ∨ x.cfg.owner = IFUND)) :
    ∃ w', applyTx w env w.ifund.owner f .ifShutdown = .ok w' := by
  unfold applyTx
  dsimp only
  rw [if_neg (by simp), hr.stored hne]
  simp only [Bool.not_true, Bool.false_eq_true, if_false]
  rw [List.take_of_length_le (by simpa [Insurance.VAMM_LIMIT] using hr.cap)]
  exact shutdown_succeeds _ FUEL _ hr.nodup (by have := hr.cap; simp [FUEL]; omega) hall

theorem c14_err (w : World) (env : Env) (s : Nat) (f : Funds) (tx : Tx) (xf : List (Nat × Nat × Nat)) (r : Bool)
    (e : Err) (hr : RegInv w.ifund) (h : applyTx w env s f tx = .error e) :
    Spec.C14.check { pre := w, post := w, env := env, sender := s, funds := f, tx := tx, ok := false,
                     xfers := xf, residue := r } = []
    ∨ (tx = .ifShutdown ∧ (w.ifund.vamms.any fun v => !isOpenV w v) = true
        ∧ Spec.C14.check { pre := w, post := w, env := env, sender := s, funds := f, tx := tx, ok := false,
                             xfers := xf, residue := r } = ["shutdown-by-owner-failed[some-vamm-already-closed]"]) := by
  have hreg := regInv_check _ hr
  cases tx with
  | engine m => left; cases m <;> simp [Spec.C14.check, engineMsg, chk, hreg]
  | ifShutdown =>
    by_cases hc : s = w.ifund.owner ∧ w.ifund.vamms ≠ []
        ∧ (w.ifund.vamms.all (fun v => match w.vamm? v with
              | some x => x.cfg.insuranceFund == IFUND || x.cfg.owner == IFUND
              | none => false)) = true
    · right
      obtain ⟨hs, hne, hw⟩ := hc
      have hany : (w.ifund.vamms.any fun v => !isOpenV w v) = true := by
        apply Classical.byContradiction
        intro hn
        have hopen : ∀ v ∈ w.ifund.vamms, isOpenV w v = true := by
          intro v hv
          cases ho : isOpenV w v with
          | true => rfl
          | false => exact absurd (List.any_eq_true.2 ⟨v, hv, by simp [ho]⟩) hn
        have hall : ∀ v ∈ w.ifund.vamms, ∃ x, w.vamm? v = some x ∧ x.st.isOpen = true
              ∧ (x.cfg.insuranceFund = IFUND ∨ x.cfg.owner = IFUND) := by
          intro v hv
          have h1 := hopen v hv
          have h2 := List.all_eq_true.1 hw v hv
          unfold isOpenV at h1
          cases hx : w.vamm? v with
          | none => rw [hx] at h1; cases h1
          | some x =>
            rw [hx] at h1 h2
            exact ⟨x, rfl, h1, by simpa using h2⟩
        obtain ⟨w', hok⟩ := shutdown_by_owner_succeeds w env f hr hne hall
        rw [← hs, h] at hok
        cases hok
      refine ⟨rfl, hany, ?_⟩
      have hne' : w.ifund.vamms.isEmpty = false := by
        cases hl : w.ifund.vamms with
        | nil => exact absurd hl hne
        | cons a l => rfl
      simp only [Spec.C14.check, engineMsg, chk, hreg, hne', hs, hany]
      simp
      exact List.all_eq_true.1 hw
    · left
      simp only [Spec.C14.check, engineMsg, chk, hreg]
      simp
      intro h1 h2
      apply Classical.byContradiction
      intro hn
      apply hc
      refine ⟨h1, h2, List.all_eq_true.2 fun v hv => ?_⟩
      apply Classical.byContradiction
      intro hb
      exact hn ⟨v, hv, Bool.eq_false_iff.2 hb⟩
  | _ => left; simp [Spec.C14.check, engineMsg, chk, hreg]

end Perp.Props.SatF14
