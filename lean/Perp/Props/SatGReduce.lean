/-
  SatG, part 5 — C13 twins for the two remaining flows, at transaction level:
    * `twin_open_reduce`   — `OpenPosition` against a larger position of the opposite side (`REPLY_DECREASE`);
    * `twin_close_partial` — `ClosePosition` when the engine falls back to a partial close (`REPLY_PARTIAL_CLOSE`).
  In both flows only the fees move: cw20 pulls them from the caller (trader → fund / pool), native sends them out
  of the vault after the attached coins arrived.  Architecture as in `SatGOpenTx` / `SatGCloseTx`:
  reply-level relation (`upr_dec`, `partialClosePositionReply_twin`), shape of the execute half (`reduce_shape`,
  `partial_shape`), the transaction unrolled (`reduce_tx_iff`, `partial_tx_iff`), the shared transfer tails
  (`cw_run_inv/ok`, `nat_run_inv/ok`, `agree_of`), the two directions (`reduce_A/B`, `partial_A/B`).
  `ReduceQ` / `PartialQ` are exactly the model's branch conditions (`reduceQ_iff_decrease`, `partialQ_iff_partial`).
  Non-vacuity and the witness F10d (the attached amount is not checked on the partial-close path): `Witness`.
-/
import Perp.Props.SatGOpenTx
import Perp.Props.SatGCloseTx
import Perp.Props.SatG

namespace Perp.Props.SatGReduce
open Perp Perp.World Perp.Engine Perp.Props.LiqTwin Perp.Props.SatGTwin
open Perp.Props.SatGRun Perp.Props.SatGLedger Perp.Props.SatGOpen Perp.Props.SatGClose Perp.Props.SatGOpenTx
open Perp.Props.SatGCloseTx (paidTo paidTo_append paidTo_optE closeTx)

/-! ### the decrease reply -/

theorem upr_dec (q : Q) (f : Nat → Except Err Nat) (e : E) (env : Env) (i o X : Nat) (swap : TmpSwap)
    (hsw : e.tmpSwap = some swap)
    (hmtv : swap.marginToVault = Integer.zero) (hfp : swap.feesPaid = false) :
    OkRel (IncP X e.cfg.insuranceFund e.cfg.feePool) (IncS swap.trader e.cfg.insuranceFund e.cfg.feePool) (IncQ X)
      (updatePositionReply (qb q f) (withSent (setNative e true) ⟨X, 0⟩) env i o REPLY_DECREASE)
      (updatePositionReply q (withSent (setNative e false) ⟨0, 0⟩) env i o REPLY_DECREASE) := by
  unfold updatePositionReply
  have hne : ¬ (REPLY_DECREASE = REPLY_INCREASE) := by decide
  simp only [ws_st, ws_cfg, ws_tmpSwap, ws_sentFunds, ws_getPosition, ws_calcRemainMargin, ws_updateOpenInterest,
    ws_checkHoldingCap, ws_storePosition, ws_queryMarginRatio, ws_withdraw, ws_transferFees,
    qb_updateOpenInterest, qb_checkHoldingCap, qb_queryMarginRatio, qb_transferFees,
    sn_st, sn_tmpSwap, sn_native, sn_mmr, sn_getPosition, sn_calcRemainMargin, sn_updateOpenInterest,
    sn_checkHoldingCap, sn_storePosition, sn_queryMarginRatio, hsw, hfp, hmtv, hne, ↓reduceIte, Bool.not_false,
    Bool.false_eq_true, pure_bind, List.nil_append]
  ok_walk
  · rename_i hlt
    exact absurd hlt (by decide)
  · rename_i hlt hgt
    exact absurd hgt (by decide)
  · with_reducible refine suffix_rel0 q _ X _ _ _ _ _ _ _ _ ?_ _ _ ?_ ?_
    · rfl
    · rfl
    · rfl


/-! ### the execute half of a reducing order -/

/-- the order takes the reducing path: the increase test of `open_position` fails (so: a stored position of
    non-zero size on the other side), and whenever the order's notional `m·l/D` and the position's spot notional
    can be computed, the latter exceeds the former — exactly the condition under which `openPosition` dispatches
    the `REPLY_DECREASE` swap -/
def ReduceQ (q : Q) (e : E) (env : Env) (s v : Nat) (side : Side) (m l : Nat) : Prop :=
  ¬ ((getPosition env e v s side).size.isZero = true
      ∨ ((getPosition env e v s side).direction = .addToAmm ∧ side = .buy)
      ∨ ((getPosition env e v s side).direction = .removeFromAmm ∧ side = .sell))
  ∧ ∀ ml N pn, cmul m l = .ok ml → cdiv ml e.cfg.decimals = .ok N →
      unwrap (positionNotionalPnl q e (getPosition env e v s side) .spot) = .ok pn → pn.1 > N

open Perp.Props.EngineGuards in
theorem reduce_shape (q : Q) (e : E) (env : Env) (s : Nat) (f : Funds) (v : Nat) (side : Side) (m l b : Nat)
    (hred : ReduceQ q e env s v side m l) :
    Post (fun r => ∃ tmp N,
        r.1 = { e with tmpSwap := some tmp, sentFunds := some ⟨sentAmt e.cfg.native f.amount, 0⟩ }
        ∧ tmp.marginToVault = Integer.zero ∧ tmp.feesPaid = false ∧ tmp.trader = s ∧ tmp.vamm = v
        ∧ r.2 = [swapInputMsg v side N b false REPLY_DECREASE])
      (openPosition q e env s f v side m l b) := by
  have hv : (getPosition env e v s side).vamm = v := (EngineMoney.getPosition_key env e v s side).1
  unfold openPosition sentAmt
  cases hn : e.cfg.native
  all_goals
    simp only [↓reduceIte, Bool.false_eq_true]
    post_walk [first
      | exact absurd ‹_ ∨ _ ∨ _› hred.1
      | (rw [hv]; exact ⟨_, _, rfl, rfl, rfl, rfl, rfl, rfl⟩)
      | exact False.elim ((‹¬ _ > _›) (hred.2 _ _ _ ‹cmul m l = _› ‹cdiv _ e.cfg.decimals = _› (by assumption)))]


open Perp.Props.EngineGuards in
/-- conversely: a successful `openPosition` that dispatches the `REPLY_DECREASE` swap satisfies `ReduceQ` — so
    `ReduceQ` is exactly the model's branch condition -/
theorem reduceQ_of_decrease (q : Q) (e : E) (env : Env) (s : Nat) (f : Funds) (v : Nat) (side : Side) (m l b : Nat) :
    Post (fun r => (∃ N, r.2 = [swapInputMsg v side N b false REPLY_DECREASE]) → ReduceQ q e env s v side m l)
      (openPosition q e env s f v side m l b) := by
  unfold openPosition
  post_walk [first
    | (rintro ⟨N, hN⟩
       have h1 := congrArg (fun l => l.map (·.id)) hN
       simp [swapInputMsg, swapOutputMsg, REPLY_INCREASE, REPLY_DECREASE, REPLY_REVERSE] at h1
       done)
    | (intro _
       rename_i c1 _ c2 _ hni _ nt pl c3 c4 _ _ _
       refine ⟨hni, fun ml' N' pn' e1 e2 e3 => ?_⟩
       rw [c1] at e1
       injection e1 with e1
       subst e1
       rw [c2] at e2
       injection e2 with e2
       subst e2
       rw [c3] at e3
       injection e3 with e3
       subst e3
       exact c4)]

/-- `ReduceQ` holds exactly when a successful `openPosition` takes the `REPLY_DECREASE` branch -/
theorem reduceQ_iff_decrease (q : Q) (e : E) (env : Env) (s : Nat) (f : Funds) (v : Nat) (side : Side) (m l b : Nat)
    (r : E × List SubMsg) (h : openPosition q e env s f v side m l b = .ok r) :
    ReduceQ q e env s v side m l ↔ ∃ N, r.2 = [swapInputMsg v side N b false REPLY_DECREASE] := by
  constructor
  · intro hred
    obtain ⟨_, N, _, _, _, _, _, hm⟩ := reduce_shape q e env s f v side m l b hred r h
    exact ⟨N, hm⟩
  · exact reduceQ_of_decrease q e env s f v side m l b r h

/-! ### the transfer tails: fees pulled from the caller (cw20) against fees sent out of the vault (native) -/

/-- what a successful cw20 run of (margin pull ++ fee pulls) says -/
theorem cw_run_inv (Wc wc' : World) (s sm sp tl : Nat) (s1 : s ≠ ENGINE) (s2 : s ≠ IFUND) (s3 : s ≠ FEEPOOL)
    (hrun : execSubs 39 Wc ENGINE (pullE s sm ++ feesC s IFUND FEEPOOL sp tl) = .ok wc') :
    Fr Wc wc' ∧ wc'.log = Wc.log ++ optE s ENGINE_ADDR sm ++ optE s IFUND sp ++ optE s FEEPOOL tl
    ∧ sm + sp + tl ≤ Wc.ledger.balance s ∧ sm + sp + tl ≤ Ledger.get Wc.ledger.allow s
    ∧ (Wc.ledger.balance IFUND + sp ≤ U128.MAX ∨ sp = 0) ∧ (Wc.ledger.balance FEEPOOL + tl ≤ U128.MAX ∨ tl = 0) := by
  have hrunX := (execSubs_xfers_iff _ 39 _ wc' (by have := len_pull_fees s IFUND FEEPOOL sm sp tl; omega)
    (xe_pull_fees _ _ _ _ _ _)).1 hrun
  obtain ⟨W1, W2, hp1, hp2, hp3⟩ := (cw_open_chain _ _ _ _ _ _ _ _).1 hrunX
  have P1 := optPull_pl _ _ _ _ _ s1 hp1
  have P2 := optPull_pl _ _ _ _ _ s2 hp2
  have P3 := optPull_pl _ _ _ _ _ s3 hp3
  refine ⟨Fr.trans (Fr.trans P1.fr P2.fr) P3.fr, by rw [P3.log, P2.log, P1.log]; rfl, ?_, ?_, ?_, ?_⟩
  · have h1 := P1.has; have h2 := P2.has; have h3 := P3.has
    have e1 := P1.bsrc; have e2 := P2.bsrc
    omega
  · have a1 := P1.allowed; have a1' := P1.allowAfter
    have a2 := P2.allowed; have a2' := P2.allowAfter; have a3 := P3.allowed
    omega
  · have h1 : W1.ledger.balance IFUND = Wc.ledger.balance IFUND := P1.bother IFUND (Ne.symm s2) (by decide)
    have := P2.room
    rw [h1] at this
    exact this
  · have h1 : W1.ledger.balance FEEPOOL = Wc.ledger.balance FEEPOOL := P1.bother FEEPOOL (Ne.symm s3) (by decide)
    have h2 : W2.ledger.balance FEEPOOL = W1.ledger.balance FEEPOOL := P2.bother FEEPOOL (Ne.symm s3) (by decide)
    have := P3.room
    rw [h2, h1] at this
    exact this

/-- the cw20 pulls go through when allowance, balance and room suffice -/
theorem cw_run_ok (Wc : World) (s sm sp tl : Nat) (s1 : s ≠ ENGINE) (s2 : s ≠ IFUND) (s3 : s ≠ FEEPOOL)
    (hal : sm + sp + tl ≤ Ledger.get Wc.ledger.allow s) (hb : sm + sp + tl ≤ Wc.ledger.balance s)
    (hE : Wc.ledger.balance ENGINE + sm ≤ U128.MAX ∨ sm = 0)
    (hI : Wc.ledger.balance IFUND + sp ≤ U128.MAX ∨ sp = 0)
    (hF : Wc.ledger.balance FEEPOOL + tl ≤ U128.MAX ∨ tl = 0) :
    ∃ wc', execSubs 39 Wc ENGINE (pullE s sm ++ feesC s IFUND FEEPOOL sp tl) = .ok wc' ∧ Fr Wc wc'
      ∧ wc'.log = Wc.log ++ optE s ENGINE_ADDR sm ++ optE s IFUND sp ++ optE s FEEPOOL tl := by
  obtain ⟨W1, hp1⟩ := optPull_ok Wc s ENGINE_ADDR sm s1 (by omega) (by omega) hE
  have P1 := optPull_pl _ _ _ _ _ s1 hp1
  have a1 := P1.allowAfter
  have b1 := P1.bsrc
  have i1 : W1.ledger.balance IFUND = Wc.ledger.balance IFUND := P1.bother IFUND (Ne.symm s2) (by decide)
  have f1 : W1.ledger.balance FEEPOOL = Wc.ledger.balance FEEPOOL := P1.bother FEEPOOL (Ne.symm s3) (by decide)
  obtain ⟨W2, hp2⟩ := optPull_ok W1 s IFUND sp s2 (by omega) (by omega) (by rw [i1]; exact hI)
  have P2 := optPull_pl _ _ _ _ _ s2 hp2
  have a2 := P2.allowAfter
  have b2 := P2.bsrc
  have f2 : W2.ledger.balance FEEPOOL = W1.ledger.balance FEEPOOL := P2.bother FEEPOOL (Ne.symm s3) (by decide)
  obtain ⟨wc', hp3⟩ := optPull_ok W2 s FEEPOOL tl s3 (by omega) (by omega) (by rw [f2, f1]; exact hF)
  have P3 := optPull_pl _ _ _ _ _ s3 hp3
  have hrunC := (cw_open_chain _ _ _ _ _ _ _ _).2 ⟨W1, W2, hp1, hp2, hp3⟩
  have hexecC := (execSubs_xfers_iff _ 39 _ wc' (by have := len_pull_fees s IFUND FEEPOOL sm sp tl; omega)
    (xe_pull_fees _ _ _ _ _ _)).2 hrunC
  exact ⟨wc', hexecC, Fr.trans (Fr.trans P1.fr P2.fr) P3.fr, by rw [P3.log, P2.log, P1.log]; rfl⟩

/-- what a successful native run of the fee sends says -/
theorem nat_run_inv (Wn wn' : World) (sp tl : Nat)
    (hrun : execSubs 39 Wn ENGINE (feesN IFUND FEEPOOL sp tl) = .ok wn') :
    Fr Wn wn' ∧ wn'.log = Wn.log ++ optE ENGINE IFUND sp ++ optE ENGINE FEEPOOL tl
    ∧ (Wn.ledger.balance IFUND + sp ≤ U128.MAX ∨ sp = 0) ∧ (Wn.ledger.balance FEEPOOL + tl ≤ U128.MAX ∨ tl = 0) := by
  have hrunX := (execSubs_xfers_iff _ 39 _ wn' (by have := len_feesN IFUND FEEPOOL sp tl; omega)
    (xe_feesN _ _ _ _)).1 hrun
  obtain ⟨Wn1, hn1, hn2⟩ := (nat_fees_chain _ _ _ _ _ _).1 hrunX
  have M1 := optSend_mv _ _ _ _ (by decide) hn1
  have M2 := optSend_mv _ _ _ _ (by decide) hn2
  refine ⟨Fr.trans M1.fr M2.fr, by rw [M2.log, M1.log], M1.room, ?_⟩
  have h1 : Wn1.ledger.balance FEEPOOL = Wn.ledger.balance FEEPOOL := M1.bother FEEPOOL (by decide) (by decide)
  have := M2.room
  rw [h1] at this
  exact this

/-- the native fee sends go through when the vault holds the fees and the pools have room -/
theorem nat_run_ok (Wn : World) (sp tl : Nat) (hE : sp + tl ≤ Wn.ledger.balance ENGINE)
    (hI : Wn.ledger.balance IFUND + sp ≤ U128.MAX ∨ sp = 0)
    (hF : Wn.ledger.balance FEEPOOL + tl ≤ U128.MAX ∨ tl = 0) :
    ∃ wn', execSubs 39 Wn ENGINE (feesN IFUND FEEPOOL sp tl) = .ok wn' ∧ Fr Wn wn'
      ∧ wn'.log = Wn.log ++ optE ENGINE IFUND sp ++ optE ENGINE FEEPOOL tl := by
  obtain ⟨Wn1, hn1⟩ := optSend_ok Wn IFUND sp (by decide) (by omega) hI
  have M1 := optSend_mv _ _ _ _ (by decide) hn1
  have hM1E : Wn1.ledger.balance ENGINE = Wn.ledger.balance ENGINE - sp := M1.bsrc
  have hM1F : Wn1.ledger.balance FEEPOOL = Wn.ledger.balance FEEPOOL := M1.bother FEEPOOL (by decide) (by decide)
  obtain ⟨wn', hn2⟩ := optSend_ok Wn1 FEEPOOL tl (by decide) (by omega) (by rw [hM1F]; exact hF)
  have M2 := optSend_mv _ _ _ _ (by decide) hn2
  have hrunN := (nat_fees_chain _ _ _ _ _ _).2 ⟨Wn1, hn1, hn2⟩
  have hexecN := (execSubs_xfers_iff _ 39 _ wn' (by have := len_feesN IFUND FEEPOOL sp tl; omega)
    (xe_feesN _ _ _ _)).2 hrunN
  exact ⟨wn', hexecN, Fr.trans M1.fr M2.fr, by rw [M2.log, M1.log]⟩

/-- the two final worlds agree, given frames back to worlds that agree and the two logs -/
theorem agree_of (w : World) (env : Env) (s : Nat) (X : Nat) (em : ExecMsg) (Wn Wc wn' wc' : World) (sm sp tl : Nat)
    (htxN : applyTx (natW w) env s ⟨X, false⟩ (.engine em) = .ok wn')
    (htxC : applyTx (cwW w) env s ⟨0, false⟩ (.engine em) = .ok wc')
    (hFn : Fr Wn wn') (hFc : Fr Wc wc')
    (h1 : Wn.engine = setNative Wc.engine true) (h2 : Wn.vamms = Wc.vamms) (h3 : Wn.ifund = Wc.ifund)
    (h4 : Wn.feePool = Wc.feePool) (h5 : Wn.feed = Wc.feed) (h6 : Wn.env = Wc.env)
    (hlogN : wn'.log = optE s ENGINE (sm + sp + tl) ++ optE ENGINE IFUND sp ++ optE ENGINE FEEPOOL tl)
    (hlogC : wc'.log = optE s ENGINE_ADDR sm ++ optE s IFUND sp ++ optE s FEEPOOL tl) :
    Agree wn' wc' := by
  refine ⟨?_, ?_, ?_, ?_, ?_, ?_, ?_⟩
  · rw [hFn.1, hFc.1]; exact h1
  · rw [hFn.2.1, hFc.2.1]; exact h2
  · rw [hFn.2.2.1, hFc.2.2.1]; exact h3
  · rw [hFn.2.2.2.1, hFc.2.2.2.1]; exact h4
  · rw [hFn.2.2.2.2.1, hFc.2.2.2.2.1]; exact h5
  · rw [hFn.2.2.2.2.2, hFc.2.2.2.2.2]; exact h6
  · refine bal_agree (natW w) (cwW w) wn' wc' env s _ _ _ htxN htxC (fun _ => rfl) (fun a => ?_)
    rw [hlogN, hlogC]
    exact open_flows s sm sp tl a


/-! ### the reducing order at transaction level -/

theorem replyOk_decrease (q : Q) (e : E) (env : Env) (o : Vamm.SwapOut) :
    replyOk q e env REPLY_DECREASE (.swap o) = updatePositionReply q e env (swIn o) (swOut o) REPLY_DECREASE := rfl

theorem attach_form {w : World} {env : Env} {s : Nat} {f : Funds} {Wa : World} (ha : Attach w env s f Wa) :
    ∃ g lg, Wa = { w with env := env, ledger := g, log := lg } := by
  by_cases hc : w.engine.cfg.native = true ∧ f.amount ≠ 0
  · obtain ⟨g, _, rfl⟩ := ha.1 hc; exact ⟨g, _, rfl⟩
  · obtain rfl := ha.2 hc; exact ⟨_, _, rfl⟩

/-- an `OpenPosition` on the reducing path, step by step -/
theorem reduce_tx_iff (w : World) (env : Env) (s : Nat) (f : Funds) (v : Nat) (side : Side) (m l b : Nat) (w' : World)
    (hred : ReduceQ ({ w with env := env, log := [] } : World).q w.engine env s v side m l) :
    applyTx w env s f (.engine (.openPosition v side m l b)) = .ok w' ↔
      ∃ Wa e1 N x x' o e2 subs2, Attach w env s f Wa
        ∧ openPosition Wa.q Wa.engine env s f v side m l b = .ok (e1, [swapInputMsg v side N b false REPLY_DECREASE])
        ∧ Wa.vammE v = .ok x ∧ Vamm.swapInput x env ENGINE (sideToDirection side) N b false = .ok (x', o)
        ∧ updatePositionReply (({ Wa with engine := e1 } : World).setVamm v x').q e1 env (swIn o) (swOut o)
            REPLY_DECREASE = .ok (e2, subs2)
        ∧ execSubs 39 { ({ Wa with engine := e1 } : World).setVamm v x' with engine := e2 } ENGINE subs2 = .ok w' := by
  rw [applyTx_engine_iff]
  constructor
  · rintro ⟨Wa, e1, subs, ha, hex, hrun⟩
    obtain ⟨henv, heng, _⟩ := Attach.env ha
    have hex' : openPosition Wa.q Wa.engine env s f v side m l b = .ok (e1, subs) := hex
    have hred' : ReduceQ Wa.q Wa.engine env s v side m l := by
      obtain ⟨g, lg, rfl⟩ := attach_form ha
      exact hred
    obtain ⟨tmp, N, _, _, _, _, _, hsubs⟩ := reduce_shape _ _ _ _ _ _ _ _ _ _ hred' _ hex'
    dsimp only at hsubs
    subst hsubs
    rw [show FUEL = 38 + 2 from rfl] at hrun
    obtain ⟨w1, ev, e2, subs2, hx, hr, hs⟩ := (single_always_iff 38 _ _ _ _).1 hrun
    obtain ⟨x, x', o, hvx, hsw, rfl, rfl⟩ := (swapIn_iff 38 _ _ _ _ _ _ _ _).1 hx
    rw [replyOk_decrease] at hr
    refine ⟨Wa, e1, N, x, x', o, e2, subs2, ha, hex', hvx, ?_, ?_, hs⟩
    · rw [← henv]; exact hsw
    · rw [← henv]; exact hr
  · rintro ⟨Wa, e1, N, x, x', o, e2, subs2, ha, hex, hvx, hsw, hr, hs⟩
    obtain ⟨henv, _⟩ := Attach.env ha
    refine ⟨Wa, e1, _, ha, hex, ?_⟩
    rw [show FUEL = 38 + 2 from rfl]
    refine (single_always_iff 38 _ _ _ _).2 ⟨_, _, e2, subs2, (swapIn_iff 38 _ _ _ _ _ _ _ _).2
      ⟨x, x', o, hvx, by rw [← henv] at hsw; exact hsw, rfl, rfl⟩, ?_, hs⟩
    rw [replyOk_decrease]
    rw [← henv] at hr
    exact hr

theorem reduce_A (w : World) (env : Env) (s v : Nat) (side : Side) (m l b : Nat)
    (hred : ReduceQ ({ w with env := env, log := [] } : World).q w.engine env s v side m l)
    (hS : Setup w s) (hroom : w.ledger.balance ENGINE + w.ledger.balance s ≤ U128.MAX)
    (wc' : World) (h : applyTx (cwW w) env s ⟨0, false⟩ (openTx v side m l b) = .ok wc') :
    ∃ wn', applyTx (natW w) env s ⟨pulledBy wc'.log s, false⟩ (openTx v side m l b) = .ok wn' ∧ Agree wn' wc'
      ∧ pulledBy wc'.log s ≤ Ledger.get w.ledger.allow s := by
  obtain ⟨Wa, e1, N, x, x', o, e2, subs2, ha, hex, hvx, hsw, hr, hrun⟩ :=
    (reduce_tx_iff (cwW w) env s ⟨0, false⟩ v side m l b wc' hred).1 h
  have hWa := ha.2 (fun hc => absurd hc.1 (by simp [cwW]))
  subst hWa
  -- the in-flight record
  obtain ⟨tmp, N', he1, hmtv, hfeesp, htr, hvm, hmsg⟩ :=
    reduce_shape _ (setNative w.engine false) env s ⟨0, false⟩ v side m l b hred _ hex
  dsimp only at he1
  have he1' : e1 = withSent (setNative { w.engine with tmpSwap := some tmp } false) ⟨0, 0⟩ := he1
  subst he1'
  -- the reply
  have hrel := fun X f => upr_dec ((({ cwW w with env := env, log := [] } : World).setVamm v x').q) f
    { w.engine with tmpSwap := some tmp } env (swIn o) (swOut o) X tmp rfl hmtv hfeesp
  obtain ⟨⟨sm, sp, tl⟩, hshape, _⟩ := (hrel 0 (fun _ => .ok 0)).bwd (e2, subs2) hr
  dsimp only [IncS] at hshape
  rw [htr, hS.hif, hS.hfp] at hshape
  subst hshape
  -- the cw20 transfers
  obtain ⟨hFc, hlog0, hbs, hal, hI, hF⟩ := cw_run_inv _ _ _ _ _ _ hS.s1 hS.s2 hS.s3 hrun
  have hlog : wc'.log = optE s ENGINE_ADDR sm ++ optE s IFUND sp ++ optE s FEEPOOL tl := hlog0
  have hbs' : sm + sp + tl ≤ w.ledger.balance s := hbs
  have hal' : sm + sp + tl ≤ Ledger.get w.ledger.allow s := hal
  have hI' : w.ledger.balance IFUND + sp ≤ U128.MAX ∨ sp = 0 := hI
  have hF' : w.ledger.balance FEEPOOL + tl ≤ U128.MAX ∨ tl = 0 := hF
  have hX : pulledBy wc'.log s = sm + sp + tl := by
    rw [hlog, pulledBy_append, pulledBy_append, pulledBy_optE, pulledBy_optE, pulledBy_optE]
    simp
  rw [hX]
  -- the native run: attach
  have hbE : w.ledger.balance ENGINE + (sm + sp + tl) ≤ U128.MAX := by omega
  obtain ⟨Wan, han⟩ := attach_ok (natW w) env s (sm + sp + tl) hS.s1 hbs' hbE
  obtain ⟨⟨g, lg, hform⟩, hmv⟩ := attach_mv (natW w) env s (sm + sp + tl) hS.s1 rfl Wan han
  subst hform
  -- the native reply
  obtain ⟨⟨sm', sp', tl'⟩, hshape', hnat⟩ := (hrel (sm + sp + tl) (fun a => .ok (g.balance a))).bwd _ hr
  dsimp only [IncS] at hshape'
  rw [htr, hS.hif, hS.hfp] at hshape'
  obtain ⟨rfl, rfl, rfl⟩ := shape_inj s IFUND FEEPOOL _ _ _ _ _ _ (by decide) (by decide) (by decide) hshape'
  obtain ⟨⟨en, mn⟩, hrn, hPe, hPm, _⟩ := hnat ⟨rfl, by omega⟩
  dsimp only at hPe hPm
  rw [hS.hif, hS.hfp] at hPm
  subst hPe hPm
  -- the native fee transfers
  have hgE : g.balance ENGINE = w.ledger.balance ENGINE + (sm + sp + tl) := hmv.bdst
  have hgI : g.balance IFUND = w.ledger.balance IFUND := hmv.bother IFUND (Ne.symm hS.s2) (by decide)
  have hgF : g.balance FEEPOOL = w.ledger.balance FEEPOOL := hmv.bother FEEPOOL (Ne.symm hS.s3) (by decide)
  obtain ⟨wn', hexecN, hFn, hlogN0⟩ := nat_run_ok
    ({ (({ ({ natW w with env := env, ledger := g, log := lg } : World) with
            engine := withSent (setNative { w.engine with tmpSwap := some tmp } true) ⟨sm + sp + tl, 0⟩ } : World).setVamm v x')
        with engine := setNative e2 true } : World)
    sp tl (show sp + tl ≤ g.balance ENGINE by omega)
    (show g.balance IFUND + sp ≤ U128.MAX ∨ sp = 0 by rw [hgI]; exact hI')
    (show g.balance FEEPOOL + tl ≤ U128.MAX ∨ tl = 0 by rw [hgF]; exact hF')
  have hexN := open_twin ({ cwW w with env := env, log := [] } : World).q (fun a => .ok (g.balance a)) w.engine env s
    (sm + sp + tl) v side m l b
  have hex' : openPosition ({ cwW w with env := env, log := [] } : World).q (setNative w.engine false) env s
      ⟨0, false⟩ v side m l b = .ok (withSent (setNative { w.engine with tmpSwap := some tmp } false) ⟨0, 0⟩,
        [swapInputMsg v side N b false REPLY_DECREASE]) := hex
  rw [hex'] at hexN
  have htxN : applyTx (natW w) env s ⟨sm + sp + tl, false⟩ (openTx v side m l b) = .ok wn' :=
    (reduce_tx_iff (natW w) env s ⟨sm + sp + tl, false⟩ v side m l b wn' hred).2
      ⟨_, _, N, x, x', o, _, _, han, hexN, hvx, hsw, hrn, hexecN⟩
  refine ⟨wn', htxN, ?_, hal'⟩
  have hlogN : wn'.log = optE s ENGINE (sm + sp + tl) ++ optE ENGINE IFUND sp ++ optE ENGINE FEEPOOL tl := by
    rw [hlogN0]
    have : lg = optE s ENGINE (sm + sp + tl) := hmv.log
    rw [← this]
    rfl
  exact agree_of w env s _ _ _ _ wn' wc' sm sp tl htxN h hFn hFc rfl rfl rfl rfl rfl rfl hlogN hlog


theorem reduce_B (w : World) (env : Env) (s v : Nat) (side : Side) (m l b : Nat)
    (hred : ReduceQ ({ w with env := env, log := [] } : World).q w.engine env s v side m l)
    (hS : Setup w s) (X : Nat) (hallow : X ≤ Ledger.get w.ledger.allow s)
    (wn' : World) (h : applyTx (natW w) env s ⟨X, false⟩ (openTx v side m l b) = .ok wn') :
    ∃ wc', applyTx (cwW w) env s ⟨0, false⟩ (openTx v side m l b) = .ok wc' ∧ pulledBy wc'.log s = X
      ∧ Agree wn' wc' := by
  obtain ⟨Wa, e1n, N, x, x', o, e2n, subs2n, han, hexn, hvx, hsw, hrn, hrunn⟩ :=
    (reduce_tx_iff (natW w) env s ⟨X, false⟩ v side m l b wn' hred).1 h
  obtain ⟨⟨g, lg, hform⟩, hmv⟩ := attach_mv (natW w) env s X hS.s1 rfl Wa han
  subst hform
  -- the execute half on cw20
  have hexN := open_twin ({ cwW w with env := env, log := [] } : World).q (fun a => .ok (g.balance a)) w.engine env s
    X v side m l b
  have hexn' : openPosition (qb ({ cwW w with env := env, log := [] } : World).q (fun a => .ok (g.balance a)))
      (setNative w.engine true) env s ⟨X, false⟩ v side m l b
        = .ok (e1n, [swapInputMsg v side N b false REPLY_DECREASE]) := hexn
  rw [hexn'] at hexN
  cases hexc : openPosition ({ cwW w with env := env, log := [] } : World).q (setNative w.engine false) env s
      ⟨0, false⟩ v side m l b with
  | error err => rw [hexc] at hexN; cases hexN
  | ok rc =>
    obtain ⟨e1c, msgs⟩ := rc
    rw [hexc] at hexN
    injection hexN with hexN
    injection hexN with he1n hmsgs
    dsimp only at he1n hmsgs
    subst hmsgs
    obtain ⟨tmp, N', he1, hmtv, hfeesp, htr, hvm, _⟩ :=
      reduce_shape _ (setNative w.engine false) env s ⟨0, false⟩ v side m l b hred _ hexc
    dsimp only at he1
    have he1' : e1c = withSent (setNative { w.engine with tmpSwap := some tmp } false) ⟨0, 0⟩ := he1
    subst he1'
    have he1n' : e1n = withSent (setNative { w.engine with tmpSwap := some tmp } true) ⟨X, 0⟩ := he1n
    subst he1n'
    -- the reply
    have hrel := upr_dec ((({ cwW w with env := env, log := [] } : World).setVamm v x').q) (fun a => .ok (g.balance a))
      { w.engine with tmpSwap := some tmp } env (swIn o) (swOut o) X tmp rfl hmtv hfeesp
    obtain ⟨⟨e2c, mc⟩, ⟨sm, sp, tl⟩, hrc, hshape, hPe, hPm, hXeq⟩ := hrel.fwd (e2n, subs2n) hrn
    dsimp only [IncS] at hshape hPe hPm hXeq
    rw [htr, hS.hif, hS.hfp] at hshape
    rw [hS.hif, hS.hfp] at hPm
    subst hshape hPe hPm hXeq
    -- the native fee transfers
    obtain ⟨hFn, hlogN0, hIn, hFnr⟩ := nat_run_inv _ _ _ _ hrunn
    -- balances seen by the cw20 pulls
    have hXs : sm + sp + tl ≤ w.ledger.balance s := hmv.has
    have hXE : w.ledger.balance ENGINE + (sm + sp + tl) ≤ U128.MAX ∨ sm + sp + tl = 0 := hmv.room
    have hgI : g.balance IFUND = w.ledger.balance IFUND := hmv.bother IFUND (Ne.symm hS.s2) (by decide)
    have hgF : g.balance FEEPOOL = w.ledger.balance FEEPOOL := hmv.bother FEEPOOL (Ne.symm hS.s3) (by decide)
    have hI : w.ledger.balance IFUND + sp ≤ U128.MAX ∨ sp = 0 := by
      have : g.balance IFUND + sp ≤ U128.MAX ∨ sp = 0 := hIn
      rw [hgI] at this; exact this
    have hF : w.ledger.balance FEEPOOL + tl ≤ U128.MAX ∨ tl = 0 := by
      have : g.balance FEEPOOL + tl ≤ U128.MAX ∨ tl = 0 := hFnr
      rw [hgF] at this; exact this
    -- the cw20 pulls go through
    obtain ⟨wc', hexecC, hFc, hlogC0⟩ := cw_run_ok
      ({ (({ ({ cwW w with env := env, log := [] } : World) with
              engine := withSent (setNative { w.engine with tmpSwap := some tmp } false) ⟨0, 0⟩ } : World).setVamm v x')
          with engine := e2c } : World)
      s sm sp tl hS.s1 hS.s2 hS.s3 (show sm + sp + tl ≤ Ledger.get w.ledger.allow s from hallow)
      (show sm + sp + tl ≤ w.ledger.balance s from hXs)
      (show w.ledger.balance ENGINE + sm ≤ U128.MAX ∨ sm = 0 by omega)
      (show w.ledger.balance IFUND + sp ≤ U128.MAX ∨ sp = 0 from hI)
      (show w.ledger.balance FEEPOOL + tl ≤ U128.MAX ∨ tl = 0 from hF)
    have htxC : applyTx (cwW w) env s ⟨0, false⟩ (openTx v side m l b) = .ok wc' :=
      (reduce_tx_iff (cwW w) env s ⟨0, false⟩ v side m l b wc' hred).2
        ⟨_, _, N, x, x', o, _, _, ⟨fun hc => (by cases hc.1), fun _ => rfl⟩, hexc, hvx, hsw, hrc, hexecC⟩
    have hlog : wc'.log = optE s ENGINE_ADDR sm ++ optE s IFUND sp ++ optE s FEEPOOL tl := hlogC0
    have hX : pulledBy wc'.log s = sm + sp + tl := by
      rw [hlog, pulledBy_append, pulledBy_append, pulledBy_optE, pulledBy_optE, pulledBy_optE]
      simp
    refine ⟨wc', htxC, hX, ?_⟩
    have hlogN : wn'.log = optE s ENGINE (sm + sp + tl) ++ optE ENGINE IFUND sp ++ optE ENGINE FEEPOOL tl := by
      rw [hlogN0]
      have : lg = optE s ENGINE (sm + sp + tl) := hmv.log
      rw [← this]
      rfl
    exact agree_of w env s _ _ _ _ wn' wc' sm sp tl h htxC hFn hFc rfl rfl rfl rfl rfl rfl hlogN hlog


/-! ### the partial close -/

/-- the engine falls back to a partial close: the vAMM answers that closing the whole position would leave the
    fluctuation band, and the partial-liquidation ratio is a proper fraction — the negation of the inner
    condition of `SatGClose.WholeQ` -/
def PartialQ (q : Q) (e : E) (s v : Nat) : Prop :=
  q.isOverFluct v (if Integer.gt (readPosition e v s).size Integer.zero then .addToAmm else .removeFromAmm)
      (readPosition e v s).size.value = .ok true
  ∧ e.cfg.plr < e.cfg.decimals

theorem partialQ_not_whole (q : Q) (e : E) (s v : Nat) (h : PartialQ q e s v) : ¬ WholeQ q e s v :=
  fun hw => hw true h.1 ⟨rfl, h.2⟩

open Perp.Props.EngineGuards in
theorem partial_shape (q : Q) (e : E) (env : Env) (s v l : Nat) (hp : PartialQ q e s v) :
    Post (fun r => ∃ tmp sd N, r.1 = { e with tmpSwap := some tmp } ∧ tmp.trader = s
        ∧ r.2 = [swapInputMsg v sd N 0 true REPLY_PARTIAL_CLOSE])
      (closePosition q e env s v l) := by
  unfold closePosition internalClosePosition
  post_walk [first
    | (have hv : (readPosition e v s).vamm = v := by
         rcases EngineMoney.readPosition_key e v s with hk | hk
         · exact hk.1
         · exact absurd (by rw [hk]; rfl) ‹¬ (readPosition e v s).size.value = 0›
       rw [hv]
       exact ⟨_, _, _, rfl, WorldInv.readPosition_trader _ _ _ ‹_›, rfl⟩)
    | skip]
  all_goals
    exfalso
    have h1 := ‹q.isOverFluct _ _ _ = _›
    rw [hp.1] at h1
    injection h1 with h1
    exact ‹¬ (_ ∧ _)› ⟨h1.symm, hp.2⟩

open Perp.Props.EngineGuards in
theorem partialQ_of_partial (q : Q) (e : E) (env : Env) (s v l : Nat) :
    Post (fun r => (∃ sd N, r.2 = [swapInputMsg v sd N 0 true REPLY_PARTIAL_CLOSE]) → PartialQ q e s v)
      (closePosition q e env s v l) := by
  unfold closePosition internalClosePosition
  post_walk [first
    | (rintro ⟨sd, N, hN⟩
       have h1 := congrArg (fun l => l.map (·.id)) hN
       simp [swapInputMsg, swapOutputMsg, REPLY_CLOSE, REPLY_PARTIAL_CLOSE] at h1
       done)
    | (intro _
       have hc := ‹_ = true ∧ _ < _›
       have hq := ‹q.isOverFluct _ _ _ = _›
       rw [hc.1] at hq
       exact ⟨hq, hc.2⟩)]

/-- `PartialQ` holds exactly when a successful `closePosition` falls back to the partial close -/
theorem partialQ_iff_partial (q : Q) (e : E) (env : Env) (s v l : Nat) (r : E × List SubMsg)
    (h : closePosition q e env s v l = .ok r) :
    PartialQ q e s v ↔ ∃ sd N, r.2 = [swapInputMsg v sd N 0 true REPLY_PARTIAL_CLOSE] := by
  constructor
  · intro hp
    obtain ⟨_, sd, N, _, _, hm⟩ := partial_shape q e env s v l hp r h
    exact ⟨sd, N, hm⟩
  · exact partialQ_of_partial q e env s v l r h

/-- a partial `ClosePosition`, step by step -/
theorem partial_tx_iff (w : World) (env : Env) (s : Nat) (f : Funds) (v lim : Nat) (w' : World)
    (hp : PartialQ ({ w with env := env, log := [] } : World).q w.engine s v) :
    applyTx w env s f (closeTx v lim) = .ok w' ↔
      ∃ Wa e1 sd N x x' o e2 subs2, Attach w env s f Wa
        ∧ closePosition Wa.q Wa.engine env s v lim = .ok (e1, [swapInputMsg v sd N 0 true REPLY_PARTIAL_CLOSE])
        ∧ Wa.vammE v = .ok x ∧ Vamm.swapInput x env ENGINE (sideToDirection sd) N 0 true = .ok (x', o)
        ∧ partialClosePositionReply (({ Wa with engine := e1 } : World).setVamm v x').q e1 env (swIn o) (swOut o)
            = .ok (e2, subs2)
        ∧ execSubs 39 { ({ Wa with engine := e1 } : World).setVamm v x' with engine := e2 } ENGINE subs2 = .ok w' := by
  unfold closeTx
  rw [applyTx_engine_iff]
  constructor
  · rintro ⟨Wa, e1, subs, ha, hex, hrun⟩
    obtain ⟨henv, heng, _⟩ := Attach.env ha
    have hex' : closePosition Wa.q Wa.engine env s v lim = .ok (e1, subs) := hex
    have hp' : PartialQ Wa.q Wa.engine s v := by
      obtain ⟨g, lg, rfl⟩ := attach_form ha
      exact hp
    obtain ⟨tmp, sd, N, _, _, hsubs⟩ := partial_shape _ _ _ _ _ _ hp' _ hex'
    dsimp only at hsubs
    subst hsubs
    rw [show FUEL = 38 + 2 from rfl] at hrun
    obtain ⟨w1, ev, e2, subs2, hx, hr, hs⟩ := (single_always_iff 38 _ _ _ _).1 hrun
    obtain ⟨x, x', o, hvx, hsw, rfl, rfl⟩ := (swapIn_iff 38 _ _ _ _ _ _ _ _).1 hx
    rw [replyOk_partialClose] at hr
    refine ⟨Wa, e1, sd, N, x, x', o, e2, subs2, ha, hex', hvx, ?_, ?_, hs⟩
    · rw [← henv]; exact hsw
    · rw [← henv]; exact hr
  · rintro ⟨Wa, e1, sd, N, x, x', o, e2, subs2, ha, hex, hvx, hsw, hr, hs⟩
    obtain ⟨henv, _⟩ := Attach.env ha
    refine ⟨Wa, e1, _, ha, hex, ?_⟩
    rw [show FUEL = 38 + 2 from rfl]
    refine (single_always_iff 38 _ _ _ _).2 ⟨_, _, e2, subs2, (swapIn_iff 38 _ _ _ _ _ _ _ _).2
      ⟨x, x', o, hvx, by rw [← henv] at hsw; exact hsw, rfl, rfl⟩, ?_, hs⟩
    rw [replyOk_partialClose]
    rw [← henv] at hr
    exact hr

/-- the messages of the partial-close reply on cw20 collateral: the two fee pulls -/
theorem pcr_shape_cw (q : Q) (e e2 : E) (env : Env) (i o : Nat) (msgs : List SubMsg) (swap : TmpSwap)
    (hsw : e.tmpSwap = some swap)
    (h : partialClosePositionReply q (setNative e false) env i o = .ok (e2, msgs)) :
    ∃ sp tl, msgs = feesC swap.trader e.cfg.insuranceFund e.cfg.feePool sp tl := by
  have : EngineGuards.Post (fun r => ∃ sp tl, r.2 = feesC swap.trader e.cfg.insuranceFund e.cfg.feePool sp tl)
      (partialClosePositionReply q (setNative e false) env i o) := by
    unfold partialClosePositionReply
    simp only [sn_tmpSwap, hsw]
    open Perp.Props.EngineGuards in
    post_walk [(
      have hx := (EngineMoney.unwrap_ok _ _).1 ‹unwrap (transferFees _ _ _ _ _) = Except.ok _›
      exact ⟨_, _, (EngineGuards.transferFees_spec _ _ _ _ _ _ _ _ hx).2⟩)]
  exact this _ h


/-- the partial-close reply asks nothing about balances -/
theorem pcr_qb (q : Q) (f : Nat → Except Err Nat) (e : E) (env : Env) (i o : Nat) :
    partialClosePositionReply (qb q f) e env i o = partialClosePositionReply q e env i o := rfl

theorem fees_as_open (s sp tl : Nat) : feesC s IFUND FEEPOOL sp tl = pullE s 0 ++ feesC s IFUND FEEPOOL sp tl := rfl

theorem partial_A (w : World) (env : Env) (s v lim : Nat)
    (hp : PartialQ ({ w with env := env, log := [] } : World).q w.engine s v)
    (hS : Setup w s) (hroom : w.ledger.balance ENGINE + w.ledger.balance s ≤ U128.MAX)
    (wc' : World) (h : applyTx (cwW w) env s ⟨0, false⟩ (closeTx v lim) = .ok wc') :
    ∃ wn', applyTx (natW w) env s ⟨pulledBy wc'.log s, false⟩ (closeTx v lim) = .ok wn' ∧ Agree wn' wc'
      ∧ pulledBy wc'.log s ≤ Ledger.get w.ledger.allow s := by
  obtain ⟨Wa, e1, sd, N, x, x', o, e2, subs2, ha, hex, hvx, hsw, hr, hrun⟩ :=
    (partial_tx_iff (cwW w) env s ⟨0, false⟩ v lim wc' hp).1 h
  have hWa := ha.2 (fun hc => absurd hc.1 (by simp [cwW]))
  subst hWa
  obtain ⟨tmp, sd', N', he1, htr, _⟩ := partial_shape _ (setNative w.engine false) env s v lim hp _ hex
  dsimp only at he1
  have he1' : e1 = setNative { w.engine with tmpSwap := some tmp } false := he1
  subst he1'
  -- shape of the reply's messages
  obtain ⟨sp, tl, hsh⟩ := pcr_shape_cw _ { w.engine with tmpSwap := some tmp } e2 env _ _ subs2 tmp rfl hr
  rw [htr] at hsh
  have hsh' : subs2 = pullE s 0 ++ feesC s IFUND FEEPOOL sp tl := by
    rw [hsh]
    show feesC s w.engine.cfg.insuranceFund w.engine.cfg.feePool sp tl = _
    rw [hS.hif, hS.hfp]
    rfl
  subst hsh'
  -- the cw20 transfers
  obtain ⟨hFc, hlog0, hbs, hal, hI, hF⟩ := cw_run_inv _ _ _ _ _ _ hS.s1 hS.s2 hS.s3 hrun
  have hlog : wc'.log = optE s ENGINE_ADDR 0 ++ optE s IFUND sp ++ optE s FEEPOOL tl := hlog0
  have hbs' : 0 + sp + tl ≤ w.ledger.balance s := hbs
  have hal' : 0 + sp + tl ≤ Ledger.get w.ledger.allow s := hal
  have hI' : w.ledger.balance IFUND + sp ≤ U128.MAX ∨ sp = 0 := hI
  have hF' : w.ledger.balance FEEPOOL + tl ≤ U128.MAX ∨ tl = 0 := hF
  have hX : pulledBy wc'.log s = 0 + sp + tl := by
    rw [hlog, pulledBy_append, pulledBy_append, pulledBy_optE, pulledBy_optE, pulledBy_optE]
    simp
  rw [hX]
  -- the native run: attach
  have hbE : w.ledger.balance ENGINE + (0 + sp + tl) ≤ U128.MAX := by omega
  obtain ⟨Wan, han⟩ := attach_ok (natW w) env s (0 + sp + tl) hS.s1 hbs' hbE
  obtain ⟨⟨g, lg, hform⟩, hmv⟩ := attach_mv (natW w) env s (0 + sp + tl) hS.s1 rfl Wan han
  subst hform
  have hgE : g.balance ENGINE = w.ledger.balance ENGINE + (0 + sp + tl) := hmv.bdst
  have hgI : g.balance IFUND = w.ledger.balance IFUND := hmv.bother IFUND (Ne.symm hS.s2) (by decide)
  have hgF : g.balance FEEPOOL = w.ledger.balance FEEPOOL := hmv.bother FEEPOOL (Ne.symm hS.s3) (by decide)
  -- the native reply: the same engine, each fee pull in its native form
  have htw := partialClosePositionReply_twin (({ cwW w with env := env, log := [] } : World).setVamm v x').q
    { w.engine with tmpSwap := some tmp } env (swIn o) (swOut o)
  have hr' : partialClosePositionReply (({ cwW w with env := env, log := [] } : World).setVamm v x').q
      (setNative { w.engine with tmpSwap := some tmp } false) env (swIn o) (swOut o)
        = .ok (e2, pullE s 0 ++ feesC s IFUND FEEPOOL sp tl) := hr
  rw [hr'] at htw
  have hrn : partialClosePositionReply
      (qb (({ cwW w with env := env, log := [] } : World).setVamm v x').q (fun b => .ok (g.balance b)))
      (setNative { w.engine with tmpSwap := some tmp } true) env (swIn o) (swOut o)
        = .ok (setNative e2 true, feesN IFUND FEEPOOL sp tl) := by
    rw [pcr_qb, ← feesN_eq s]; exact htw
  -- the native fee transfers go through
  obtain ⟨wn', hexecN, hFn, hlogN0⟩ := nat_run_ok
    ({ (({ ({ natW w with env := env, ledger := g, log := lg } : World) with
            engine := setNative { w.engine with tmpSwap := some tmp } true } : World).setVamm v x')
        with engine := setNative e2 true } : World)
    sp tl (show sp + tl ≤ g.balance ENGINE by omega)
    (show g.balance IFUND + sp ≤ U128.MAX ∨ sp = 0 by rw [hgI]; exact hI')
    (show g.balance FEEPOOL + tl ≤ U128.MAX ∨ tl = 0 by rw [hgF]; exact hF')
  have hexN := close_twin ({ cwW w with env := env, log := [] } : World).q (fun b => .ok (g.balance b)) w.engine env s
    v lim
  have hex' : closePosition ({ cwW w with env := env, log := [] } : World).q (setNative w.engine false) env s v lim
      = .ok (setNative { w.engine with tmpSwap := some tmp } false, [swapInputMsg v sd N 0 true REPLY_PARTIAL_CLOSE]) := hex
  rw [hex'] at hexN
  have htxN : applyTx (natW w) env s ⟨0 + sp + tl, false⟩ (closeTx v lim) = .ok wn' :=
    (partial_tx_iff (natW w) env s ⟨0 + sp + tl, false⟩ v lim wn' hp).2
      ⟨_, _, sd, N, x, x', o, _, _, han, hexN, hvx, hsw, hrn, hexecN⟩
  refine ⟨wn', htxN, ?_, hal'⟩
  have hlogN : wn'.log = optE s ENGINE (0 + sp + tl) ++ optE ENGINE IFUND sp ++ optE ENGINE FEEPOOL tl := by
    rw [hlogN0]
    have : lg = optE s ENGINE (0 + sp + tl) := hmv.log
    rw [← this]
    rfl
  exact agree_of w env s _ _ _ _ wn' wc' 0 sp tl htxN h hFn hFc rfl rfl rfl rfl rfl rfl hlogN hlog


theorem partial_B (w : World) (env : Env) (s v lim : Nat)
    (hp : PartialQ ({ w with env := env, log := [] } : World).q w.engine s v)
    (hS : Setup w s) (X : Nat) (hallow : X ≤ Ledger.get w.ledger.allow s)
    (wn' : World) (h : applyTx (natW w) env s ⟨X, false⟩ (closeTx v lim) = .ok wn')
    (hX : X = paidTo wn'.log IFUND + paidTo wn'.log FEEPOOL) :
    ∃ wc', applyTx (cwW w) env s ⟨0, false⟩ (closeTx v lim) = .ok wc' ∧ pulledBy wc'.log s = X ∧ Agree wn' wc' := by
  obtain ⟨Wa, e1n, sd, N, x, x', o, e2n, mn, han, hexn, hvx, hsw, hrn, hrunn⟩ :=
    (partial_tx_iff (natW w) env s ⟨X, false⟩ v lim wn' hp).1 h
  obtain ⟨⟨g, lg, hform⟩, hmv⟩ := attach_mv (natW w) env s X hS.s1 rfl Wa han
  subst hform
  -- the execute half on cw20
  have hexN := close_twin ({ cwW w with env := env, log := [] } : World).q (fun b => .ok (g.balance b)) w.engine env s
    v lim
  have hexn' : closePosition (qb ({ cwW w with env := env, log := [] } : World).q (fun b => .ok (g.balance b)))
      (setNative w.engine true) env s v lim = .ok (e1n, [swapInputMsg v sd N 0 true REPLY_PARTIAL_CLOSE]) := hexn
  rw [hexn'] at hexN
  cases hexc : closePosition ({ cwW w with env := env, log := [] } : World).q (setNative w.engine false) env s v lim with
  | error err => rw [hexc] at hexN; cases hexN
  | ok rc =>
    obtain ⟨e1c, msgs⟩ := rc
    rw [hexc] at hexN
    injection hexN with hexN
    injection hexN with he1n hmsgs
    dsimp only [lift] at he1n hmsgs
    obtain ⟨tmp, sd', N', he1, htr, hm'⟩ := partial_shape _ (setNative w.engine false) env s v lim hp _ hexc
    dsimp only at he1 hm'
    subst hm'
    have hmsg : [swapInputMsg v sd N 0 true REPLY_PARTIAL_CLOSE] = [swapInputMsg v sd' N' 0 true REPLY_PARTIAL_CLOSE] :=
      hmsgs
    have he1' : e1c = setNative { w.engine with tmpSwap := some tmp } false := he1
    subst he1'
    have he1n' : e1n = setNative { w.engine with tmpSwap := some tmp } true := he1n
    subst he1n'
    have hA : sideToDirection sd = sideToDirection sd' ∧ N = N' := by
      simpa [swapInputMsg] using hmsg
    obtain ⟨hsd, rfl⟩ := hA
    rw [hsd] at hsw
    -- the reply, back on the cw20 engine
    have htw := partialClosePositionReply_twin (({ cwW w with env := env, log := [] } : World).setVamm v x').q
      { w.engine with tmpSwap := some tmp } env (swIn o) (swOut o)
    have hrn' : partialClosePositionReply (({ cwW w with env := env, log := [] } : World).setVamm v x').q
        (setNative { w.engine with tmpSwap := some tmp } true) env (swIn o) (swOut o) = .ok (e2n, mn) := by
      rw [← pcr_qb _ (fun b => .ok (g.balance b))]; exact hrn
    rw [hrn'] at htw
    cases hrc : partialClosePositionReply (({ cwW w with env := env, log := [] } : World).setVamm v x').q
        (setNative { w.engine with tmpSwap := some tmp } false) env (swIn o) (swOut o) with
    | error err => rw [hrc] at htw; cases htw
    | ok rc2 =>
      obtain ⟨e2c, mc⟩ := rc2
      rw [hrc] at htw
      injection htw with htw
      injection htw with he2 hmn
      dsimp only [lift] at he2 hmn
      subst he2 hmn
      obtain ⟨sp, tl, hsh⟩ := pcr_shape_cw _ { w.engine with tmpSwap := some tmp } e2c env _ _ mc tmp rfl hrc
      rw [htr] at hsh
      have hsh' : mc = pullE s 0 ++ feesC s IFUND FEEPOOL sp tl := by
        rw [hsh]
        show feesC s w.engine.cfg.insuranceFund w.engine.cfg.feePool sp tl = _
        rw [hS.hif, hS.hfp]
        rfl
      subst hsh'
      have hmap : (pullE s 0 ++ feesC s IFUND FEEPOOL sp tl).map toNative = feesN IFUND FEEPOOL sp tl :=
        feesN_eq s IFUND FEEPOOL sp tl
      rw [hmap] at hrunn
      -- the native fee transfers
      obtain ⟨hFn, hlogN0, hIn, hFnr⟩ := nat_run_inv _ _ _ _ hrunn
      have hlogN : wn'.log = optE s ENGINE X ++ optE ENGINE IFUND sp ++ optE ENGINE FEEPOOL tl := by
        rw [hlogN0]
        have : lg = optE s ENGINE X := hmv.log
        rw [← this]
        rfl
      have hXeq : X = 0 + sp + tl := by
        rw [hX, hlogN]
        simp only [paidTo_append, paidTo_optE]
        simp [show ENGINE ≠ IFUND by decide, show FEEPOOL ≠ IFUND by decide, show ENGINE ≠ FEEPOOL by decide,
          show IFUND ≠ FEEPOOL by decide]
      subst hXeq
      -- balances seen by the cw20 pulls
      have hXs : 0 + sp + tl ≤ w.ledger.balance s := hmv.has
      have hgI : g.balance IFUND = w.ledger.balance IFUND := hmv.bother IFUND (Ne.symm hS.s2) (by decide)
      have hgF : g.balance FEEPOOL = w.ledger.balance FEEPOOL := hmv.bother FEEPOOL (Ne.symm hS.s3) (by decide)
      have hI : w.ledger.balance IFUND + sp ≤ U128.MAX ∨ sp = 0 := by
        have : g.balance IFUND + sp ≤ U128.MAX ∨ sp = 0 := hIn
        rw [hgI] at this; exact this
      have hF : w.ledger.balance FEEPOOL + tl ≤ U128.MAX ∨ tl = 0 := by
        have : g.balance FEEPOOL + tl ≤ U128.MAX ∨ tl = 0 := hFnr
        rw [hgF] at this; exact this
      -- the cw20 pulls go through
      obtain ⟨wc', hexecC, hFc, hlogC0⟩ := cw_run_ok
        ({ (({ ({ cwW w with env := env, log := [] } : World) with
                engine := setNative { w.engine with tmpSwap := some tmp } false } : World).setVamm v x')
            with engine := e2c } : World)
        s 0 sp tl hS.s1 hS.s2 hS.s3 (show 0 + sp + tl ≤ Ledger.get w.ledger.allow s from hallow)
        (show 0 + sp + tl ≤ w.ledger.balance s from hXs) (Or.inr rfl)
        (show w.ledger.balance IFUND + sp ≤ U128.MAX ∨ sp = 0 from hI)
        (show w.ledger.balance FEEPOOL + tl ≤ U128.MAX ∨ tl = 0 from hF)
      have htxC : applyTx (cwW w) env s ⟨0, false⟩ (closeTx v lim) = .ok wc' :=
        (partial_tx_iff (cwW w) env s ⟨0, false⟩ v lim wc' hp).2
          ⟨_, _, sd', N, x, x', o, _, _, ⟨fun hc => (by cases hc.1), fun _ => rfl⟩, hexc, hvx, hsw, hrc, hexecC⟩
      have hlog : wc'.log = optE s ENGINE_ADDR 0 ++ optE s IFUND sp ++ optE s FEEPOOL tl := hlogC0
      have hXp : pulledBy wc'.log s = 0 + sp + tl := by
        rw [hlog, pulledBy_append, pulledBy_append, pulledBy_optE, pulledBy_optE, pulledBy_optE]
        simp
      exact ⟨wc', htxC, hXp,
        agree_of w env s _ _ _ _ wn' wc' 0 sp tl h htxC hFn hFc rfl rfl rfl rfl rfl rfl hlogN hlog⟩


/-! ### the two twin theorems -/

open SatG (nat cw)

/-- **OpenPosition, reducing order** (`ReduceQ`: a stored position of non-zero size on the other side whose spot
    notional exceeds the order's notional).  Nothing is deposited; only the fees move.
    (A) if the cw20 run succeeds, the native run given exactly what was pulled from the caller succeeds, and
        the two final worlds agree; that amount was within the allowance;
    (B) if the native run succeeds with ANY attached amount `X` (within the caller's cw20 allowance), the cw20
        run succeeds, pulls exactly `X`, and the worlds agree.  No extra hypothesis is needed. -/
theorem twin_open_reduce (w : World) (env : Env) (s v : Nat) (side : Side) (m l b : Nat)
    (hred : ReduceQ ({ w with env := env, log := [] } : World).q w.engine env s v side m l)
    (hS : Setup w s) (hk : Dispatch.KeysNodup w.ledger) (ht : Dispatch.total w.ledger ≤ U128.MAX) :
    (∀ wc, applyTx (cw w) env s ⟨0, false⟩ (.engine (.openPosition v side m l b)) = .ok wc →
        ∃ wn, applyTx (nat w) env s ⟨pulledBy wc.log s, false⟩ (.engine (.openPosition v side m l b)) = .ok wn
          ∧ Agree wn wc ∧ pulledBy wc.log s ≤ Ledger.get w.ledger.allow s)
    ∧ (∀ X wn, X ≤ Ledger.get w.ledger.allow s →
        applyTx (nat w) env s ⟨X, false⟩ (.engine (.openPosition v side m l b)) = .ok wn →
        ∃ wc, applyTx (cw w) env s ⟨0, false⟩ (.engine (.openPosition v side m l b)) = .ok wc
          ∧ pulledBy wc.log s = X ∧ Agree wn wc) :=
  ⟨fun wc h => reduce_A w env s v side m l b hred hS (room_of_total w s hS.s1 hk ht) wc h,
   fun X wn hX h => reduce_B w env s v side m l b hred hS X hX wn h⟩

/-- **ClosePosition, partial close** (`PartialQ`: the engine falls back to closing the fraction `plr` of the
    position).  Only the fees move.
    (A) if the cw20 run succeeds, the native run given exactly the fees pulled from the caller succeeds and the
        worlds agree;
    (B) if the native run with `X` attached succeeds and `X` is exactly the fee the run paid to fund and pool
        (the engine does not check the attached amount on this path), the cw20 run succeeds, pulls exactly `X`,
        and the worlds agree. -/
theorem twin_close_partial (w : World) (env : Env) (s v lim : Nat)
    (hp : PartialQ ({ w with env := env, log := [] } : World).q w.engine s v)
    (hS : Setup w s) (hk : Dispatch.KeysNodup w.ledger) (ht : Dispatch.total w.ledger ≤ U128.MAX) :
    (∀ wc, applyTx (cw w) env s ⟨0, false⟩ (.engine (.closePosition v lim)) = .ok wc →
        ∃ wn, applyTx (nat w) env s ⟨pulledBy wc.log s, false⟩ (.engine (.closePosition v lim)) = .ok wn
          ∧ Agree wn wc ∧ pulledBy wc.log s ≤ Ledger.get w.ledger.allow s)
    ∧ (∀ X wn, X ≤ Ledger.get w.ledger.allow s →
        applyTx (nat w) env s ⟨X, false⟩ (.engine (.closePosition v lim)) = .ok wn →
        X = paidTo wn.log IFUND + paidTo wn.log FEEPOOL →
        ∃ wc, applyTx (cw w) env s ⟨0, false⟩ (.engine (.closePosition v lim)) = .ok wc
          ∧ pulledBy wc.log s = X ∧ Agree wn wc) :=
  ⟨fun wc h => partial_A w env s v lim hp hS (room_of_total w s hS.s1 hk ht) wc h,
   fun X wn hX h hfee => partial_B w env s v lim hp hS X hX wn h hfee⟩


/-! ### non-vacuity: concrete worlds (kernel-evaluated)

  World `w0`: one vAMM (1000 / 1000 reserves, toll 0.1 %, spread 0.2 %, no fluctuation limit yet), engine with a
  partial-liquidation ratio of 25 %, trader 101 with 1000 collateral and an allowance of 500.
  `w1` = `w0` after trader 101 went long 100 quote (margin 50, leverage 2) in block 5;
  `w2` = `w1` after the vAMM owner set a fluctuation limit of 5 % in block 6. -/

namespace Witness

def D : Nat := 1000000

def v0 : Vamm.V :=
  { cfg := { owner := 50, marginEngine := ENGINE, insuranceFund := IFUND, pricefeed := FEED, holdingCap := 0,
             oiCap := 0, decimals := D, toll := 1000, spread := 2000, fluct := 0, twapInterval := 3600,
             fundingPeriod := 3600, fundingBuffer := 1800 },
    st := { isOpen := true, quote := 1000 * D, base := 1000 * D, net := Integer.zero,
            fundingRate := Integer.zero, nextFunding := 0, snaps := [⟨1000 * D, 1000 * D, 0, 1⟩] } }

def e0 : E :=
  { cfg := { owner := 60, insuranceFund := IFUND, feePool := FEEPOOL, native := false, decimals := D,
             imr := 100000, mmr := 50000, plr := 250000, liqFee := 25000 },
    st := ⟨0, 0, false⟩, pauser := 60, whitelist := [], positions := [], vammMaps := [],
    tmpSwap := none, sentFunds := none, tmpLiq := none }

def w0 : World :=
  { env := ⟨4, 4000⟩, engine := e0, vamms := [(10, v0)],
    ifund := { owner := 61, engine := ENGINE, vamms := [10], stored := true },
    feePool := { owner := 62, tokens := [5] },
    feed := .mock { owner := 63, price := some D },
    ledger := { bal := [(101, 1000 * D), (ENGINE, 0), (IFUND, 5000 * D), (FEEPOOL, 0)], allow := [(101, 500 * D)] } }

def orSelf (w : World) (r : Except Err World) : World := match r with | .ok w' => w' | .error _ => w

/-- trader 101 long 100 quote -/
def w1 : World := orSelf w0 (applyTx w0 ⟨5, 5000⟩ 101 ⟨0, false⟩ (.engine (.openPosition 10 .buy (50 * D) (2 * D) 0)))
/-- … and a 5 % fluctuation limit on the vAMM -/
def w2 : World := orSelf w1 (applyTx w1 ⟨6, 6000⟩ 50 ⟨0, false⟩ (.vammConfig 10 { fluct := some 50000 }))

def env7 : Env := ⟨7, 7000⟩

/-- a sell of 20 quote against the long of ~100 -/
def redTx : Tx := .engine (.openPosition 10 .sell (10 * D) (2 * D) 0)
def pcTx : Tx := .engine (.closePosition 10 0)

def okLog (r : Except Err World) : Option (List (Nat × Nat × Nat)) :=
  match r with | .ok w => some w.log | .error _ => none

def pulled (r : Except Err World) (s : Nat) : Option Nat :=
  match r with | .ok w => some (pulledBy w.log s) | .error _ => none

/-- executable form of `ReduceQ` -/
def reduceB (q : Q) (e : E) (env : Env) (s v : Nat) (side : Side) (m l : Nat) : Bool :=
  !(decide ((getPosition env e v s side).size.isZero = true
      ∨ ((getPosition env e v s side).direction = .addToAmm ∧ side = .buy)
      ∨ ((getPosition env e v s side).direction = .removeFromAmm ∧ side = .sell)))
  && (match cmul m l with
      | .ok ml =>
        match cdiv ml e.cfg.decimals with
        | .ok N =>
          match unwrap (positionNotionalPnl q e (getPosition env e v s side) .spot) with
          | .ok pn => decide (pn.1 > N)
          | .error _ => true
        | .error _ => true
      | .error _ => true)

theorem reduceQ_of_reduceB (q : Q) (e : E) (env : Env) (s v : Nat) (side : Side) (m l : Nat)
    (h : reduceB q e env s v side m l = true) : ReduceQ q e env s v side m l := by
  unfold reduceB at h
  simp only [Bool.and_eq_true, Bool.not_eq_true', decide_eq_false_iff_not] at h
  obtain ⟨h1, h2⟩ := h
  refine ⟨h1, fun ml N pn e1 e2 e3 => ?_⟩
  rw [e1] at h2
  dsimp only at h2
  rw [e2] at h2
  dsimp only at h2
  rw [e3] at h2
  exact of_decide_eq_true h2

instance (q : Q) (e : E) (s v : Nat) : Decidable (PartialQ q e s v) := by
  unfold PartialQ; exact inferInstance

theorem setup_w (w : World) (s : Nat) (h1 : w.engine.cfg.insuranceFund = IFUND) (h2 : w.engine.cfg.feePool = FEEPOOL)
    (h3 : s ≠ ENGINE) (h4 : s ≠ IFUND) (h5 : s ≠ FEEPOOL) : Setup w s := ⟨h1, h2, h3, h4, h5⟩

set_option maxRecDepth 100000 in
/-- **non-vacuity of `twin_open_reduce`**: on `w1`, block 7, trader 101 selling 20 quote: the hypotheses hold and the
    cw20 run succeeds, pulling the fees 0.04 + 0.02 from the trader -/
theorem reduce_nonvacuous :
    ReduceQ ({ w1 with env := env7, log := [] } : World).q w1.engine env7 101 10 .sell (10 * D) (2 * D)
    ∧ Setup w1 101 ∧ Dispatch.KeysNodup w1.ledger ∧ Dispatch.total w1.ledger ≤ U128.MAX
    ∧ okLog (applyTx (cw w1) env7 101 ⟨0, false⟩ redTx) = some [(101, IFUND, 40000), (101, FEEPOOL, 20000)]
    ∧ pulled (applyTx (cw w1) env7 101 ⟨0, false⟩ redTx) 101 = some 60000 :=
  ⟨reduceQ_of_reduceB _ _ _ _ _ _ _ _ (by decide +kernel),
   setup_w _ _ (by decide +kernel) (by decide +kernel) (by decide) (by decide) (by decide),
   by unfold Dispatch.KeysNodup; decide +kernel, by decide +kernel, by decide +kernel, by decide +kernel⟩

set_option maxRecDepth 100000 in
/-- **non-vacuity of `twin_close_partial`**: on `w2`, block 7, trader 101 closing: closing the whole long would leave
    the 5 % band, `plr` = 25 % < 1, so the engine closes a quarter; the hypotheses hold and the cw20 run succeeds,
    pulling the fees 0.053658 + 0.026829 from the trader -/
theorem partial_nonvacuous :
    PartialQ ({ w2 with env := env7, log := [] } : World).q w2.engine 101 10
    ∧ Setup w2 101 ∧ Dispatch.KeysNodup w2.ledger ∧ Dispatch.total w2.ledger ≤ U128.MAX
    ∧ okLog (applyTx (cw w2) env7 101 ⟨0, false⟩ pcTx) = some [(101, IFUND, 53658), (101, FEEPOOL, 26829)]
    ∧ pulled (applyTx (cw w2) env7 101 ⟨0, false⟩ pcTx) 101 = some 80487 :=
  ⟨by decide +kernel,
   setup_w _ _ (by decide +kernel) (by decide +kernel) (by decide) (by decide) (by decide),
   by unfold Dispatch.KeysNodup; decide +kernel, by decide +kernel, by decide +kernel, by decide +kernel⟩

set_option maxRecDepth 100000 in
/-- **F10d — the hypothesis `X = fees paid` in (B) of `twin_close_partial` cannot be dropped** (as in the whole
    close): on the partial-close path the native engine never compares the attached amount with the fees.  On `w2`
    the cw20 run pulls 0.080487; the native run succeeds with 0.1 attached (within the allowance: the surplus stays
    in the vault) and also with NOTHING attached (the fees are then paid out of the vault, i.e. out of the other
    traders' margin) — in both cases no cw20 run pulls what was attached. -/
theorem F10d_partial_attachment_unchecked :
    100000 ≤ Ledger.get w2.ledger.allow 101
    ∧ pulled (applyTx (cw w2) env7 101 ⟨0, false⟩ pcTx) 101 = some 80487
    ∧ okLog (applyTx (nat w2) env7 101 ⟨100000, false⟩ pcTx)
        = some [(101, ENGINE, 100000), (ENGINE, IFUND, 53658), (ENGINE, FEEPOOL, 26829)]
    ∧ okLog (applyTx (nat w2) env7 101 ⟨0, false⟩ pcTx) = some [(ENGINE, IFUND, 53658), (ENGINE, FEEPOOL, 26829)] := by
  decide +kernel

/-- the theorems applied to the witness worlds: the native runs given exactly the pulled fees succeed and agree -/
theorem reduce_applied : ∃ wc wn, applyTx (cw w1) env7 101 ⟨0, false⟩ redTx = .ok wc
    ∧ applyTx (nat w1) env7 101 ⟨pulledBy wc.log 101, false⟩ redTx = .ok wn ∧ Agree wn wc := by
  obtain ⟨hq, hS, hk, ht, hlog, _⟩ := reduce_nonvacuous
  cases hc : applyTx (cw w1) env7 101 ⟨0, false⟩ redTx with
  | error e => rw [hc] at hlog; cases hlog
  | ok wc =>
    obtain ⟨wn, hn, hag, _⟩ := (twin_open_reduce w1 env7 101 10 .sell (10 * D) (2 * D) 0 hq hS hk ht).1 wc hc
    exact ⟨wc, wn, rfl, hn, hag⟩

theorem partial_applied : ∃ wc wn, applyTx (cw w2) env7 101 ⟨0, false⟩ pcTx = .ok wc
    ∧ applyTx (nat w2) env7 101 ⟨pulledBy wc.log 101, false⟩ pcTx = .ok wn ∧ Agree wn wc := by
  obtain ⟨hq, hS, hk, ht, hlog, _⟩ := partial_nonvacuous
  cases hc : applyTx (cw w2) env7 101 ⟨0, false⟩ pcTx with
  | error e => rw [hc] at hlog; cases hlog
  | ok wc =>
    obtain ⟨wn, hn, hag, _⟩ := (twin_close_partial w2 env7 101 10 0 hq hS hk ht).1 wc hc
    exact ⟨wc, wn, rfl, hn, hag⟩

end Witness

end Perp.Props.SatGReduce
