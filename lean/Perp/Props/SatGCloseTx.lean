/-
  SatG, part 4b — ClosePosition (whole close, no vault shortfall) at transaction level.
-/
import Perp.Props.SatGClose
import Perp.Props.SatGOpenTx
import Perp.Props.TxFlow

namespace Perp.Props.SatGCloseTx
open Perp Perp.World Perp.Engine Perp.Props.LiqTwin Perp.Props.SatGTwin
open Perp.Props.SatGRun Perp.Props.SatGLedger Perp.Props.SatGOpen Perp.Props.SatGClose Perp.Props.SatGOpenTx

def closeTx (v lim : Nat) : Tx := .engine (.closePosition v lim)

/-- a whole `ClosePosition`, step by step -/
theorem close_tx_iff (w : World) (env : Env) (s : Nat) (f : Funds) (v lim : Nat) (w' : World)
    (hwh : WholeQ ({ w with env := env, log := [] } : World).q w.engine s v) :
    applyTx w env s f (closeTx v lim) = .ok w' ↔
      ∃ Wa e1 a sd n x x' o e2 subs2, Attach w env s f Wa
        ∧ closePosition Wa.q Wa.engine env s v lim = .ok (e1, [swapOutputMsg a sd n lim REPLY_CLOSE])
        ∧ Wa.vammE a = .ok x ∧ Vamm.swapOutput x env ENGINE (sideToDirection sd) n lim = .ok (x', o)
        ∧ closePositionReply (({ Wa with engine := e1 } : World).setVamm a x').q e1 env (swOut o) = .ok (e2, subs2)
        ∧ execSubs 39 { ({ Wa with engine := e1 } : World).setVamm a x' with engine := e2 } ENGINE subs2 = .ok w' := by
  unfold closeTx
  rw [applyTx_engine_iff]
  constructor
  · rintro ⟨Wa, e1, subs, ha, hex, hrun⟩
    obtain ⟨henv, heng, hvm, hif, _, hfd⟩ := Attach.env ha
    have hex' : closePosition Wa.q Wa.engine env s v lim = .ok (e1, subs) := hex
    have hwh' : WholeQ Wa.q Wa.engine s v := by
      obtain ⟨g, lg, rfl⟩ : ∃ g lg, Wa = { w with env := env, ledger := g, log := lg } := by
        by_cases hc : w.engine.cfg.native = true ∧ f.amount ≠ 0
        · obtain ⟨g, _, rfl⟩ := ha.1 hc; exact ⟨g, _, rfl⟩
        · obtain rfl := ha.2 hc; exact ⟨_, _, rfl⟩
      exact hwh
    obtain ⟨tmp, a, sd, n, _, _, hsubs⟩ := close_shape _ _ _ _ _ _ hwh' _ hex'
    dsimp only at hsubs
    subst hsubs
    rw [show FUEL = 38 + 2 from rfl] at hrun
    obtain ⟨w1, ev, e2, subs2, hx, hr, hs⟩ := (single_always_iff 38 _ _ _ _).1 hrun
    obtain ⟨x, x', o, hvx, hsw, rfl, rfl⟩ := (swapOut_iff 38 _ _ _ _ _ _ _).1 hx
    rw [replyOk_close] at hr
    refine ⟨Wa, e1, a, sd, n, x, x', o, e2, subs2, ha, hex', hvx, ?_, ?_, hs⟩
    · rw [← henv]; exact hsw
    · rw [← henv]; exact hr
  · rintro ⟨Wa, e1, a, sd, n, x, x', o, e2, subs2, ha, hex, hvx, hsw, hr, hs⟩
    obtain ⟨henv, _⟩ := Attach.env ha
    refine ⟨Wa, e1, _, ha, hex, ?_⟩
    rw [show FUEL = 38 + 2 from rfl]
    refine (single_always_iff 38 _ _ _ _).2 ⟨_, _, e2, subs2, (swapOut_iff 38 _ _ _ _ _ _ _).2
      ⟨x, x', o, hvx, by rw [← henv] at hsw; exact hsw, rfl, rfl⟩, ?_, hs⟩
    rw [replyOk_close]
    rw [← henv] at hr
    exact hr


/-! ### the transfer lists -/

theorem optXfer_mv (W W1 : World) (d a : Nat) (hne : ENGINE ≠ d)
    (h : optStep W (.tokenTransfer d a) a = some W1) : Mv W W1 ENGINE d a := by
  unfold optStep at h
  by_cases ha : a ≠ 0
  · rw [if_pos ha] at h; exact (xfer_mv W W1 d a hne h).1
  · rw [if_neg ha] at h
    injection h with h
    subst h
    have : a = 0 := Decidable.not_not.mp ha
    subst this
    exact Mv.zero W ENGINE d

theorem optXfer_ok (W : World) (d a : Nat) (hne : ENGINE ≠ d) (h1 : a ≤ W.ledger.balance ENGINE)
    (h2 : W.ledger.balance d + a ≤ U128.MAX ∨ a = 0) : ∃ W1, optStep W (.tokenTransfer d a) a = some W1 := by
  unfold optStep
  by_cases ha : a ≠ 0
  · rw [if_pos ha]; exact xfer_ok W d a hne ha h1 (h2.resolve_right ha)
  · rw [if_neg ha]; exact ⟨W, rfl⟩

theorem cw_close_chain (W W' : World) (s I F amt sp tl : Nat) :
    runX W (payC s amt ++ feesC s I F sp tl) = some W' ↔
      ∃ W1 W2, optStep W (.tokenTransfer s amt) amt = some W1
        ∧ optStep W1 (.tokenTransferFrom s I sp) sp = some W2
        ∧ optStep W2 (.tokenTransferFrom s F tl) tl = some W' := by
  unfold payC feesC
  rw [runX_append, runX_opt, bind_some_iff]
  constructor
  · rintro ⟨W1, h1, h⟩
    rw [runX_append, runX_opt, bind_some_iff] at h
    obtain ⟨W2, h2, h3⟩ := h
    rw [runX_opt] at h3
    exact ⟨W1, W2, h1, h2, h3⟩
  · rintro ⟨W1, W2, h1, h2, h3⟩
    refine ⟨W1, h1, ?_⟩
    rw [runX_append, runX_opt, bind_some_iff]
    exact ⟨W2, h2, by rw [runX_opt]; exact h3⟩

theorem nat_close_chain (W W' : World) (s I F amt sp tl : Nat) :
    runX W (payN s amt ++ feesN I F sp tl) = some W' ↔
      ∃ W1 W2, optStep W (.bankSend s amt) amt = some W1
        ∧ optStep W1 (.bankSend I sp) sp = some W2
        ∧ optStep W2 (.bankSend F tl) tl = some W' := by
  unfold payN
  rw [runX_append, runX_opt, bind_some_iff]
  constructor
  · rintro ⟨W1, h1, h⟩
    obtain ⟨W2, h2, h3⟩ := (nat_fees_chain _ _ _ _ _ _).1 h
    exact ⟨W1, W2, h1, h2, h3⟩
  · rintro ⟨W1, W2, h1, h2, h3⟩
    exact ⟨W1, h1, (nat_fees_chain _ _ _ _ _ _).2 ⟨W2, h2, h3⟩⟩

theorem len_close_c (s i f a sp tl : Nat) : (payC s a ++ feesC s i f sp tl).length ≤ 3 := by
  unfold payC feesC
  by_cases h1 : a ≠ 0 <;> by_cases h2 : sp ≠ 0 <;> by_cases h3 : tl ≠ 0 <;> simp [h1, h2, h3]

theorem len_close_n (s i f a sp tl : Nat) : (payN s a ++ feesN i f sp tl).length ≤ 3 := by
  unfold payN feesN
  by_cases h1 : a ≠ 0 <;> by_cases h2 : sp ≠ 0 <;> by_cases h3 : tl ≠ 0 <;> simp [h1, h2, h3]

theorem xe_close_c (s i f a sp tl : Nat) : ∀ m ∈ payC s a ++ feesC s i f sp tl, XE m := by
  unfold payC feesC
  intro m hm
  by_cases h1 : a ≠ 0 <;> by_cases h2 : sp ≠ 0 <;> by_cases h3 : tl ≠ 0 <;>
    simp [h1, h2, h3] at hm <;> (try rcases hm with rfl | rfl | rfl) <;> (try rcases hm with rfl | rfl) <;>
    (try subst hm) <;> exact ⟨rfl, trivial⟩

theorem xe_close_n (s i f a sp tl : Nat) : ∀ m ∈ payN s a ++ feesN i f sp tl, XE m := by
  unfold payN feesN
  intro m hm
  by_cases h1 : a ≠ 0 <;> by_cases h2 : sp ≠ 0 <;> by_cases h3 : tl ≠ 0 <;>
    simp [h1, h2, h3] at hm <;> (try rcases hm with rfl | rfl | rfl) <;> (try rcases hm with rfl | rfl) <;>
    (try subst hm) <;> exact ⟨rfl, trivial⟩

/-- net flows of the two logs of a whole close -/
theorem close_flows (s amt sp tl : Nat) (a : Nat) :
    TxLog.tot (fun x => x.2.1 == a)
        (optE s ENGINE (sp + tl) ++ optE ENGINE s amt ++ optE ENGINE IFUND sp ++ optE ENGINE FEEPOOL tl)
      - TxLog.tot (fun x => x.1 == a)
        (optE s ENGINE (sp + tl) ++ optE ENGINE s amt ++ optE ENGINE IFUND sp ++ optE ENGINE FEEPOOL tl)
    = TxLog.tot (fun x => x.2.1 == a) (optE ENGINE s amt ++ optE s IFUND sp ++ optE s FEEPOOL tl)
      - TxLog.tot (fun x => x.1 == a) (optE ENGINE s amt ++ optE s IFUND sp ++ optE s FEEPOOL tl) := by
  simp only [TxLog.tot_append, tot_optE, beq_iff_eq]
  by_cases h1 : ENGINE = a <;> by_cases h2 : IFUND = a <;> by_cases h3 : FEEPOOL = a <;> by_cases h4 : s = a <;>
    simp only [h1, h2, h3, h4, if_true, if_false] <;> push_cast <;> omega


theorem mem_payN (s amt : Nat) (m : SubMsg) (h : m ∈ payN s amt) : m.msg = .bankSend s amt := by
  unfold payN at h
  by_cases k : amt ≠ 0
  · rw [if_pos k] at h; rw [List.mem_singleton.1 h]
  · rw [if_neg k] at h; cases h

theorem mem_feesN (i f sp tl : Nat) (m : SubMsg) (h : m ∈ feesN i f sp tl) :
    m.msg = .bankSend i sp ∨ m.msg = .bankSend f tl := by
  unfold feesN at h
  rcases List.mem_append.1 h with h | h
  · by_cases k : sp ≠ 0
    · rw [if_pos k] at h; rw [List.mem_singleton.1 h]; exact Or.inl rfl
    · rw [if_neg k] at h; cases h
  · by_cases k : tl ≠ 0
    · rw [if_pos k] at h; rw [List.mem_singleton.1 h]; exact Or.inr rfl
    · rw [if_neg k] at h; cases h

theorem mem_close_n (s i f amt sp tl a' : Nat) (h1 : s ≠ i) (h2 : s ≠ f)
    (h : (⟨.bankSend s a', REPLY_TRANSFER_FAILURE, .error⟩ : SubMsg) ∈ payN s amt ++ feesN i f sp tl) : a' = amt := by
  rcases List.mem_append.1 h with h | h
  · have := mem_payN _ _ _ h
    injection this
  · rcases mem_feesN _ _ _ _ _ h with h | h
    · injection h with k; exact absurd k h1
    · injection h with k; exact absurd k h2

/-! ### the two directions -/

theorem close_A (w : World) (env : Env) (s v lim : Nat)
    (hwh : WholeQ ({ w with env := env, log := [] } : World).q w.engine s v)
    (hS : Setup w s) (hroom : w.ledger.balance ENGINE + w.ledger.balance s ≤ U128.MAX)
    (wc' : World) (h : applyTx (cwW w) env s ⟨0, false⟩ (closeTx v lim) = .ok wc')
    (hns : wc'.engine.st.prepaid = w.engine.st.prepaid)
    (hpay : pulledBy wc'.log s ≤ w.ledger.balance s) :
    ∃ wn', applyTx (natW w) env s ⟨pulledBy wc'.log s, false⟩ (closeTx v lim) = .ok wn' ∧ Agree wn' wc'
      ∧ pulledBy wc'.log s ≤ Ledger.get w.ledger.allow s := by
  obtain ⟨Wa, e1, a, sd, n, x, x', o, e2, subs2, ha, hex, hvx, hsw, hr, hrun⟩ :=
    (close_tx_iff (cwW w) env s ⟨0, false⟩ v lim wc' hwh).1 h
  have hWa := ha.2 (fun hc => absurd hc.1 (by simp [cwW]))
  subst hWa
  obtain ⟨tmp, a', sd', n', he1, htr, _⟩ :=
    close_shape _ (setNative w.engine false) env s v lim hwh _ hex
  dsimp only at he1
  have he1' : e1 = setNative { w.engine with tmpSwap := some tmp } false := he1
  subst he1'
  -- shape of the reply's messages; no shortfall
  obtain ⟨sf, amt, sp, tl, hpp, hshape⟩ := cpr_shape_cw _ { w.engine with tmpSwap := some tmp } e2 env _ subs2 tmp rfl hr
  have hce := ((MirrorP.closePositionReply_eff _ (setNative { w.engine with tmpSwap := some tmp } false) env _ tmp rfl) _ hr).2
  obtain ⟨hsame, _⟩ := TxLog.run_CE_all subs2 39 _ wc' hce hrun
  have hsf : sf = 0 := by
    have h1 : wc'.engine.st.prepaid = e2.st.prepaid := by rw [hsame.engine]
    have h2 : e2.st.prepaid = w.engine.st.prepaid + sf := hpp
    omega
  have hsh := hshape hsf
  rw [htr] at hsh
  have hsh' : subs2 = payC s amt ++ feesC s IFUND FEEPOOL sp tl := by
    rw [hsh]
    show payC s amt ++ feesC s w.engine.cfg.insuranceFund w.engine.cfg.feePool sp tl = _
    rw [hS.hif, hS.hfp]
  subst hsh'
  -- the cw20 transfers
  have hrunX := (execSubs_xfers_iff _ 39 _ wc' (by have := len_close_c s IFUND FEEPOOL amt sp tl; omega)
    (xe_close_c _ _ _ _ _ _)).1 hrun
  obtain ⟨W1, W2, hp1, hp2, hp3⟩ := (cw_close_chain _ _ _ _ _ _ _ _).1 hrunX
  have M0 := optXfer_mv _ _ _ _ (Ne.symm hS.s1) hp1
  have P2 := optPull_pl _ _ _ _ _ hS.s2 hp2
  have P3 := optPull_pl _ _ _ _ _ hS.s3 hp3
  have hlog : wc'.log = optE ENGINE s amt ++ optE s IFUND sp ++ optE s FEEPOOL tl := by
    rw [P3.log, P2.log, M0.log]; rfl
  have hX : pulledBy wc'.log s = sp + tl := by
    rw [hlog, pulledBy_append, pulledBy_append, pulledBy_optE, pulledBy_optE, pulledBy_optE]
    simp [Ne.symm hS.s1]
  rw [hX] at hpay ⊢
  -- balances along the cw20 run
  have hamtE : amt ≤ w.ledger.balance ENGINE := M0.has
  have hsroom : w.ledger.balance s + amt ≤ U128.MAX ∨ amt = 0 := M0.room
  have i1 : W1.ledger.balance IFUND = w.ledger.balance IFUND := M0.bother IFUND (by decide) (Ne.symm hS.s2)
  have f1 : W1.ledger.balance FEEPOOL = w.ledger.balance FEEPOOL := M0.bother FEEPOOL (by decide) (Ne.symm hS.s3)
  have f2 : W2.ledger.balance FEEPOOL = W1.ledger.balance FEEPOOL := P2.bother FEEPOOL (Ne.symm hS.s3) (by decide)
  have hI : w.ledger.balance IFUND + sp ≤ U128.MAX ∨ sp = 0 := by have := P2.room; rw [i1] at this; exact this
  have hF : w.ledger.balance FEEPOOL + tl ≤ U128.MAX ∨ tl = 0 := by
    have := P3.room; rw [f2, f1] at this; exact this
  -- the native run: attach
  obtain ⟨Wan, han⟩ := attach_ok (natW w) env s (sp + tl) hS.s1 hpay
    (show w.ledger.balance ENGINE + (sp + tl) ≤ U128.MAX by omega)
  obtain ⟨⟨g, lg, hform⟩, hmv⟩ := attach_mv (natW w) env s (sp + tl) hS.s1 rfl Wan han
  subst hform
  have hgE : g.balance ENGINE = w.ledger.balance ENGINE + (sp + tl) := hmv.bdst
  have hgs : g.balance s = w.ledger.balance s - (sp + tl) := hmv.bsrc
  have hgI : g.balance IFUND = w.ledger.balance IFUND := hmv.bother IFUND (Ne.symm hS.s2) (by decide)
  have hgF : g.balance FEEPOOL = w.ledger.balance FEEPOOL := hmv.bother FEEPOOL (Ne.symm hS.s3) (by decide)
  -- the native reply: same engine, the vault already holds the fee coins
  have htw := closePositionReply_twin (({ cwW w with env := env, log := [] } : World).setVamm a x').q
    { w.engine with tmpSwap := some tmp } env (swOut o)
  have hr' : closePositionReply (({ cwW w with env := env, log := [] } : World).setVamm a x').q
      (setNative { w.engine with tmpSwap := some tmp } false) env (swOut o)
        = .ok (e2, payC s amt ++ feesC s IFUND FEEPOOL sp tl) := hr
  rw [hr'] at htw
  have htw' : closePositionReply
      (qb (({ cwW w with env := env, log := [] } : World).setVamm a x').q
        (({ cwW w with env := env, log := [] } : World).setVamm a x').q.balance)
      (setNative { w.engine with tmpSwap := some tmp } true) env (swOut o)
        = .ok (setNative e2 true, payN s amt ++ feesN IFUND FEEPOOL sp tl) := by
    rw [← close_map]; exact htw
  have hrn := cpr_swapq (({ cwW w with env := env, log := [] } : World).setVamm a x').q
    (({ cwW w with env := env, log := [] } : World).setVamm a x').q.balance (fun b => .ok (g.balance b))
    (setNative { w.engine with tmpSwap := some tmp } true) env (swOut o) tmp rfl (g.balance ENGINE_ADDR) rfl
    (by show g.balance ENGINE ≤ _; omega) _ htw'
    ⟨by show e2.st.prepaid = w.engine.st.prepaid; rw [hpp, hsf]; rfl, fun amt' hm => by
      rw [htr] at hm
      have := mem_close_n s IFUND FEEPOOL amt sp tl amt' hS.s2 hS.s3 hm
      subst this
      show amt' ≤ g.balance ENGINE
      omega⟩
  -- the native transfers go through
  obtain ⟨Wn1, hn1⟩ := optSend_ok
    ({ (({ ({ natW w with env := env, ledger := g, log := lg } : World) with
            engine := setNative { w.engine with tmpSwap := some tmp } true } : World).setVamm a x')
        with engine := setNative e2 true } : World)
    s amt (Ne.symm hS.s1) (show amt ≤ g.balance ENGINE by omega)
    (show g.balance s + amt ≤ U128.MAX ∨ amt = 0 by omega)
  have N1 := optSend_mv _ _ _ _ (Ne.symm hS.s1) hn1
  have n1E : Wn1.ledger.balance ENGINE = g.balance ENGINE - amt := N1.bsrc
  have n1I : Wn1.ledger.balance IFUND = g.balance IFUND := N1.bother IFUND (by decide) (Ne.symm hS.s2)
  have n1F : Wn1.ledger.balance FEEPOOL = g.balance FEEPOOL := N1.bother FEEPOOL (by decide) (Ne.symm hS.s3)
  obtain ⟨Wn2, hn2⟩ := optSend_ok Wn1 IFUND sp (by decide) (by omega) (by rw [n1I, hgI]; exact hI)
  have N2 := optSend_mv _ _ _ _ (by decide) hn2
  have n2E : Wn2.ledger.balance ENGINE = Wn1.ledger.balance ENGINE - sp := N2.bsrc
  have n2F : Wn2.ledger.balance FEEPOOL = Wn1.ledger.balance FEEPOOL := N2.bother FEEPOOL (by decide) (by decide)
  obtain ⟨wn', hn3⟩ := optSend_ok Wn2 FEEPOOL tl (by decide) (by omega) (by rw [n2F, n1F, hgF]; exact hF)
  have N3 := optSend_mv _ _ _ _ (by decide) hn3
  have hrunN := (nat_close_chain _ _ _ _ _ _ _ _).2 ⟨Wn1, Wn2, hn1, hn2, hn3⟩
  have hexecN := (execSubs_xfers_iff _ 39 _ wn' (by have := len_close_n s IFUND FEEPOOL amt sp tl; omega)
    (xe_close_n _ _ _ _ _ _)).2 hrunN
  have hexN := close_twin ({ cwW w with env := env, log := [] } : World).q (fun b => .ok (g.balance b)) w.engine env s
    v lim
  have hex' : closePosition ({ cwW w with env := env, log := [] } : World).q (setNative w.engine false) env s v lim
      = .ok (setNative { w.engine with tmpSwap := some tmp } false, [swapOutputMsg a sd n lim REPLY_CLOSE]) := hex
  rw [hex'] at hexN
  have htxN : applyTx (natW w) env s ⟨sp + tl, false⟩ (closeTx v lim) = .ok wn' :=
    (close_tx_iff (natW w) env s ⟨sp + tl, false⟩ v lim wn' hwh).2
      ⟨_, _, a, sd, n, x, x', o, _, _, han, hexN, hvx, hsw, hrn, hexecN⟩
  have hal : sp + tl ≤ Ledger.get w.ledger.allow s := by
    have a0 : Ledger.get W1.ledger.allow s = Ledger.get w.ledger.allow s := M0.allowOther s hS.s1
    have a2 := P2.allowed; have a2' := P2.allowAfter; have a3 := P3.allowed
    omega
  refine ⟨wn', htxN, ?_, hal⟩
  have hFn := Fr.trans (Fr.trans N1.fr N2.fr) N3.fr
  have hFc := Fr.trans (Fr.trans M0.fr P2.fr) P3.fr
  have hlogN : wn'.log = optE s ENGINE (sp + tl) ++ optE ENGINE s amt ++ optE ENGINE IFUND sp ++ optE ENGINE FEEPOOL tl := by
    rw [N3.log, N2.log, N1.log]
    have : lg = optE s ENGINE (sp + tl) := hmv.log
    rw [← this]
    rfl
  refine ⟨?_, ?_, ?_, ?_, ?_, ?_, ?_⟩
  · rw [hFn.1, hFc.1]
  · rw [hFn.2.1, hFc.2.1]; rfl
  · rw [hFn.2.2.1, hFc.2.2.1]; rfl
  · rw [hFn.2.2.2.1, hFc.2.2.2.1]; rfl
  · rw [hFn.2.2.2.2.1, hFc.2.2.2.2.1]; rfl
  · rw [hFn.2.2.2.2.2, hFc.2.2.2.2.2]; rfl
  · refine bal_agree (natW w) (cwW w) wn' wc' env s _ _ _ htxN h (fun _ => rfl) (fun b => ?_)
    rw [hlogN, hlog]
    exact close_flows s amt sp tl b


/-- what the log says was paid into account `d` -/
def paidTo (log : List (Nat × Nat × Nat)) (d : Nat) : Nat :=
  ((log.filter (fun x => x.2.1 == d)).map (fun x => x.2.2)).sum

theorem paidTo_append (a b : List (Nat × Nat × Nat)) (d : Nat) :
    paidTo (a ++ b) d = paidTo a d + paidTo b d := by
  simp [paidTo, List.filter_append, List.map_append, List.sum_append]

theorem paidTo_optE (src dst a d : Nat) : paidTo (optE src dst a) d = if dst = d then a else 0 := by
  unfold optE paidTo
  by_cases ha : a ≠ 0 <;> by_cases hs : dst = d <;> simp [ha, hs]
  · omega

theorem mem_optE (src dst a : Nat) (h : a ≠ 0) : (src, dst, a) ∈ optE src dst a := by
  unfold optE; rw [if_pos h]; exact List.mem_singleton.2 rfl

theorem close_B (w : World) (env : Env) (s v lim : Nat)
    (hwh : WholeQ ({ w with env := env, log := [] } : World).q w.engine s v)
    (hS : Setup w s) (hroom : w.ledger.balance ENGINE + w.ledger.balance s ≤ U128.MAX)
    (X : Nat) (hallow : X ≤ Ledger.get w.ledger.allow s)
    (wn' : World) (h : applyTx (natW w) env s ⟨X, false⟩ (closeTx v lim) = .ok wn')
    (hns : wn'.engine.st.prepaid = w.engine.st.prepaid)
    (hvault : ∀ amt, (ENGINE, s, amt) ∈ wn'.log → amt ≤ w.ledger.balance ENGINE)
    (hX : X = paidTo wn'.log IFUND + paidTo wn'.log FEEPOOL) :
    ∃ wc', applyTx (cwW w) env s ⟨0, false⟩ (closeTx v lim) = .ok wc' ∧ pulledBy wc'.log s = X ∧ Agree wn' wc' := by
  obtain ⟨Wa, e1n, a, sd, n, x, x', o, e2n, mn, han, hexn, hvx, hsw, hrn, hrunn⟩ :=
    (close_tx_iff (natW w) env s ⟨X, false⟩ v lim wn' hwh).1 h
  obtain ⟨⟨g, lg, hform⟩, hmv⟩ := attach_mv (natW w) env s X hS.s1 rfl Wa han
  subst hform
  -- the execute half on cw20
  have hexN := close_twin ({ cwW w with env := env, log := [] } : World).q (fun b => .ok (g.balance b)) w.engine env s
    v lim
  have hexn' : closePosition (qb ({ cwW w with env := env, log := [] } : World).q (fun b => .ok (g.balance b)))
      (setNative w.engine true) env s v lim = .ok (e1n, [swapOutputMsg a sd n lim REPLY_CLOSE]) := hexn
  rw [hexn'] at hexN
  cases hexc : closePosition ({ cwW w with env := env, log := [] } : World).q (setNative w.engine false) env s v lim with
  | error err => rw [hexc] at hexN; cases hexN
  | ok rc =>
    obtain ⟨e1c, msgs⟩ := rc
    rw [hexc] at hexN
    injection hexN with hexN
    injection hexN with he1n hmsgs
    dsimp only [lift] at he1n hmsgs
    obtain ⟨tmp, a', sd', n', he1, htr, hm'⟩ :=
      close_shape _ (setNative w.engine false) env s v lim hwh _ hexc
    dsimp only at he1 hm'
    subst hm'
    have hmsg : [swapOutputMsg a sd n lim REPLY_CLOSE] = [swapOutputMsg a' sd' n' lim REPLY_CLOSE] := hmsgs
    have he1' : e1c = setNative { w.engine with tmpSwap := some tmp } false := he1
    subst he1'
    have he1n' : e1n = setNative { w.engine with tmpSwap := some tmp } true := he1n
    subst he1n'
    have hA : a = a' ∧ sideToDirection sd = sideToDirection sd' ∧ n = n' := by
      simpa [swapOutputMsg] using hmsg
    obtain ⟨rfl, hsd, rfl⟩ := hA
    rw [hsd] at hsw
    -- the native reply, replayed with the original vault balance
    have hce := ((MirrorP.closePositionReply_eff _ (setNative { w.engine with tmpSwap := some tmp } true) env _ tmp rfl)
      _ hrn).2
    obtain ⟨hsameN, hlogN0⟩ := TxLog.run_CE_all mn 39 _ wn' hce hrunn
    have hppN : e2n.st.prepaid = w.engine.st.prepaid := by
      have : wn'.engine.st.prepaid = e2n.st.prepaid := by rw [hsameN.engine]
      omega
    have hrc0 := cpr_swapq (({ cwW w with env := env, log := [] } : World).setVamm a x').q
      (fun b => .ok (g.balance b)) (({ cwW w with env := env, log := [] } : World).setVamm a x').q.balance
      (setNative { w.engine with tmpSwap := some tmp } true) env (swOut o) tmp rfl (w.ledger.balance ENGINE_ADDR) rfl
      (by show w.ledger.balance ENGINE ≤ _; omega) _ hrn
      ⟨hppN, fun amt' hm => by
        rw [htr] at hm
        refine hvault amt' ?_
        rw [hlogN0]
        refine List.mem_append_right _ (List.mem_map.2 ⟨_, hm, ?_⟩)
        exact Perp.Props.TxFlow.xf_transferMsg _ _ _⟩
    -- back to the cw20 engine
    have htw := closePositionReply_twin (({ cwW w with env := env, log := [] } : World).setVamm a x').q
      { w.engine with tmpSwap := some tmp } env (swOut o)
    have hrc0' : closePositionReply (({ cwW w with env := env, log := [] } : World).setVamm a x').q
        (setNative { w.engine with tmpSwap := some tmp } true) env (swOut o) = .ok (e2n, mn) := hrc0
    rw [hrc0'] at htw
    cases hrc : closePositionReply (({ cwW w with env := env, log := [] } : World).setVamm a x').q
        (setNative { w.engine with tmpSwap := some tmp } false) env (swOut o) with
    | error err => rw [hrc] at htw; cases htw
    | ok rc2 =>
      obtain ⟨e2c, mc⟩ := rc2
      rw [hrc] at htw
      injection htw with htw
      injection htw with he2 hmn
      dsimp only [lift] at he2 hmn
      subst he2 hmn
      obtain ⟨sf, amt, sp, tl, hpp, hshape⟩ :=
        cpr_shape_cw _ { w.engine with tmpSwap := some tmp } e2c env _ mc tmp rfl hrc
      have hsf : sf = 0 := by
        have h1 : (setNative e2c true).st.prepaid = e2c.st.prepaid := rfl
        have h2 : e2c.st.prepaid = w.engine.st.prepaid + sf := hpp
        omega
      have hsh := hshape hsf
      rw [htr] at hsh
      have hsh' : mc = payC s amt ++ feesC s IFUND FEEPOOL sp tl := by
        rw [hsh]
        show payC s amt ++ feesC s w.engine.cfg.insuranceFund w.engine.cfg.feePool sp tl = _
        rw [hS.hif, hS.hfp]
      subst hsh'
      rw [close_map] at hrunn
      -- the native transfers
      have hrunX := (execSubs_xfers_iff _ 39 _ wn' (by have := len_close_n s IFUND FEEPOOL amt sp tl; omega)
        (xe_close_n _ _ _ _ _ _)).1 hrunn
      obtain ⟨Wn1, Wn2, hn1, hn2, hn3⟩ := (nat_close_chain _ _ _ _ _ _ _ _).1 hrunX
      have N1 := optSend_mv _ _ _ _ (Ne.symm hS.s1) hn1
      have N2 := optSend_mv _ _ _ _ (by decide) hn2
      have N3 := optSend_mv _ _ _ _ (by decide) hn3
      have hlogN : wn'.log = optE s ENGINE X ++ optE ENGINE s amt ++ optE ENGINE IFUND sp ++ optE ENGINE FEEPOOL tl := by
        rw [N3.log, N2.log, N1.log]
        have : lg = optE s ENGINE X := hmv.log
        rw [← this]
        rfl
      have hXeq : X = sp + tl := by
        rw [hX, hlogN]
        simp only [paidTo_append, paidTo_optE]
        simp [show ENGINE ≠ IFUND by decide, show FEEPOOL ≠ IFUND by decide, show ENGINE ≠ FEEPOOL by decide,
          show IFUND ≠ FEEPOOL by decide, hS.s2, hS.s3]
      subst hXeq
      have hamtE : amt ≤ w.ledger.balance ENGINE := by
        by_cases hz : amt = 0
        · omega
        · refine hvault amt ?_
          rw [hlogN]
          exact List.mem_append_left _ (List.mem_append_left _ (List.mem_append_right _ (mem_optE _ _ _ hz)))
      -- balances seen by the cw20 transfers
      have hXs : sp + tl ≤ w.ledger.balance s := hmv.has
      have hgI : g.balance IFUND = w.ledger.balance IFUND := hmv.bother IFUND (Ne.symm hS.s2) (by decide)
      have hgF : g.balance FEEPOOL = w.ledger.balance FEEPOOL := hmv.bother FEEPOOL (Ne.symm hS.s3) (by decide)
      have n1I : Wn1.ledger.balance IFUND = g.balance IFUND := N1.bother IFUND (by decide) (Ne.symm hS.s2)
      have n1F : Wn1.ledger.balance FEEPOOL = g.balance FEEPOOL := N1.bother FEEPOOL (by decide) (Ne.symm hS.s3)
      have n2F : Wn2.ledger.balance FEEPOOL = Wn1.ledger.balance FEEPOOL := N2.bother FEEPOOL (by decide) (by decide)
      have hI : w.ledger.balance IFUND + sp ≤ U128.MAX ∨ sp = 0 := by
        have := N2.room; rw [n1I, hgI] at this; exact this
      have hF : w.ledger.balance FEEPOOL + tl ≤ U128.MAX ∨ tl = 0 := by
        have := N3.room; rw [n2F, n1F, hgF] at this; exact this
      -- the cw20 transfers go through
      obtain ⟨W1, hp1⟩ := optXfer_ok
        ({ (({ ({ cwW w with env := env, log := [] } : World) with
                engine := setNative { w.engine with tmpSwap := some tmp } false } : World).setVamm a x')
            with engine := e2c } : World)
        s amt (Ne.symm hS.s1) (show amt ≤ w.ledger.balance ENGINE from hamtE)
        (show w.ledger.balance s + amt ≤ U128.MAX ∨ amt = 0 by omega)
      have M0 := optXfer_mv _ _ _ _ (Ne.symm hS.s1) hp1
      have m0s : W1.ledger.balance s = w.ledger.balance s + amt := M0.bdst
      have m0a : Ledger.get W1.ledger.allow s = Ledger.get w.ledger.allow s := M0.allowOther s hS.s1
      have i1 : W1.ledger.balance IFUND = w.ledger.balance IFUND := M0.bother IFUND (by decide) (Ne.symm hS.s2)
      have f1 : W1.ledger.balance FEEPOOL = w.ledger.balance FEEPOOL := M0.bother FEEPOOL (by decide) (Ne.symm hS.s3)
      obtain ⟨W2, hp2⟩ := optPull_ok W1 s IFUND sp hS.s2 (by omega) (by omega) (by rw [i1]; exact hI)
      have P2 := optPull_pl _ _ _ _ _ hS.s2 hp2
      have a2 := P2.allowAfter
      have b2 := P2.bsrc
      have f2 : W2.ledger.balance FEEPOOL = W1.ledger.balance FEEPOOL := P2.bother FEEPOOL (Ne.symm hS.s3) (by decide)
      obtain ⟨wc', hp3⟩ := optPull_ok W2 s FEEPOOL tl hS.s3 (by omega) (by omega) (by rw [f2, f1]; exact hF)
      have P3 := optPull_pl _ _ _ _ _ hS.s3 hp3
      have hrunC := (cw_close_chain _ _ _ _ _ _ _ _).2 ⟨W1, W2, hp1, hp2, hp3⟩
      have hexecC := (execSubs_xfers_iff _ 39 _ wc' (by have := len_close_c s IFUND FEEPOOL amt sp tl; omega)
        (xe_close_c _ _ _ _ _ _)).2 hrunC
      have htxC : applyTx (cwW w) env s ⟨0, false⟩ (closeTx v lim) = .ok wc' :=
        (close_tx_iff (cwW w) env s ⟨0, false⟩ v lim wc' hwh).2
          ⟨_, _, a, sd', n, x, x', o, _, _, ⟨fun hc => (by cases hc.1), fun _ => rfl⟩, hexc, hvx, hsw, hrc, hexecC⟩
      have hlog : wc'.log = optE ENGINE s amt ++ optE s IFUND sp ++ optE s FEEPOOL tl := by
        rw [P3.log, P2.log, M0.log]; rfl
      have hXp : pulledBy wc'.log s = sp + tl := by
        rw [hlog, pulledBy_append, pulledBy_append, pulledBy_optE, pulledBy_optE, pulledBy_optE]
        simp [Ne.symm hS.s1]
      refine ⟨wc', htxC, hXp, ?_⟩
      have hFn := Fr.trans (Fr.trans N1.fr N2.fr) N3.fr
      have hFc := Fr.trans (Fr.trans M0.fr P2.fr) P3.fr
      refine ⟨?_, ?_, ?_, ?_, ?_, ?_, ?_⟩
      · rw [hFn.1, hFc.1]
      · rw [hFn.2.1, hFc.2.1]; rfl
      · rw [hFn.2.2.1, hFc.2.2.1]; rfl
      · rw [hFn.2.2.2.1, hFc.2.2.2.1]; rfl
      · rw [hFn.2.2.2.2.1, hFc.2.2.2.2.1]; rfl
      · rw [hFn.2.2.2.2.2, hFc.2.2.2.2.2]; rfl
      · refine bal_agree (natW w) (cwW w) wn' wc' env s _ _ _ h htxC (fun _ => rfl) (fun b => ?_)
        rw [hlogN, hlog]
        exact close_flows s amt sp tl b

end Perp.Props.SatGCloseTx
