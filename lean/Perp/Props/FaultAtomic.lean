/-
  C08, first half, for EVERY fault point: the instrumented dispatcher of `Perp/Model/Fault.lean`
  (`execMsgF` / `execSubsF` / `applyTxF`: ONE injected failure at the k-th dispatched message).
    * `applyTxF_none`   : without an armed fault the instrumented dispatcher IS the dispatcher;
    * `fault_fails_tx`  : if a transaction (of ANY kind) succeeds although a fault was armed, the fault was
                          never reached and the result is the un-instrumented one;
    * `tx_atomic_under_fault` / `engine_tx_atomic_under_fault` / `stepF_atomic` : all-or-nothing;
    * `fault_profile`   : a successful transaction dispatches `cnt` messages; a failure injected at each
                          `k < cnt` fails it, a fault armed at `k ≥ cnt` is not reached;
    * kernel-evaluated non-vacuity examples.
  The facts used: `Engine.replyErr` always returns an error, a contract other than the engine has no `reply`,
  and a failed sub-message without an error reply propagates its error.
-/
import Perp.Model.Fault
import Perp.Props.Dispatch
import Perp.Props.SatEWitness

namespace Perp.Props.FaultAtomic
open Perp Perp.World

/-- an un-instrumented outcome of a message, seen as an outcome of the instrumented dispatcher that ends with countdown `n` -/
def tagM (n : Option Nat) (r : Except Err (World × Ev)) : Except FErr (World × Ev × Option Nat) :=
  match r with
  | .ok (w, ev) => .ok (w, ev, n)
  | .error e => .error (e, n)

def tagS (n : Option Nat) (r : Except Err World) : Except FErr (World × Option Nat) :=
  match r with
  | .ok w => .ok (w, n)
  | .error e => .error (e, n)

/-- a message that is not a withdrawal from the insurance fund dispatches nothing further: it is counted, then runs as in `execMsg` -/
theorem execMsgF_leaf (fuel : Nat) (n : Option Nat) (w : World) (s : Nat) (m : Msg) (hm : ∀ amt, m ≠ .ifWithdraw amt) :
    execMsgF (fuel + 1) n w s m
      = if n = some 0 then .error (FAULT, none) else tagM (tick n) (execMsg (fuel + 1) w s m) := by
  unfold execMsgF execMsg
  split
  · rfl
  · cases m with
    | vammSwapInput a d x l g =>
      simp only []
      cases w.vammE a with
      | error e => rfl
      | ok v => 
        simp only [bind, Except.bind]
        cases Vamm.swapInput v w.env s d x l g <;> rfl
    | vammSwapOutput a d x l =>
      simp only []
      cases w.vammE a with
      | error e => rfl
      | ok v => 
        simp only [bind, Except.bind]
        cases Vamm.swapOutput v w.env s d x l <;> rfl
    | vammSettle a =>
      simp only []
      cases w.vammE a with
      | error e => rfl
      | ok v => 
        simp only [bind, Except.bind]
        cases Vamm.settleFunding v w.env s (w.oracleTwap v.cfg.pricefeed v.cfg.twapInterval) <;> rfl
    | vammSetOpen a o =>
      simp only []
      cases w.vammE a with
      | error e => rfl
      | ok v => 
        simp only [bind, Except.bind]
        cases Vamm.setOpen v w.env s o <;> rfl
    | tokenTransfer to amt =>
      simp only []
      cases w.ledger.tokenTransfer s to amt <;> rfl
    | tokenTransferFrom owner to amt =>
      simp only []
      split
      · rfl
      · cases w.ledger.tokenTransferFrom owner to amt <;> rfl
    | bankSend to amt =>
      simp only []
      cases w.ledger.bankSend s to amt <;> rfl
    | ifWithdraw amt => exact absurd rfl (hm amt)

theorem exec_none (fuel : Nat) :
    (∀ w s m, execMsgF fuel none w s m = tagM none (execMsg fuel w s m))
    ∧ (∀ w c subs, execSubsF fuel none w c subs = tagS none (execSubs fuel w c subs)) := by
  induction fuel with
  | zero =>
    constructor
    · intro w s m; unfold execMsgF execMsg; rfl
    · intro w c subs; unfold execSubsF execSubs; rfl
  | succ fuel ih =>
    constructor
    · intro w s m
      by_cases hm : ∀ amt, m ≠ .ifWithdraw amt
      · rw [execMsgF_leaf _ _ _ _ _ hm]; simp [tick]
      · have : ∃ amt, m = .ifWithdraw amt := by
          cases m <;> first | exact ⟨_, rfl⟩ | exact absurd (fun _ => Msg.noConfusion) hm
        obtain ⟨amt, rfl⟩ := this
        unfold execMsgF execMsg
        simp only [tick, Option.map_none, reduceCtorEq, if_false]
        split
        · rfl
        · split
          · rfl
          · simp only [ih.2]
            generalize execSubs fuel w IFUND _ = r
            cases r <;> rfl
    · intro w c subs
      unfold execSubsF execSubs
      cases subs with
      | nil => rfl
      | cons s rest =>
        simp only [ih.1]
        cases hx : execMsg fuel w c s.msg with
        | error err =>
          simp only [tagM, Engine.replyErr]
          by_cases h1 : s.replyOn = ReplyOn.always ∨ s.replyOn = ReplyOn.error
          · simp only [h1, if_true]
            by_cases h2 : c = ENGINE
            · simp only [ne_eq, h2, not_true_eq_false, if_false]; rfl
            · simp only [ne_eq, h2, not_false_eq_true, if_true]; rfl
          · simp only [h1, if_false]; rfl
        | ok r =>
          obtain ⟨w1, ev⟩ := r
          simp only [tagM]
          by_cases h1 : s.replyOn = ReplyOn.always ∨ s.replyOn = ReplyOn.success
          · simp only [h1, if_true]
            by_cases h2 : c = ENGINE
            case neg => simp only [ne_eq, h2, not_false_eq_true, if_true]; rfl
            case pos =>
              simp only [ne_eq, h2, not_true_eq_false, if_false]
              cases Engine.replyOk w1.q w1.engine w1.env s.id ev with
              | error e => rfl
              | ok r2 =>
                obtain ⟨e2, subs2⟩ := r2
                simp only [ih.2]
                generalize execSubs fuel _ _ subs2 = r3
                cases r3 with
                | error e => rfl
                | ok w3 => simp only [tagS, ih.2]
          · simp only [h1, if_false, ih.2]

theorem exec_armed (fuel : Nat) :
    (∀ k w s m w' ev n', execMsgF fuel (some k) w s m = .ok (w', ev, n') →
        (∃ j, n' = some j) ∧ execMsg fuel w s m = .ok (w', ev))
    ∧ (∀ k w c subs w' n', execSubsF fuel (some k) w c subs = .ok (w', n') →
        (∃ j, n' = some j) ∧ execSubs fuel w c subs = .ok w') := by
  induction fuel with
  | zero =>
    constructor
    · intro k w s m w' ev n' h; unfold execMsgF at h; cases h
    · intro k w c subs w' n' h; unfold execSubsF at h; cases h
  | succ fuel ih =>
    constructor
    · intro k w s m w' ev n' h
      by_cases hm : ∀ amt, m ≠ .ifWithdraw amt
      · rw [execMsgF_leaf _ _ _ _ _ hm] at h
        cases k with
        | zero => simp at h
        | succ k =>
          simp [tick] at h
          cases hx : execMsg (fuel + 1) w s m with
          | error e => rw [hx] at h; simp [tagM] at h
          | ok r =>
            obtain ⟨w1, ev1⟩ := r
            rw [hx] at h; simp [tagM] at h
            obtain ⟨rfl, rfl, rfl⟩ := h
            exact ⟨⟨k, rfl⟩, rfl⟩
      · have : ∃ amt, m = .ifWithdraw amt := by
          cases m <;> first | exact ⟨_, rfl⟩ | exact absurd (fun _ => Msg.noConfusion) hm
        obtain ⟨amt, rfl⟩ := this
        unfold execMsgF at h
        unfold execMsg
        cases k with
        | zero => simp at h
        | succ k =>
          simp only [tick, Option.map_some, Nat.pred_succ] at h
          simp only []
          rw [if_neg (by simp)] at h
          by_cases g1 : w.engine.cfg.insuranceFund ≠ IFUND
          · rw [if_pos g1] at h; cases h
          · rw [if_neg g1] at h ⊢
            by_cases g2 : s ≠ w.ifund.engine
            · rw [if_pos g2] at h; cases h
            · rw [if_neg g2] at h ⊢
              generalize hsub : (if w.engine.cfg.native = true then
                  ({ msg := Msg.bankSend w.ifund.engine amt, id := 0, replyOn := ReplyOn.never } : SubMsg)
                else { msg := Msg.tokenTransfer w.ifund.engine amt, id := 0, replyOn := ReplyOn.never }) = sub at h ⊢
              cases h3 : execSubsF fuel (some k) w IFUND [sub] with
              | error e => simp only [h3] at h; cases h
              | ok r3 =>
                obtain ⟨w3, n3⟩ := r3
                simp only [h3] at h
                injection h with h
                injection h with ha h
                injection h with hb hc
                subst ha hb hc
                obtain ⟨hj, h3'⟩ := ih.2 _ _ _ _ _ _ h3
                rw [h3']
                exact ⟨hj, rfl⟩
    · intro k w c subs w' n' h
      unfold execSubsF at h
      unfold execSubs
      cases subs with
      | nil => simp at h; obtain ⟨rfl, rfl⟩ := h; exact ⟨⟨k, rfl⟩, rfl⟩
      | cons s rest =>
        simp only [] at h ⊢
        cases hx : execMsgF fuel (some k) w c s.msg with
        | error r =>
          obtain ⟨err, n1⟩ := r
          simp only [hx, Engine.replyErr] at h
          split at h
          · split at h <;> cases h
          · cases h
        | ok r =>
          obtain ⟨w1, ev, n1⟩ := r
          simp only [hx] at h
          obtain ⟨⟨j1, rfl⟩, hx'⟩ := ih.1 _ _ _ _ _ _ _ hx
          simp only [hx']
          by_cases h1 : s.replyOn = ReplyOn.always ∨ s.replyOn = ReplyOn.success
          · simp only [h1, if_true] at h ⊢
            by_cases h2 : c = ENGINE
            case neg => simp only [ne_eq, h2, not_false_eq_true, if_true] at h; cases h
            case pos =>
              simp only [ne_eq, h2, not_true_eq_false, if_false] at h ⊢
              cases hr : Engine.replyOk w1.q w1.engine w1.env s.id ev with
              | error e => simp only [hr] at h; cases h
              | ok r2 =>
                obtain ⟨e2, subs2⟩ := r2
                simp only [hr] at h ⊢
                cases h3 : execSubsF fuel (some j1) { w1 with engine := e2 } ENGINE subs2 with
                | error e => simp only [h3] at h; cases h
                | ok r3 =>
                  obtain ⟨w3, n3⟩ := r3
                  simp only [h3] at h
                  obtain ⟨⟨j3, rfl⟩, h3'⟩ := ih.2 _ _ _ _ _ _ h3
                  simp only [h3']
                  exact ih.2 _ _ _ _ _ _ h
          · simp only [h1, if_false] at h ⊢
            exact ih.2 _ _ _ _ _ _ h

/-! ### top level -/

/-- a top-level message (the `msgF` of `applyTxFE`) -/
def msgF (n : Option Nat) (w : World) (s : Nat) (m : Msg) : Except FErr (World × Option Nat) :=
  match execMsgF FUEL n w s m with
  | .ok (w', _, n') => .ok (w', n')
  | .error e => .error e

theorem msgF_none (w : World) (s : Nat) (m : Msg) :
    msgF none w s m = tagS none ((execMsg FUEL w s m).map (·.1)) := by
  unfold msgF
  rw [(exec_none FUEL).1]
  rcases execMsg FUEL w s m with e | ⟨w1, ev⟩ <;> rfl

theorem msgF_armed (k : Nat) (w : World) (s : Nat) (m : Msg) (w' : World) (n' : Option Nat)
    (h : msgF (some k) w s m = .ok (w', n')) :
    (∃ j, n' = some j) ∧ (execMsg FUEL w s m).map (·.1) = .ok w' := by
  unfold msgF at h
  cases hx : execMsgF FUEL (some k) w s m with
  | error e => simp only [hx] at h; cases h
  | ok r =>
    obtain ⟨w1, ev, n1⟩ := r
    simp only [hx] at h
    injection h with h
    injection h with ha hb
    subst ha hb
    obtain ⟨hj, hx'⟩ := (exec_armed FUEL).1 _ _ _ _ _ _ _ hx
    rw [hx']
    exact ⟨hj, rfl⟩

theorem dropE_tagS (r : Except Err World) : (dropE (tagS none r)).map (·.1) = r := by
  cases r <;> rfl

theorem dropE_ok {α : Type} (r : Except FErr α) (a : α) : dropE r = .ok a ↔ r = .ok a := by
  cases r <;> simp [dropE]

@[simp] theorem tagS_ok (n : Option Nat) (w : World) : tagS n (.ok w) = .ok (w, n) := rfl
@[simp] theorem tagS_error (n : Option Nat) (e : Err) : tagS n (.error e) = .error (e, n) := rfl

theorem liftE_map (n : Option Nat) (r : Except Err World) :
    liftE n (r.map (fun w' => (w', n))) = tagS n r := by
  cases r <;> rfl

theorem applyTxFE_none (w : World) (env : Env) (s : Nat) (f : Engine.Funds) (tx : Tx) :
    applyTxFE none w env s f tx = tagS none (applyTx w env s f tx) := by
  unfold applyTxFE applyTx
  cases tx with
  | engine m =>
    simp only []
    by_cases hc : w.engine.cfg.native = true ∧ f.amount ≠ 0
    · rw [if_pos hc, if_pos hc]
      simp only [(exec_none FUEL).1]
      generalize execMsg FUEL _ s (Msg.bankSend ENGINE f.amount) = r
      rcases r with e | ⟨w1, ev⟩
      · rfl
      · simp only [tagM, Except.map, bind, Except.bind]
        cases Engine.execute w1.q w1.engine env s f m with
        | error e => rfl
        | ok r2 => exact (exec_none FUEL).2 _ _ _
    · rw [if_neg hc, if_neg hc]
      simp only [bind, Except.bind, pure, Except.pure]
      cases Engine.execute _ _ env s f m with
      | error e => rfl
      | ok r2 => exact (exec_none FUEL).2 _ _ _
  | vammSwapInput v dir amt lim cgo => exact msgF_none _ _ _
  | vammSwapOutput v dir amt lim => exact msgF_none _ _ _
  | vammSettle v => exact msgF_none _ _ _
  | vammSetOpen v o => exact msgF_none _ _ _
  | ifWithdraw amt => exact msgF_none _ _ _
  | ifShutdown =>
    simp only [apply_ite (tagS none), tagS_error, (exec_none FUEL).2]
  | fpSend tok amt to =>
    simp only [apply_ite (tagS none), tagS_error, (exec_none FUEL).2]
  | tokenTransfer to amt =>
    simp only [apply_ite (tagS none), tagS_error]
    split
    · rfl
    · exact msgF_none _ _ _
  | bankSend to amt =>
    simp only [apply_ite (tagS none), tagS_error]
    split
    · rfl
    · exact msgF_none _ _ _
  | _ => exact liftE_map _ _

theorem liftE_map_ok (n : Option Nat) (r : Except Err World) (w' : World) (n' : Option Nat)
    (h : liftE n (r.map (fun w' => (w', n))) = .ok (w', n')) : n' = n ∧ r = .ok w' := by
  cases r with
  | error e => cases h
  | ok w1 =>
    simp only [Except.map, liftE] at h
    injection h with h
    injection h with ha hb
    subst ha hb
    exact ⟨rfl, rfl⟩

theorem subsF_armed (k : Nat) (w : World) (c : Nat) (subs : List SubMsg) (w' : World) (n' : Option Nat)
    (h : execSubsF FUEL (some k) w c subs = .ok (w', n')) :
    (∃ j, n' = some j) ∧ execSubs FUEL w c subs = .ok w' :=
  (exec_armed FUEL).2 _ _ _ _ _ _ h

theorem applyTxFE_armed (k : Nat) (w : World) (env : Env) (s : Nat) (f : Engine.Funds) (tx : Tx)
    (w' : World) (n' : Option Nat) (h : applyTxFE (some k) w env s f tx = .ok (w', n')) :
    (∃ j, n' = some j) ∧ applyTx w env s f tx = .ok w' := by
  unfold applyTxFE at h
  unfold applyTx
  cases tx with
  | engine m =>
    simp only [] at h ⊢
    by_cases hc : w.engine.cfg.native = true ∧ f.amount ≠ 0
    · rw [if_pos hc] at h ⊢
      cases hm : execMsgF FUEL (some k) { w with env := env, log := [] } s (Msg.bankSend ENGINE f.amount) with
      | error e => simp only [hm] at h; cases h
      | ok r =>
        obtain ⟨w1, ev, n1⟩ := r
        simp only [hm] at h
        obtain ⟨⟨j1, rfl⟩, hm'⟩ := (exec_armed FUEL).1 _ _ _ _ _ _ _ hm
        simp only [hm', Except.map, bind, Except.bind]
        cases hx : Engine.execute w1.q w1.engine env s f m with
        | error e => rw [hx] at h; cases h
        | ok r2 =>
          rw [hx] at h
          exact subsF_armed _ _ _ _ _ _ h
    · rw [if_neg hc] at h ⊢
      simp only [bind, Except.bind, pure, Except.pure] at h ⊢
      cases hx : Engine.execute _ _ env s f m with
      | error e => rw [hx] at h; cases h
      | ok r2 => 
        rw [hx] at h
        exact subsF_armed _ _ _ _ _ _ h
  | vammSwapInput v dir amt lim cgo => exact msgF_armed _ _ _ _ _ _ h
  | vammSwapOutput v dir amt lim => exact msgF_armed _ _ _ _ _ _ h
  | vammSettle v => exact msgF_armed _ _ _ _ _ _ h
  | vammSetOpen v o => exact msgF_armed _ _ _ _ _ _ h
  | ifWithdraw amt => exact msgF_armed _ _ _ _ _ _ h
  | ifShutdown =>
    simp only [] at h ⊢
    split at h
    · cases h
    · rename_i g1
      rw [if_neg g1]
      split at h
      · cases h
      · rename_i g2
        rw [if_neg g2]
        exact subsF_armed _ _ _ _ _ _ h
  | fpSend tok amt to =>
    simp only [] at h ⊢
    split at h
    · cases h
    rename_i g1; rw [if_neg g1]
    split at h
    · cases h
    rename_i g2; rw [if_neg g2]
    split at h
    · cases h
    rename_i g3; rw [if_neg g3]
    split at h
    · cases h
    rename_i g4; rw [if_neg g4]
    split at h
    · cases h
    rename_i g5; rw [if_neg g5]
    exact subsF_armed _ _ _ _ _ _ h
  | tokenTransfer to amt =>
    simp only [] at h ⊢
    split at h
    · cases h
    rename_i g1; rw [if_neg g1]
    exact msgF_armed _ _ _ _ _ _ h
  | bankSend to amt =>
    simp only [] at h ⊢
    split at h
    · cases h
    rename_i g1; rw [if_neg g1]
    exact msgF_armed _ _ _ _ _ _ h
  | _ =>
    obtain ⟨rfl, h2⟩ := liftE_map_ok _ _ _ _ h
    exact ⟨⟨k, rfl⟩, by simpa only [applyTx] using h2⟩

/-! ### the theorems -/

/-- without an armed fault the instrumented dispatcher IS the dispatcher -/
theorem applyTxF_none (w : World) (env : Env) (s : Nat) (f : Engine.Funds) (tx : Tx) :
    (applyTxF none w env s f tx).map (·.1) = applyTx w env s f tx := by
  unfold applyTxF
  rw [applyTxFE_none]
  exact dropE_tagS _

/-- the same for a single message and for a list of sub-messages, at every fuel -/
theorem execMsgF_none (fuel : Nat) (w : World) (s : Nat) (m : Msg) :
    (dropE (execMsgF fuel none w s m)).map (fun r => (r.1, r.2.1)) = execMsg fuel w s m := by
  rw [(exec_none fuel).1]
  rcases execMsg fuel w s m with e | ⟨w1, ev⟩ <;> rfl

theorem execSubsF_none (fuel : Nat) (w : World) (c : Nat) (subs : List SubMsg) :
    (dropE (execSubsF fuel none w c subs)).map (·.1) = execSubs fuel w c subs := by
  rw [(exec_none fuel).2]
  exact dropE_tagS _

/-- C08, first half, for EVERY fault point and EVERY kind of transaction: if the transaction succeeds although
    a fault was armed, the fault was never reached (the countdown is still armed), and the result is the
    un-instrumented result.  Contrapositive: a fired fault fails the whole transaction. -/
theorem fault_fails_tx (k : Nat) (w : World) (env : Env) (s : Nat) (f : Engine.Funds) (tx : Tx)
    (w' : World) (n' : Option Nat) (h : applyTxF (some k) w env s f tx = .ok (w', n')) :
    (∃ j, n' = some j) ∧ applyTx w env s f tx = .ok w' := by
  unfold applyTxF at h
  rw [dropE_ok] at h
  exact applyTxFE_armed _ _ _ _ _ _ _ _ h

/-- the same for a single message / a list of sub-messages of any contract, at every fuel -/
theorem fault_fails_msg (fuel k : Nat) (w : World) (s : Nat) (m : Msg) (w' : World) (ev : Ev) (n' : Option Nat)
    (h : execMsgF fuel (some k) w s m = .ok (w', ev, n')) :
    (∃ j, n' = some j) ∧ execMsg fuel w s m = .ok (w', ev) :=
  (exec_armed fuel).1 _ _ _ _ _ _ _ h

theorem fault_fails_subs (fuel k : Nat) (w : World) (c : Nat) (subs : List SubMsg) (w' : World) (n' : Option Nat)
    (h : execSubsF fuel (some k) w c subs = .ok (w', n')) :
    (∃ j, n' = some j) ∧ execSubs fuel w c subs = .ok w' :=
  (exec_armed fuel).2 _ _ _ _ _ _ h

/-- every transaction is all-or-nothing under any single injected failure -/
theorem tx_atomic_under_fault (k : Nat) (w : World) (env : Env) (s : Nat) (f : Engine.Funds) (tx : Tx) :
    (∃ w' j, applyTxF (some k) w env s f tx = .ok (w', some j) ∧ applyTx w env s f tx = .ok w')
    ∨ (∃ e, applyTxF (some k) w env s f tx = .error e) := by
  cases h : applyTxF (some k) w env s f tx with
  | error e => exact .inr ⟨e, rfl⟩
  | ok r =>
    obtain ⟨w', n'⟩ := r
    obtain ⟨⟨j, rfl⟩, h'⟩ := fault_fails_tx _ _ _ _ _ _ _ _ h
    exact .inl ⟨w', j, rfl, h'⟩

/-- every engine transaction is all-or-nothing under any single injected failure: either the fault is not
    reached and the outcome is the normal one, or the call fails and (via `World.step`) nothing changes -/
theorem engine_tx_atomic_under_fault (k : Nat) (w : World) (env : Env) (s : Nat) (f : Engine.Funds) (m : Engine.ExecMsg) :
    (∃ w' j, applyTxF (some k) w env s f (.engine m) = .ok (w', some j) ∧ applyTx w env s f (.engine m) = .ok w')
    ∨ (∃ e, applyTxF (some k) w env s f (.engine m) = .error e) :=
  tx_atomic_under_fault k w env s f (.engine m)

/-- in the words of the property: under an injected failure the world after the step is either the world of
    the un-instrumented step, or the unchanged world (only the clock moves, as for every failed transaction) -/
theorem stepF_atomic (k : Nat) (w : World) (env : Env) (s : Nat) (f : Engine.Funds) (tx : Tx) :
    stepF (some k) w env s f tx = step w env s f tx
    ∨ stepF (some k) w env s f tx = { w with env := env, log := [] } := by
  unfold stepF step
  rcases tx_atomic_under_fault k w env s f tx with ⟨w', j, h1, h2⟩ | ⟨e, h⟩
  · left; rw [h1, h2]
  · right; rw [h]

/-! ### the exact failure profile: the first `c` fault points fail, the others are not reached -/

/-- `F k` (the run with the fault armed at `k`) fails for `k < c` and returns `a` with countdown `k - c` for `k ≥ c` -/
def Profile {α : Type} (F : Nat → Except FErr (α × Option Nat)) (a : α) (c : Nat) : Prop :=
  (∀ k, k < c → ∃ e, F k = .error e) ∧ (∀ k, c ≤ k → F k = .ok (a, some (k - c)))

/-- run `G` on the result and the countdown of a successful `r` -/
def seqF {α β : Type} (r : Except FErr (α × Option Nat)) (G : α → Option Nat → Except FErr (β × Option Nat)) :
    Except FErr (β × Option Nat) :=
  match r with
  | .ok (a', n) => G a' n
  | .error e => .error e

theorem Profile.seq {α β : Type} {F : Nat → Except FErr (α × Option Nat)} {G : α → Option Nat → Except FErr (β × Option Nat)}
    {a : α} {b : β} {c1 c2 : Nat} (h1 : Profile F a c1) (h2 : Profile (fun k => G a (some k)) b c2) :
    Profile (fun k => seqF (F k) G) b (c1 + c2) := by
  unfold seqF
  constructor
  · intro k hk
    by_cases hk1 : k < c1
    · obtain ⟨e, he⟩ := h1.1 k hk1
      exact ⟨e, by simp only [he]⟩
    · have hk1 : c1 ≤ k := Nat.le_of_not_lt hk1
      obtain ⟨e, he⟩ := h2.1 (k - c1) (by omega)
      exact ⟨e, by simp only [h1.2 k hk1]; exact he⟩
  · intro k hk
    have hk1 : c1 ≤ k := by omega
    simp only [h1.2 k hk1]
    have := h2.2 (k - c1) (by omega)
    simp only [] at this
    rw [this, Nat.sub_sub]

theorem subsF_head_error (fuel : Nat) (n : Option Nat) (w : World) (c : Nat) (s : SubMsg) (rest : List SubMsg)
    (e : FErr) (hx : execMsgF fuel n w c s.msg = .error e) :
    ∃ e', execSubsF (fuel + 1) n w c (s :: rest) = .error e' := by
  obtain ⟨err, n1⟩ := e
  unfold execSubsF
  simp only [hx, Engine.replyErr]
  split
  · split <;> exact ⟨_, rfl⟩
  · exact ⟨_, rfl⟩

theorem exec_profile (fuel : Nat) :
    (∀ w s m w' ev, execMsg fuel w s m = .ok (w', ev) →
        ∃ c, (∀ k, k < c → ∃ e, execMsgF fuel (some k) w s m = .error e)
           ∧ (∀ k, c ≤ k → execMsgF fuel (some k) w s m = .ok (w', ev, some (k - c))))
    ∧ (∀ w c subs w', execSubs fuel w c subs = .ok w' →
        ∃ cnt, Profile (fun k => execSubsF fuel (some k) w c subs) w' cnt) := by
  induction fuel with
  | zero =>
    constructor
    · intro w s m w' ev h; unfold execMsg at h; cases h
    · intro w c subs w' h; unfold execSubs at h; cases h
  | succ fuel ih =>
    constructor
    · intro w s m w' ev h
      by_cases hm : ∀ amt, m ≠ .ifWithdraw amt
      · refine ⟨1, ?_, ?_⟩
        · intro k hk
          have : k = 0 := by omega
          subst this
          rw [execMsgF_leaf _ _ _ _ _ hm]
          exact ⟨_, rfl⟩
        · intro k hk
          obtain ⟨k', rfl⟩ : ∃ k', k = k' + 1 := ⟨k - 1, by omega⟩
          rw [execMsgF_leaf _ _ _ _ _ hm, h]
          simp [tick, tagM]
      · have : ∃ amt, m = .ifWithdraw amt := by
          cases m <;> first | exact ⟨_, rfl⟩ | exact absurd (fun _ => Msg.noConfusion) hm
        obtain ⟨amt, rfl⟩ := this
        unfold execMsg at h
        simp only [] at h
        by_cases g1 : w.engine.cfg.insuranceFund ≠ IFUND
        · rw [if_pos g1] at h; cases h
        rw [if_neg g1] at h
        by_cases g2 : s ≠ w.ifund.engine
        · rw [if_pos g2] at h; cases h
        rw [if_neg g2] at h
        generalize hsub : (if w.engine.cfg.native = true then
            ({ msg := Msg.bankSend w.ifund.engine amt, id := 0, replyOn := ReplyOn.never } : SubMsg)
          else { msg := Msg.tokenTransfer w.ifund.engine amt, id := 0, replyOn := ReplyOn.never }) = sub at h
        cases h3 : execSubs fuel w IFUND [sub] with
        | error e => rw [h3] at h; cases h
        | ok w3 =>
          rw [h3] at h
          simp only [bind, Except.bind, pure, Except.pure] at h
          injection h with h
          injection h with ha hb
          subst ha hb
          obtain ⟨c', hp⟩ := ih.2 _ _ _ _ h3
          have hF : ∀ k, execMsgF (fuel + 1) (some (k + 1)) w s (Msg.ifWithdraw amt)
              = match execSubsF fuel (some k) w IFUND [sub] with
                | .ok (w', n2) => .ok (w', .none, n2)
                | .error e => .error e := by
            intro k
            unfold execMsgF
            rw [if_neg (by simp)]
            simp only [tick, Option.map_some, Nat.pred_succ]
            rw [if_neg g1, if_neg g2, hsub]
            rfl
          refine ⟨c' + 1, ?_, ?_⟩
          · intro k hk
            cases k with
            | zero => unfold execMsgF; exact ⟨_, rfl⟩
            | succ k =>
              obtain ⟨e, he⟩ := hp.1 k (by omega)
              simp only [] at he
              rw [hF, he]
              exact ⟨_, rfl⟩
          · intro k hk
            obtain ⟨k', rfl⟩ : ∃ k', k = k' + 1 := ⟨k - 1, by omega⟩
            have := hp.2 k' (by omega)
            simp only [] at this
            rw [hF, this, Nat.add_sub_add_right]
    · intro w c subs w' h
      unfold execSubs at h
      cases subs with
      | nil =>
        simp only [] at h
        injection h with h
        subst h
        refine ⟨0, ?_, ?_⟩
        · intro k hk; omega
        · intro k _; unfold execSubsF; rfl
      | cons s rest =>
        simp only [] at h
        cases hx : execMsg fuel w c s.msg with
        | error err =>
          simp only [hx, Engine.replyErr] at h
          split at h
          · split at h <;> cases h
          · cases h
        | ok r =>
          obtain ⟨w1, ev⟩ := r
          simp only [hx] at h
          obtain ⟨c1, hlt, hge⟩ := ih.1 _ _ _ _ _ hx
          -- the continuation after the head, as a function of the countdown
          have key : ∀ (G : Option Nat → Except FErr (World × Option Nat)) (c2 : Nat),
              (∀ k, execMsgF fuel (some k) w c s.msg = .ok (w1, ev, some (k - c1)) →
                  execSubsF (fuel + 1) (some k) w c (s :: rest) = G (some (k - c1))) →
              Profile (fun k => G (some k)) w' c2 →
              Profile (fun k => execSubsF (fuel + 1) (some k) w c (s :: rest)) w' (c1 + c2) := by
            intro G c2 hG hp
            constructor
            · intro k hk
              by_cases hk1 : k < c1
              · obtain ⟨e, he⟩ := hlt k hk1
                exact subsF_head_error _ _ _ _ _ _ _ he
              · have hk1 : c1 ≤ k := Nat.le_of_not_lt hk1
                obtain ⟨e, he⟩ := hp.1 (k - c1) (by omega)
                exact ⟨e, by simp only [hG k (hge k hk1)]; exact he⟩
            · intro k hk
              have hk1 : c1 ≤ k := by omega
              simp only [hG k (hge k hk1)]
              have := hp.2 (k - c1) (by omega)
              simp only [] at this
              rw [this, Nat.sub_sub]
          by_cases h1 : s.replyOn = ReplyOn.always ∨ s.replyOn = ReplyOn.success
          · simp only [h1, if_true] at h
            by_cases h2 : c = ENGINE
            case neg => simp only [ne_eq, h2, not_false_eq_true, if_true] at h; cases h
            case pos =>
              simp only [ne_eq, h2, not_true_eq_false, if_false] at h
              cases hr : Engine.replyOk w1.q w1.engine w1.env s.id ev with
              | error e => simp only [hr] at h; cases h
              | ok r2 =>
                obtain ⟨e2, subs2⟩ := r2
                simp only [hr] at h
                cases h3 : execSubs fuel { w1 with engine := e2 } ENGINE subs2 with
                | error e => simp only [h3] at h; cases h
                | ok w3 =>
                  simp only [h3] at h
                  obtain ⟨c2, hp2⟩ := ih.2 _ _ _ _ h3
                  obtain ⟨c3, hp3⟩ := ih.2 _ _ _ _ h
                  have hp := Profile.seq (G := fun w3 n3 => execSubsF fuel n3 w3 ENGINE rest) hp2 hp3
                  refine ⟨c1 + (c2 + c3), ?_⟩
                  subst h2
                  refine key (fun n1 => seqF (execSubsF fuel n1 { w1 with engine := e2 } ENGINE subs2)
                      (fun w3 n3 => execSubsF fuel n3 w3 ENGINE rest)) _ ?_ hp
                  intro k hk
                  conv => lhs; unfold execSubsF
                  simp only [hk, h1, if_true, ne_eq, not_true_eq_false, if_false, hr]
                  generalize execSubsF fuel (some (k - c1)) _ ENGINE subs2 = r
                  rcases r with e | ⟨w3, n3⟩ <;> rfl
          · simp only [h1, if_false] at h
            obtain ⟨c3, hp3⟩ := ih.2 _ _ _ _ h
            refine ⟨c1 + c3, key (fun n1 => execSubsF fuel n1 w1 c rest) _ ?_ hp3⟩
            intro k hk
            conv => lhs; unfold execSubsF
            simp only [hk, h1, if_false]

theorem Profile.congr {α : Type} {F F' : Nat → Except FErr (α × Option Nat)} {a : α} {c : Nat}
    (hF : ∀ k, F k = F' k) (h : Profile F' a c) : Profile F a c :=
  ⟨fun k hk => by rw [hF]; exact h.1 k hk, fun k hk => by rw [hF]; exact h.2 k hk⟩

theorem subsF_profile (w : World) (c : Nat) (subs : List SubMsg) (w' : World)
    (h : execSubs FUEL w c subs = .ok w') : ∃ cnt, Profile (fun k => execSubsF FUEL (some k) w c subs) w' cnt :=
  (exec_profile FUEL).2 _ _ _ _ h

theorem msgF_profile (w : World) (s : Nat) (m : Msg) (w' : World)
    (h : (execMsg FUEL w s m).map (·.1) = .ok w') : ∃ cnt, Profile (fun k => msgF (some k) w s m) w' cnt := by
  rw [Dispatch.exmap_ok] at h
  obtain ⟨⟨w1, ev⟩, hx, rfl⟩ := h
  obtain ⟨c, hlt, hge⟩ := (exec_profile FUEL).1 _ _ _ _ _ hx
  refine ⟨c, fun k hk => ?_, fun k hk => ?_⟩
  · obtain ⟨e, he⟩ := hlt k hk
    exact ⟨e, by simp only [msgF, he]⟩
  · simp only [msgF, hge k hk]

theorem applyTxFE_profile (w : World) (env : Env) (s : Nat) (f : Engine.Funds) (tx : Tx) (w' : World)
    (h : applyTx w env s f tx = .ok w') :
    ∃ cnt, Profile (fun k => applyTxFE (some k) w env s f tx) w' cnt := by
  have other : (∀ k, applyTxFE (some k) w env s f tx
        = liftE (some k) ((applyTx w env s f tx).map (fun w' => (w', some k)))) →
      ∃ cnt, Profile (fun k => applyTxFE (some k) w env s f tx) w' cnt := by
    intro hk
    refine ⟨0, fun k hk => absurd hk (Nat.not_lt_zero _), fun k _ => ?_⟩
    simp only [hk, h]
    rfl
  cases tx with
  | engine m =>
    unfold applyTx at h
    simp only [] at h
    by_cases hc : w.engine.cfg.native = true ∧ f.amount ≠ 0
    · rw [if_pos hc] at h
      cases hm : (execMsg FUEL { w with env := env, log := [] } s (Msg.bankSend ENGINE f.amount)).map (·.1) with
      | error e => simp only [hm, bind, Except.bind] at h; cases h
      | ok w1 =>
        simp only [hm, bind, Except.bind] at h
        obtain ⟨c1, hp1⟩ := msgF_profile _ _ _ _ hm
        cases hx : Engine.execute w1.q w1.engine env s f m with
        | error e => rw [hx] at h; cases h
        | ok r2 =>
          rw [hx] at h
          obtain ⟨c2, hp2⟩ := subsF_profile _ _ _ _ h
          have hp := Profile.seq (G := fun w1 n => match Engine.execute w1.q w1.engine env s f m with
              | .ok (e', subs) => execSubsF FUEL n { w1 with engine := e' } ENGINE subs
              | .error e => .error (e, n)) hp1 (by simp only [hx]; exact hp2)
          refine ⟨c1 + c2, Profile.congr (fun k => ?_) hp⟩
          unfold applyTxFE msgF seqF
          simp only []
          rw [if_pos hc]
          generalize execMsgF FUEL (some k) _ s (Msg.bankSend ENGINE f.amount) = r
          rcases r with e | ⟨w3, ev3, n3⟩ <;> rfl
    · rw [if_neg hc] at h
      simp only [bind, Except.bind, pure, Except.pure] at h
      cases hx : Engine.execute _ _ env s f m with
      | error e => rw [hx] at h; cases h
      | ok r2 =>
        rw [hx] at h
        obtain ⟨c2, hp2⟩ := subsF_profile _ _ _ _ h
        refine ⟨c2, Profile.congr (fun k => ?_) hp2⟩
        unfold applyTxFE
        simp only []
        rw [if_neg hc]
        simp only [hx]
  | vammSwapInput v dir amt lim cgo => exact msgF_profile _ _ _ _ h
  | vammSwapOutput v dir amt lim => exact msgF_profile _ _ _ _ h
  | vammSettle v => exact msgF_profile _ _ _ _ h
  | vammSetOpen v o => exact msgF_profile _ _ _ _ h
  | ifWithdraw amt => exact msgF_profile _ _ _ _ h
  | ifShutdown =>
    unfold applyTx at h
    simp only [] at h
    split at h
    · cases h
    rename_i g1
    split at h
    · cases h
    rename_i g2
    obtain ⟨c, hp⟩ := subsF_profile _ _ _ _ h
    refine ⟨c, Profile.congr (fun k => ?_) hp⟩
    unfold applyTxFE
    simp only []
    rw [if_neg g1, if_neg g2]
  | fpSend tok amt to =>
    unfold applyTx at h
    simp only [] at h
    split at h
    · cases h
    rename_i g1
    split at h
    · cases h
    rename_i g2
    split at h
    · cases h
    rename_i g3
    split at h
    · cases h
    rename_i g4
    split at h
    · cases h
    rename_i g5
    obtain ⟨c, hp⟩ := subsF_profile _ _ _ _ h
    refine ⟨c, Profile.congr (fun k => ?_) hp⟩
    unfold applyTxFE
    simp only []
    rw [if_neg g1, if_neg g2, if_neg g3, if_neg g4, if_neg g5]
  | tokenTransfer to amt =>
    unfold applyTx at h
    simp only [] at h
    split at h
    · cases h
    rename_i g1
    obtain ⟨c, hp⟩ := msgF_profile _ _ _ _ h
    refine ⟨c, Profile.congr (fun k => ?_) hp⟩
    unfold applyTxFE
    simp only []
    rw [if_neg g1]
    rfl
  | bankSend to amt =>
    unfold applyTx at h
    simp only [] at h
    split at h
    · cases h
    rename_i g1
    obtain ⟨c, hp⟩ := msgF_profile _ _ _ _ h
    refine ⟨c, Profile.congr (fun k => ?_) hp⟩
    unfold applyTxFE
    simp only []
    rw [if_neg g1]
    rfl
  | _ => exact other (fun k => rfl)

/-- the exact failure profile of a successful transaction: it dispatches some number `cnt` of messages; a
    failure injected at ANY of them (`k < cnt`) fails the whole transaction, and a fault armed beyond them
    (`k ≥ cnt`) is not reached — the normal result, with the countdown `k - cnt` still armed -/
theorem fault_profile (w : World) (env : Env) (s : Nat) (f : Engine.Funds) (tx : Tx) (w' : World)
    (h : applyTx w env s f tx = .ok w') :
    ∃ cnt, (∀ k, k < cnt → ∃ e, applyTxF (some k) w env s f tx = .error e)
         ∧ (∀ k, cnt ≤ k → applyTxF (some k) w env s f tx = .ok (w', some (k - cnt))) := by
  obtain ⟨cnt, hlt, hge⟩ := applyTxFE_profile w env s f tx w' h
  refine ⟨cnt, fun k hk => ?_, fun k hk => ?_⟩
  · obtain ⟨e, he⟩ := hlt k hk
    simp only [] at he
    exact ⟨e.1, by unfold applyTxF; rw [he]; rfl⟩
  · have := hge k hk
    simp only [] at this
    unfold applyTxF; rw [this]; rfl

/-- a transaction that fails without a fault fails with every fault too -/
theorem fault_keeps_failure (k : Nat) (w : World) (env : Env) (s : Nat) (f : Engine.Funds) (tx : Tx) (e : Err)
    (h : applyTx w env s f tx = .error e) : ∃ e', applyTxF (some k) w env s f tx = .error e' := by
  cases h' : applyTxF (some k) w env s f tx with
  | error e' => exact ⟨e', rfl⟩
  | ok r =>
    obtain ⟨w', n'⟩ := r
    have := (fault_fails_tx _ _ _ _ _ _ _ _ h').2
    rw [h] at this; cases this

/-! ### non-vacuity (kernel-evaluated)

  A correctly wired deployment (cw20 collateral) whose vAMM charges a toll of 0.1 % and a spread of 0.2 %.
  User 100 opens a 10x long with 60 of margin.  The message tree has FOUR dispatched messages:
    0. engine → vAMM `SwapInput`                         (reply id 1)
    1. engine → token `TransferFrom` 100 → engine, 60    (the margin)
    2. engine → token `TransferFrom` 100 → fund, 1.2     (the spread)
    3. engine → token `TransferFrom` 100 → fee pool, 0.6 (the toll)
  A failure injected at message 0, 1, 2 or 3 fails the whole transaction; a fault armed for message 4 or
  message 10 is never reached: the result is the normal one and the countdown is still armed. -/

open Perp.Props.SatEWitness in
def vFee : Vamm.V :=
  { cfg := { vcfg 0 1800 with toll := 10^3, spread := 2 * 10^3 },
    st := { isOpen := true, quote := 10000 * D, base := 1000 * D, net := Integer.zero,
            fundingRate := Integer.zero, nextFunding := 0, snaps := [⟨10000 * D, 1000 * D, 0, 1⟩] } }

open Perp.Props.SatEWitness in
def wFee : World := world (eng false (5 * 10^4) (25 * 10^4) []) vFee

open Perp.Props.SatEWitness in
def openTx : Tx := .engine (.openPosition 10 .buy (60 * D) (10 * D) 0)

def errOf {α : Type} (r : Except Err α) : Option Err :=
  match r with
  | .ok _ => none
  | .error e => some e

set_option maxRecDepth 100000 in
/-- the un-instrumented transaction succeeds and moves the margin, the spread and the toll -/
theorem nonvac_normal :
    ((applyTx wFee ⟨2, 1000⟩ 100 ⟨0, false⟩ openTx).toOption.map (·.log))
      = some [(100, ENGINE, 60000000), (100, IFUND, 1200000), (100, FEEPOOL, 600000)] := by
  decide +kernel

set_option maxRecDepth 100000 in
/-- a failure injected at any of the four dispatched messages fails the transaction (the vAMM swap's failure
    surfaces as the engine's reply error `subcall 1`, a failed transfer as `subcall 9`) -/
theorem nonvac_fault_fails :
    errOf (applyTxF (some 0) wFee ⟨2, 1000⟩ 100 ⟨0, false⟩ openTx) = some (.subcall 1)
    ∧ errOf (applyTxF (some 1) wFee ⟨2, 1000⟩ 100 ⟨0, false⟩ openTx) = some (.subcall 9)
    ∧ errOf (applyTxF (some 2) wFee ⟨2, 1000⟩ 100 ⟨0, false⟩ openTx) = some (.subcall 9)
    ∧ errOf (applyTxF (some 3) wFee ⟨2, 1000⟩ 100 ⟨0, false⟩ openTx) = some (.subcall 9) := by
  decide +kernel

set_option maxRecDepth 100000 in
/-- a fault armed beyond the last dispatched message is not reached: the normal result, countdown still armed
    (four messages were counted) -/
theorem nonvac_fault_not_reached :
    (applyTxF (some 4) wFee ⟨2, 1000⟩ 100 ⟨0, false⟩ openTx).toOption
      = (applyTx wFee ⟨2, 1000⟩ 100 ⟨0, false⟩ openTx).toOption.map (fun w' => (w', some 0))
    ∧ (applyTxF (some 10) wFee ⟨2, 1000⟩ 100 ⟨0, false⟩ openTx).toOption
      = (applyTx wFee ⟨2, 1000⟩ 100 ⟨0, false⟩ openTx).toOption.map (fun w' => (w', some 6))
    ∧ (applyTxF none wFee ⟨2, 1000⟩ 100 ⟨0, false⟩ openTx).toOption
      = (applyTx wFee ⟨2, 1000⟩ 100 ⟨0, false⟩ openTx).toOption.map (fun w' => (w', none))
    ∧ (applyTx wFee ⟨2, 1000⟩ 100 ⟨0, false⟩ openTx).toOption.isSome = true := by
  decide +kernel

set_option maxRecDepth 100000 in
/-- under the failed injections the step leaves every contract's storage and every balance as before -/
theorem nonvac_step_unchanged :
    stepF (some 2) wFee ⟨2, 1000⟩ 100 ⟨0, false⟩ openTx = { wFee with env := ⟨2, 1000⟩, log := [] }
    ∧ stepF (some 10) wFee ⟨2, 1000⟩ 100 ⟨0, false⟩ openTx = step wFee ⟨2, 1000⟩ 100 ⟨0, false⟩ openTx
    ∧ step wFee ⟨2, 1000⟩ 100 ⟨0, false⟩ openTx ≠ { wFee with env := ⟨2, 1000⟩, log := [] } := by
  decide +kernel

set_option maxRecDepth 100000 in
/-- nested counting: a withdrawal from the insurance fund (called by the engine's address) is dispatched
    message 0, the token transfer the fund itself dispatches is message 1; a failure at either fails the call,
    a fault armed at 2 is not reached -/
theorem nonvac_ifWithdraw :
    errOf (applyTxF (some 0) wFee ⟨2, 1000⟩ ENGINE ⟨0, false⟩ (.ifWithdraw 5)) = some FAULT
    ∧ errOf (applyTxF (some 1) wFee ⟨2, 1000⟩ ENGINE ⟨0, false⟩ (.ifWithdraw 5)) = some FAULT
    ∧ (applyTxF (some 2) wFee ⟨2, 1000⟩ ENGINE ⟨0, false⟩ (.ifWithdraw 5)).toOption
      = (applyTx wFee ⟨2, 1000⟩ ENGINE ⟨0, false⟩ (.ifWithdraw 5)).toOption.map (fun w' => (w', some 0))
    ∧ ((applyTx wFee ⟨2, 1000⟩ ENGINE ⟨0, false⟩ (.ifWithdraw 5)).toOption.map (·.log))
      = some [(IFUND, ENGINE, 5)] := by
  decide +kernel

end Perp.Props.FaultAtomic
