/-
  C18 (vAMM part) — TWAPs stay within observed prices; snapshot discipline.
  Statements were fixed before the proofs were written.
-/
import Perp.Model.VammRun
import Perp.Spec.Vamm
import Perp.Lemmas.Basic

namespace Perp.Props.C18
open Perp Perp.Vamm Perp.Spec.C18

/-- timestamps non-increasing along the (newest-first) list and not in the future -/
def TimeOrdered (now : Nat) : List Snapshot → Prop
  | [] => True
  | s :: rest => s.timestamp ≤ now ∧ TimeOrdered s.timestamp rest

/-! #### arithmetic helpers -/

theorem lower_step (L p d period weighted : Nat) (hp : L ≤ p) (hw : L * period ≤ weighted) :
    L * (period + d) ≤ weighted + p * d := by
  rw [Nat.mul_add]
  exact Nat.add_le_add hw (Nat.mul_le_mul_right d hp)

theorem upper_step (U p d period weighted : Nat) (hp : p ≤ U) (hw : weighted ≤ U * period) :
    weighted + p * d ≤ U * (period + d) := by
  rw [Nat.mul_add]
  exact Nat.add_le_add hw (Nat.mul_le_mul_right d hp)

theorem div_lower (L x W : Nat) (hW : W ≠ 0) (h : L * W ≤ x) : L ≤ x / W :=
  (Nat.le_div_iff_mul_le (Nat.pos_of_ne_zero hW)).2 h

theorem div_upper (U x W : Nat) (h : x ≤ U * W) : x / W ≤ U :=
  Nat.div_le_of_le_mul (by rw [Nat.mul_comm]; exact h)

@[simp] theorem ite_error_ok_iff {α : Type} (c : Prop) [Decidable c] (e : Err) (x : Except Err α)
    (r : α) : (if c then Except.error e else x) = .ok r ↔ ¬ c ∧ x = .ok r := by
  by_cases hc : c <;> simp [hc]

theorem exceptMap_ok_iff {α β : Type} (f : α → β) (x : Except Err α) (r : β) :
    Except.map f x = .ok r ↔ ∃ v, x = .ok v ∧ f v = r := by
  cases x <;> simp [Except.map]

/-! #### the reserve price of a snapshot -/

theorem snapPrice_reserve_ok {D : Nat} {s : Snapshot} {p : Nat}
    (h : snapPrice D .reserve s = .ok p) : p = price D s := by
  unfold snapPrice priceOf at h
  simp at h
  obtain ⟨x, ⟨_, hx⟩, _, hp⟩ := h
  subst hx hp
  rfl

/-! #### loop invariant -/

theorem twapLoop_bounds (D baseTs interval now : Nat) (hb : baseTs + interval = now) :
    ∀ (l : List Snapshot) (prevTs period weighted r : Nat),
      prevTs + period = now →
      twapLoop D .reserve baseTs interval l prevTs period weighted = .ok r →
      (∀ L, (∀ s ∈ inEffect baseTs l, L ≤ price D s) → L * period ≤ weighted → L ≤ r) ∧
      (∀ U, (∀ s ∈ inEffect baseTs l, price D s ≤ U) → weighted ≤ U * period → r ≤ U) := by
  intro l
  induction l with
  | nil =>
    intro prevTs period weighted r _ h
    unfold twapLoop at h
    simp at h
    obtain ⟨hW, hr⟩ := h
    subst hr
    exact ⟨fun L _ hw => div_lower L weighted period hW hw,
           fun U _ hw => div_upper U weighted period hw⟩
  | cons s rest ih =>
    intro prevTs period weighted r hnow h
    unfold twapLoop at h
    simp at h
    obtain ⟨p, hp, h⟩ := h
    have hpe := snapPrice_reserve_ok hp
    subst hpe
    by_cases hts : s.timestamp ≤ baseTs
    · simp [hts] at h
      obtain ⟨hge, _, _, hI, hr⟩ := h
      have hW : period + (prevTs - baseTs) = interval := by omega
      have heff : inEffect baseTs (s :: rest) = [s] := by simp [inEffect, hts]
      subst hr
      refine ⟨fun L hL hw => ?_, fun U hU hw => ?_⟩
      · have hLs : L ≤ price D s := hL s (by rw [heff]; simp)
        apply div_lower _ _ _ hI
        have := lower_step L (price D s) (prevTs - baseTs) period weighted hLs hw
        rw [hW] at this
        exact this
      · have hUs : price D s ≤ U := hU s (by rw [heff]; simp)
        apply div_upper
        have := upper_step U (price D s) (prevTs - baseTs) period weighted hUs hw
        rw [hW] at this
        exact this
    · simp [hts] at h
      obtain ⟨hge, _, _, _, h⟩ := h
      have heff : inEffect baseTs (s :: rest) = s :: inEffect baseTs rest := by
        simp [inEffect, hts]
      have hnow' : s.timestamp + (period + (prevTs - s.timestamp)) = now := by omega
      obtain ⟨ihL, ihU⟩ := ih _ _ _ _ hnow' h
      refine ⟨fun L hL hw => ?_, fun U hU hw => ?_⟩
      · rw [heff] at hL
        exact ihL L (fun t ht => hL t (List.mem_cons_of_mem _ ht))
          (lower_step L _ _ _ _ (hL s (by simp)) hw)
      · rw [heff] at hU
        exact ihU U (fun t ht => hU t (List.mem_cons_of_mem _ ht))
          (upper_step U _ _ _ _ (hU s (by simp)) hw)

theorem calcTwap_bounds (D : Nat) (snaps : List Snapshot) (env : Env) (interval r : Nat)
    (hi : interval ≠ 0) (h : calcTwap D snaps env .reserve interval = .ok r) :
    (∀ L, (∀ s ∈ inEffect (env.time - interval) snaps, L ≤ price D s) → L ≤ r) ∧
    (∀ U, (∀ s ∈ inEffect (env.time - interval) snaps, price D s ≤ U) → r ≤ U) := by
  cases snaps with
  | nil => simp [calcTwap] at h
  | cons s rest =>
    unfold calcTwap at h
    simp [hi] at h
    obtain ⟨cur, hcur, hle, h⟩ := h
    have hpe := snapPrice_reserve_ok hcur
    subst hpe
    · 
      by_cases hc : rest = [] ∨ s.timestamp ≤ env.time - interval
      · simp [hc] at h
        subst h
        have hmem : s ∈ inEffect (env.time - interval) (s :: rest) := by
          rcases hc with hc | hc
          · subst hc; simp [inEffect]
          · simp [inEffect, hc]
        exact ⟨fun L hL => hL s hmem, fun U hU => hU s hmem⟩
      · simp [hc] at h
        have hc2 : ¬ s.timestamp ≤ env.time - interval := fun h' => hc (Or.inr h')
        obtain ⟨hge, w, ⟨_, hw⟩, h⟩ := h
        subst hw
        have heff : inEffect (env.time - interval) (s :: rest)
            = s :: inEffect (env.time - interval) rest := by
          simp [inEffect, hc2]
        obtain ⟨ihL, ihU⟩ := twapLoop_bounds D (env.time - interval) interval env.time
          (by omega) rest s.timestamp (env.time - s.timestamp) _ r (by omega) h
        refine ⟨fun L hL => ?_, fun U hU => ?_⟩
        · rw [heff] at hL
          exact ihL L (fun t ht => hL t (List.mem_cons_of_mem _ ht))
            (Nat.mul_le_mul_right _ (hL s (by simp)))
        · rw [heff] at hU
          exact ihU U (fun t ht => hU t (List.mem_cons_of_mem _ ht))
            (Nat.mul_le_mul_right _ (hU s (by simp)))

/-- the reserve TWAP lies between the lowest and the highest spot price in effect in the window
    (whole history if shorter) -/
theorem calcTwap_within (D : Nat) (snaps : List Snapshot) (env : Env) (interval r : Nat)
    (hord : TimeOrdered env.time snaps) (hi : interval ≠ 0)
    (h : calcTwap D snaps env .reserve interval = .ok r) :
    twapWithin D snaps env.time interval r = true := by
  have _ := hord
  obtain ⟨hL, hU⟩ := calcTwap_bounds D snaps env interval r hi h
  unfold twapWithin
  simp only [Bool.and_eq_true, List.any_eq_true, decide_eq_true_eq]
  constructor
  · apply Classical.byContradiction
    intro hne
    have : r + 1 ≤ r := hL (r + 1) (fun s hs => by
      apply Classical.byContradiction
      intro hlt
      exact hne ⟨s, hs, by omega⟩)
    omega
  · apply Classical.byContradiction
    intro hne
    have hall : ∀ s ∈ inEffect (env.time - interval) snaps, price D s ≤ r - 1 ∧ 0 < r := by
      intro s hs
      apply Classical.byContradiction
      intro hlt
      exact hne ⟨s, hs, by omega⟩
    have hr1 : r ≤ r - 1 := hU (r - 1) (fun s hs => (hall s hs).1)
    cases snaps with
    | nil => simp [calcTwap] at h
    | cons s rest =>
      have hmem : ∃ t, t ∈ inEffect (env.time - interval) (s :: rest) := by
        by_cases hc : s.timestamp ≤ env.time - interval
        · exact ⟨s, by simp [inEffect, hc]⟩
        · exact ⟨s, by simp [inEffect, hc]⟩
      obtain ⟨t, ht⟩ := hmem
      have := (hall t ht).2
      omega

/-- with interval 0 the TWAP is the current spot price -/
theorem calcTwap_zero (D : Nat) (s : Snapshot) (rest : List Snapshot) (env : Env) (r : Nat)
    (h : calcTwap D (s :: rest) env .reserve 0 = .ok r) : r = price D s := by
  unfold calcTwap at h
  simp at h
  exact snapPrice_reserve_ok h

/-- if every price in effect is the same, the TWAP equals it -/
theorem calcTwap_const (D : Nat) (snaps : List Snapshot) (env : Env) (interval r p : Nat)
    (hord : TimeOrdered env.time snaps) (hi : interval ≠ 0)
    (hp : ∀ s ∈ inEffect (env.time - interval) snaps, price D s = p)
    (h : calcTwap D snaps env .reserve interval = .ok r) : r = p := by
  have _ := hord
  obtain ⟨hL, hU⟩ := calcTwap_bounds D snaps env interval r hi h
  have h1 := hL p (fun s hs => by rw [hp s hs]; exact Nat.le_refl _)
  have h2 := hU p (fun s hs => by rw [hp s hs]; exact Nat.le_refl _)
  omega

/-- snapshot discipline as an invariant of the vAMM state machine under a monotone chain clock -/
def SnapInv (v : V) (env : Env) : Prop := snapshotsOk v.st env = true

/-! #### snapshot-list helpers -/

/-- adjacent pairs strictly decreasing in height, non-increasing in time -/
def PairsOk : List Snapshot → Prop
  | [] => True
  | [_] => True
  | a :: b :: l => (b.height < a.height ∧ b.timestamp ≤ a.timestamp) ∧ PairsOk (b :: l)

theorem pairs_all_iff (l : List Snapshot) :
    (l.zip l.tail).all (fun p => decide (p.2.height < p.1.height) &&
      decide (p.2.timestamp ≤ p.1.timestamp)) = true ↔ PairsOk l := by
  induction l with
  | nil => simp [PairsOk]
  | cons a l ih =>
    cases l with
    | nil => simp [PairsOk]
    | cons b l =>
      simp only [List.tail_cons] at ih
      simp only [List.tail_cons, List.zip_cons_cons, List.all_cons, Bool.and_eq_true,
        decide_eq_true_eq, PairsOk, ih]

theorem snapshotsOk_iff (st : State) (env : Env) :
    snapshotsOk st env = true ↔
      ∃ s rest, st.snaps = s :: rest ∧ s.quote = st.quote ∧ s.base = st.base ∧
        s.height ≤ env.height ∧ s.timestamp ≤ env.time ∧ PairsOk (s :: rest) := by
  unfold snapshotsOk
  rw [Bool.and_eq_true, pairs_all_iff]
  cases hs : st.snaps with
  | nil => simp
  | cons s rest =>
    simp only [Bool.and_eq_true, beq_iff_eq, decide_eq_true_eq, List.cons.injEq]
    constructor
    · rintro ⟨⟨⟨⟨h1, h2⟩, h3⟩, h4⟩, h5⟩
      exact ⟨s, rest, ⟨rfl, rfl⟩, h1, h2, h3, h4, h5⟩
    · rintro ⟨s', rest', ⟨rfl, rfl⟩, h1, h2, h3, h4, h5⟩
      exact ⟨⟨⟨⟨h1, h2⟩, h3⟩, h4⟩, h5⟩

theorem snapshotsOk_mono (st st' : State) (env0 env : Env)
    (h : snapshotsOk st env0 = true) (hs : st'.snaps = st.snaps) (hq : st'.quote = st.quote)
    (hb : st'.base = st.base) (hh : env0.height ≤ env.height) (ht : env0.time ≤ env.time) :
    snapshotsOk st' env = true := by
  rw [snapshotsOk_iff] at h ⊢
  obtain ⟨s, rest, h0, h1, h2, h3, h4, h5⟩ := h
  exact ⟨s, rest, by rw [hs, h0], by rw [hq, h1], by rw [hb, h2],
    Nat.le_trans h3 hh, Nat.le_trans h4 ht, h5⟩

theorem snapshotsOk_add (st st' : State) (env0 env : Env)
    (h : snapshotsOk st env0 = true)
    (hs : st'.snaps = addSnapshot st.snaps env st'.quote st'.base)
    (hh : env0.height ≤ env.height) (ht : env0.time ≤ env.time) :
    snapshotsOk st' env = true := by
  rw [snapshotsOk_iff] at h ⊢
  obtain ⟨s, rest, h0, h1, h2, h3, h4, h5⟩ := h
  rw [h0] at hs
  unfold addSnapshot at hs
  by_cases hc : s.height = env.height
  · simp [hc] at hs
    refine ⟨_, _, hs, rfl, rfl, Nat.le_refl _, Nat.le_trans h4 ht, ?_⟩
    cases rest with
    | nil => simp [PairsOk]
    | cons b l =>
      simp only [PairsOk] at h5 ⊢
      rw [← hc]
      exact h5
  · simp [hc] at hs
    refine ⟨_, _, hs, rfl, rfl, Nat.le_refl _, Nat.le_refl _, ?_⟩
    simp only [PairsOk]
    exact ⟨⟨by omega, Nat.le_trans h4 ht⟩, h5⟩

/-! #### what each operation does to reserves and snapshots -/

theorem updateReserve_snaps (v v' : V) (env : Env) (dir : Direction) (qa ba : Nat) (cgo : Bool)
    (h : updateReserve v env dir qa ba cgo = .ok v') :
    v'.st.snaps = addSnapshot v.st.snaps env v'.st.quote v'.st.base := by
  unfold updateReserve at h
  simp at h
  obtain ⟨_, h⟩ := h
  cases dir <;> simp at h <;> obtain ⟨q, _, b, _, n, _, h⟩ := h <;> subst h <;> rfl

theorem swapInput_upd (v : V) (env : Env) (sender : Nat) (dir : Direction) (a l : Nat) (cgo : Bool)
    (r : V × SwapOut) (h : swapInput v env sender dir a l cgo = .ok r) :
    ∃ qa ba, updateReserve v env dir qa ba cgo = .ok r.1 := by
  unfold swapInput at h
  simp at h
  obtain ⟨_, _, h⟩ := h
  split at h
  · simp at h
    obtain ⟨v1, h1, h2⟩ := h
    subst h2
    exact ⟨_, _, h1⟩
  · simp at h
    obtain ⟨b, _, h⟩ := h
    repeat' split at h
    all_goals simp at h
    all_goals
      obtain ⟨v1, h1, h2⟩ := h
      subst h2
      exact ⟨_, _, h1⟩

theorem swapOutput_upd (v : V) (env : Env) (sender : Nat) (dir : Direction) (a l : Nat)
    (r : V × SwapOut) (h : swapOutput v env sender dir a l = .ok r) :
    ∃ d qa ba, updateReserve v env d qa ba true = .ok r.1 := by
  unfold swapOutput at h
  simp at h
  obtain ⟨_, _, h⟩ := h
  split at h
  · simp at h
    obtain ⟨v1, h1, h2⟩ := h
    subst h2
    exact ⟨_, _, _, h1⟩
  · simp at h
    obtain ⟨b, _, h⟩ := h
    repeat' split at h
    all_goals simp at h
    all_goals
      obtain ⟨v1, h1, h2⟩ := h
      subst h2
      exact ⟨_, _, _, h1⟩

theorem settleFunding_st (v : V) (env : Env) (sender : Nat) (o : Except Err Nat) (r : V × Integer)
    (h : settleFunding v env sender o = .ok r) :
    r.1.st.snaps = v.st.snaps ∧ r.1.st.quote = v.st.quote ∧ r.1.st.base = v.st.base := by
  unfold settleFunding at h
  simp at h
  obtain ⟨_, _, _, _, _, _, _, _, _, _, _, _, _, _, _, _, _, _, _, _, _, h⟩ := h
  subst h
  exact ⟨rfl, rfl, rfl⟩

theorem setOpen_st (v : V) (env : Env) (sender : Nat) (o : Bool) (r : V)
    (h : setOpen v env sender o = .ok r) :
    r.st.snaps = v.st.snaps ∧ r.st.quote = v.st.quote ∧ r.st.base = v.st.base := by
  unfold setOpen at h
  simp at h
  obtain ⟨_, h⟩ := h
  split at h
  · simp at h
    obtain ⟨_, _, h⟩ := h
    subst h
    exact ⟨rfl, rfl, rfl⟩
  · simp at h
    subst h
    exact ⟨rfl, rfl, rfl⟩

theorem updateConfig_st (v : V) (sender : Nat) (u : ConfigUpdate) (r : V)
    (h : updateConfig v sender u = .ok r) : r.st = v.st := by
  unfold updateConfig at h
  by_cases hs : sender ≠ v.cfg.owner
  · rw [if_pos hs] at h; cases h
  · rw [if_neg hs] at h
    extract_lets c0 c1 c2 c3 c4 j1 j2 j3 j4 at h
    have h1 : ∀ c r, j1 c = .ok r → r.st = v.st := by
      intro c r h; simp [j1] at h; subst h; rfl
    clear_value j1 c4
    have h2 : ∀ c r, j2 c = .ok r → r.st = v.st := by
      intro c r h
      simp only [j2] at h
      split at h
      · split at h
        · simp at h
        · simp at h; exact h1 _ _ h
      · simp at h; exact h1 _ _ h
    clear_value j2
    have h3 : ∀ c r, j3 c = .ok r → r.st = v.st := by
      intro c r h
      simp only [j3] at h
      split at h
      · simp at h; exact h2 _ _ h.2
      · simp at h; exact h2 _ _ h
    clear_value j3
    have h4 : ∀ c r, j4 c = .ok r → r.st = v.st := by
      intro c r h
      simp only [j4] at h
      split at h
      · simp at h; exact h3 _ _ h.2
      · simp at h; exact h3 _ _ h
    clear_value j4
    split at h
    · simp at h; exact h4 _ _ h.2
    · simp at h; exact h4 _ _ h

theorem updateOwner_st (v : V) (sender : Nat) (u : Nat) (r : V)
    (h : updateOwner v sender u = .ok r) : r.st = v.st := by
  unfold updateOwner at h
  split at h
  · cases h
  · injection h with h
    subst h
    rfl
theorem instantiate_snapInv (env : Env) (sender : Nat) (m : InstantiateMsg) (v : V)
    (h : instantiate env sender m = .ok v) : SnapInv v env := by
  unfold instantiate at h
  simp only [] at h
  split at h
  · cases h
  split at h
  · cases h
  split at h
  · cases h
  split at h
  · cases h
  injection h with h
  subst h
  simp [SnapInv, snapshotsOk]

/-- any accepted call at a block not earlier than the last one keeps the invariant: at most one
    snapshot per block, and the newest reflects the block's final reserves -/
theorem apply_snapInv (v v' : V) (c : Call) (env0 : Env)
    (hinv : SnapInv v env0) (hh : env0.height ≤ c.env.height) (ht : env0.time ≤ c.env.time)
    (h : apply v c = .ok v') : SnapInv v' c.env := by
  unfold SnapInv at hinv ⊢
  unfold apply at h
  cases hop : c.op with
  | swapInput dir amt lim cgo =>
    simp only [hop, exceptMap_ok_iff] at h
    obtain ⟨r, hr, hv⟩ := h
    subst hv
    obtain ⟨qa, ba, hu⟩ := swapInput_upd _ _ _ _ _ _ _ _ hr
    exact snapshotsOk_add _ _ _ _ hinv (updateReserve_snaps _ _ _ _ _ _ _ hu) hh ht
  | swapOutput dir amt lim =>
    simp only [hop, exceptMap_ok_iff] at h
    obtain ⟨r, hr, hv⟩ := h
    subst hv
    obtain ⟨d, qa, ba, hu⟩ := swapOutput_upd _ _ _ _ _ _ _ hr
    exact snapshotsOk_add _ _ _ _ hinv (updateReserve_snaps _ _ _ _ _ _ _ hu) hh ht
  | settle o =>
    simp only [hop, exceptMap_ok_iff] at h
    obtain ⟨r, hr, hv⟩ := h
    subst hv
    obtain ⟨h1, h2, h3⟩ := settleFunding_st _ _ _ _ _ hr
    exact snapshotsOk_mono _ _ _ _ hinv h1 h2 h3 hh ht
  | setOpen o =>
    simp [hop] at h
    obtain ⟨h1, h2, h3⟩ := setOpen_st _ _ _ _ _ h
    exact snapshotsOk_mono _ _ _ _ hinv h1 h2 h3 hh ht
  | updateConfig u =>
    simp [hop] at h
    have hst := updateConfig_st _ _ _ _ h
    exact snapshotsOk_mono _ _ _ _ hinv (by rw [hst]) (by rw [hst]) (by rw [hst]) hh ht
  | updateOwner n =>
    simp [hop] at h
    have hst := updateOwner_st _ _ _ _ h
    exact snapshotsOk_mono _ _ _ _ hinv (by rw [hst]) (by rw [hst]) (by rw [hst]) hh ht

/-- within one block a second trade overwrites the block's snapshot instead of adding one -/
theorem addSnapshot_same_block (s : Snapshot) (rest : List Snapshot) (env : Env) (q b : Nat)
    (h : s.height = env.height) :
    addSnapshot (s :: rest) env q b = ⟨q, b, s.timestamp, s.height⟩ :: rest := by
  simp [addSnapshot, h]

theorem addSnapshot_new_block (s : Snapshot) (rest : List Snapshot) (env : Env) (q b : Nat)
    (h : s.height ≠ env.height) :
    addSnapshot (s :: rest) env q b = ⟨q, b, env.time, env.height⟩ :: s :: rest := by
  simp [addSnapshot, h]

end Perp.Props.C18
