/-
  Measures of the transfer log used by C04 / C12 (collateral into / out of the fee pool and the
  insurance fund, number of fee-pool credits, engine → sender payout) and their values on the
  message shapes the engine's trading handlers emit.
-/
import Perp.Props.TxLog
import Perp.Props.TxMoney

namespace Perp.Props.TxFlow
open Perp Perp.World Perp.Engine
open Perp.Props.TxLog Perp.Props.TxMoney

/-- **Hypothesis of `sat_C04` / `sat_C12`** (kind (b), deployment wiring: the first two fields of
    `ModelStep.Wired`): the engine is configured to pay the spread to the deployment's insurance fund and
    the toll to the deployment's fee pool.  Legitimate because re-wiring is outside the properties'
    quantifiers.  Needed by every "…-not-exact" / "…-more-than-once" / "…-insurance-fund-delta" clause of
    C12 and by C04's `insurance-fund-drained-…`: the checks read balances at the *configured* addresses, so
    if the two coincide (with each other, the engine's vault or the fund's withdrawal address) the credit
    observed there is not the single fee.  Counterexample without it: `SatB.Need.need_pools_wired`
    (fee pool configured at the insurance fund's address; four C12 tags). -/
def PoolsWired (w : World) : Prop :=
  w.engine.cfg.insuranceFund = IFUND ∧ w.engine.cfg.feePool = FEEPOOL

/-- **Hypothesis of `sat_C04` / `sat_C12`** (kind (b): three conjuncts of `ModelStep.UserSender`): the
    sender is a user account, not the engine, the insurance fund or the fee pool.  Legitimate because the
    properties speak of traders.  `s ≠ FEEPOOL`: C12 `…-toll-not-exact`, `fee-charged-on-fee-free-operation`
    (`SatB.Need.need_sender_not_feepool`); `s ≠ IFUND`: C04 `insurance-fund-drained-…`, C12
    `…-insurance-fund-delta`, `…-spread-not-exact` (`SatB.Need.need_sender_not_ifund`); `s ≠ ENGINE`: C04
    `close-payout-not-equity` — attached native funds would be logged as ENGINE → sender
    (`SatB.Need.need_sender_not_engine`). -/
def Outside (s : Nat) : Prop := s ≠ ENGINE ∧ s ≠ IFUND ∧ s ≠ FEEPOOL

/-- entries of a list of engine-dispatched collateral messages -/
def ents (ms : List SubMsg) : List Xf := ms.map (fun m => xf m.msg)

theorem ents_append (a b : List SubMsg) : ents (a ++ b) = ents a ++ ents b := List.map_append
@[simp] theorem ents_nil : ents [] = [] := rfl
theorem ents_single (m : SubMsg) : ents [m] = [xf m.msg] := rfl

def toFP (L : List Xf) : Int := tot (fun x => x.2.1 == FEEPOOL) L
def frFP (L : List Xf) : Int := tot (fun x => x.1 == FEEPOOL) L
def toIF (L : List Xf) : Int := tot (fun x => x.2.1 == IFUND) L
def frIF (L : List Xf) : Int := tot (fun x => x.1 == IFUND) L
def nFP (L : List Xf) : Nat := cnt (fun x => x.2.1 == FEEPOOL) L
/-- paid by the engine to `s` -/
def pay (s : Nat) (L : List Xf) : Int := tot (fun x => x.1 == ENGINE && x.2.1 == s) L

/-- the five pool measures of a log -/
def Is (L : List Xf) (a b c d : Int) (n : Nat) : Prop :=
  toFP L = a ∧ frFP L = b ∧ toIF L = c ∧ frIF L = d ∧ nFP L = n

theorem Is_nil : Is [] 0 0 0 0 0 := by
  unfold Is toFP frFP toIF frIF nFP
  simp

theorem Is_append {A B : List Xf} {a b c d a' b' c' d' : Int} {n n' : Nat}
    (h1 : Is A a b c d n) (h2 : Is B a' b' c' d' n') : Is (A ++ B) (a + a') (b + b') (c + c') (d + d') (n + n') := by
  obtain ⟨x1, x2, x3, x4, x5⟩ := h1
  obtain ⟨y1, y2, y3, y4, y5⟩ := h2
  refine ⟨?_, ?_, ?_, ?_, ?_⟩
  · rw [← x1, ← y1]; exact tot_append _ A B
  · rw [← x2, ← y2]; exact tot_append _ A B
  · rw [← x3, ← y3]; exact tot_append _ A B
  · rw [← x4, ← y4]; exact tot_append _ A B
  · rw [← x5, ← y5]; exact cnt_append _ A B

theorem Is_cast {L : List Xf} {a b c d a' b' c' d' : Int} {n n' : Nat} (h : Is L a b c d n)
    (ha : a = a') (hb : b = b') (hc : c = c') (hd : d = d') (hn : n = n') : Is L a' b' c' d' n' := by
  subst ha hb hc hd hn; exact h

theorem Is_single (x : Xf) :
    Is [x] (if x.2.1 = FEEPOOL then (x.2.2 : Int) else 0) (if x.1 = FEEPOOL then (x.2.2 : Int) else 0)
      (if x.2.1 = IFUND then (x.2.2 : Int) else 0) (if x.1 = IFUND then (x.2.2 : Int) else 0)
      (if x.2.1 = FEEPOOL then 1 else 0) := by
  unfold Is toFP frFP toIF frIF nFP
  rw [tot_single, tot_single, tot_single, tot_single, cnt_single]
  simp only [beq_iff_eq, and_self]

theorem Is_plain (x y n : Nat) (h1 : x ≠ FEEPOOL) (h2 : y ≠ FEEPOOL) (h3 : x ≠ IFUND) (h4 : y ≠ IFUND) :
    Is [(x, y, n)] 0 0 0 0 0 := by
  have := Is_single (x, y, n)
  simp only [h1, h2, h3, h4, if_false] at this
  exact this

theorem Is_toFP (x n : Nat) (h1 : x ≠ FEEPOOL) (h3 : x ≠ IFUND) : Is [(x, FEEPOOL, n)] n 0 0 0 1 := by
  have := Is_single (x, FEEPOOL, n)
  have h : ¬ FEEPOOL = IFUND := by decide
  simp only [h1, h3, h, if_false, if_true] at this
  exact this

theorem Is_toIF (x n : Nat) (h1 : x ≠ FEEPOOL) (h3 : x ≠ IFUND) : Is [(x, IFUND, n)] 0 0 n 0 0 := by
  have := Is_single (x, IFUND, n)
  have h : ¬ IFUND = FEEPOOL := by decide
  simp only [h1, h3, h, if_false, if_true] at this
  exact this

theorem Is_frIF (n : Nat) : Is [(IFUND, ENGINE, n)] 0 0 0 n 0 := by
  have := Is_single (IFUND, ENGINE, n)
  have h : ¬ IFUND = FEEPOOL := by decide
  have h' : ¬ ENGINE = FEEPOOL := by decide
  have h'' : ¬ ENGINE = IFUND := by decide
  simp only [h, h', h'', if_false, if_true] at this
  exact this

theorem xf_transferMsg (cfg : Config) (r a : Nat) : xf (transferMsg cfg r a).msg = (ENGINE, r, a) := by
  unfold transferMsg; split <;> rfl

theorem xf_transferFromMsg (cfg : Config) (o r a : Nat) :
    xf (transferFromMsg cfg o r a).msg = (if cfg.native = true then ENGINE else o, r, a) := by
  unfold transferFromMsg; split <;> rfl

theorem Is_funds (n : Bool) (s : Nat) (f : Funds) (hs : Outside s) : Is (fundsLog n s f) 0 0 0 0 0 := by
  unfold fundsLog
  split
  · exact Is_plain _ _ _ hs.2.2 (by decide) hs.2.1 (by decide)
  · exact Is_nil

theorem Is_wd (cfg : Config) (s amt sf : Nat) (hs : Outside s) : Is (ents (wdMsgs cfg s amt sf)) 0 0 0 sf 0 := by
  unfold wdMsgs
  rw [ents_append, ents_single, xf_transferMsg]
  have h2 := Is_plain ENGINE s amt (by decide) hs.2.2 (by decide) hs.2.1
  split
  · rename_i h0
    subst h0
    exact Is_cast (Is_append Is_nil h2) rfl rfl rfl rfl rfl
  · exact Is_cast (Is_append (Is_frIF sf) h2) rfl rfl rfl (by simp) rfl

theorem Is_vault (cfg : Config) (s sf : Nat) (ms : List SubMsg) (h : VaultMs cfg s sf ms) (hs : Outside s) :
    Is (ents ms) 0 0 0 sf 0 := by
  rcases h with ⟨rfl, rfl⟩ | ⟨a, rfl, hn, rfl⟩ | ⟨a, rfl⟩
  · exact Is_nil
  · rw [ents_single, xf_transferFromMsg, hn]
    exact Is_plain _ _ _ hs.2.2 (by decide) hs.2.1 (by decide)
  · exact Is_wd cfg s a sf hs

/-- the fee messages of `transfer_fees` -/
theorem Is_fees (q : Q) (e : E) (s v N : Nat) (fm : List SubMsg) (sp tl : Nat)
    (h : transferFees q e s v N = .ok (fm, sp, tl))
    (hif : e.cfg.insuranceFund = IFUND) (hfp : e.cfg.feePool = FEEPOOL) (hs : Outside s) :
    Is (ents fm) tl 0 sp 0 (if tl = 0 then 0 else 1) := by
  obtain ⟨_, rfl⟩ := EngineGuards.transferFees_spec q e s v N fm sp tl h
  rw [hif, hfp, ents_append]
  have hsrc : (if e.cfg.native = true then ENGINE else s) ≠ FEEPOOL ∧ (if e.cfg.native = true then ENGINE else s) ≠ IFUND := by
    split
    · exact ⟨by decide, by decide⟩
    · exact ⟨hs.2.2, hs.2.1⟩
  have h1 : Is (ents (if sp ≠ 0 then [transferFromMsg e.cfg s IFUND sp] else [])) 0 0 sp 0 0 := by
    split
    · rw [ents_single, xf_transferFromMsg]
      exact Is_toIF _ _ hsrc.1 hsrc.2
    · rename_i h0
      have : sp = 0 := by omega
      subst this
      exact Is_nil
  have h2 : Is (ents (if tl ≠ 0 then [transferFromMsg e.cfg s FEEPOOL tl] else [])) tl 0 0 0 (if tl = 0 then 0 else 1) := by
    split
    · rename_i h0
      rw [ents_single, xf_transferFromMsg]
      exact Is_toFP _ _ hsrc.1 hsrc.2

    · rename_i h0
      have : tl = 0 := by omega
      subst this
      exact Is_nil
  exact Is_cast (Is_append h1 h2) (by omega) rfl (by omega) rfl (by omega)

/-! ### payout measure -/

theorem pay_append (s : Nat) (A B : List Xf) : pay s (A ++ B) = pay s A + pay s B := tot_append _ A B
@[simp] theorem pay_nil (s : Nat) : pay s [] = 0 := rfl

theorem pay_single (s : Nat) (x : Xf) : pay s [x] = if x.1 = ENGINE ∧ x.2.1 = s then (x.2.2 : Int) else 0 := by
  unfold pay
  rw [tot_single]
  simp only [Bool.and_eq_true, beq_iff_eq]

theorem pay_funds (n : Bool) (s : Nat) (f : Funds) (hs : Outside s) : pay s (fundsLog n s f) = 0 := by
  unfold fundsLog
  split
  · rw [pay_single, if_neg]
    intro h
    exact hs.1 h.1
  · rfl

theorem pay_wd (cfg : Config) (s amt sf : Nat) : pay s (ents (wdMsgs cfg s amt sf)) = amt := by
  unfold wdMsgs
  rw [ents_append, ents_single, xf_transferMsg, pay_append, pay_single]
  have e1 : ((ENGINE, s, amt) : Xf).1 = ENGINE ∧ ((ENGINE, s, amt) : Xf).2.1 = s := ⟨rfl, rfl⟩
  rw [if_pos e1]
  split
  · simp
  · rw [ents_single, pay_single, if_neg]
    · simp
    · intro h
      have : (xf (ifWithdrawMsg sf).msg).1 = IFUND := rfl
      rw [this] at h
      exact absurd h.1 (by decide)

theorem pay_fees (q : Q) (e : E) (s v N : Nat) (fm : List SubMsg) (sp tl : Nat)
    (h : transferFees q e s v N = .ok (fm, sp, tl))
    (hif : e.cfg.insuranceFund = IFUND) (hfp : e.cfg.feePool = FEEPOOL) (hs : Outside s) :
    pay s (ents fm) = 0 := by
  obtain ⟨_, rfl⟩ := EngineGuards.transferFees_spec q e s v N fm sp tl h
  rw [hif, hfp, ents_append, pay_append]
  have h1 : pay s (ents (if sp ≠ 0 then [transferFromMsg e.cfg s IFUND sp] else [])) = 0 := by
    split
    · rw [ents_single, xf_transferFromMsg, pay_single, if_neg]
      intro hh
      exact hs.2.1 hh.2.symm
    · rfl
  have h2 : pay s (ents (if tl ≠ 0 then [transferFromMsg e.cfg s FEEPOOL tl] else [])) = 0 := by
    split
    · rw [ents_single, xf_transferFromMsg, pay_single, if_neg]
      intro hh
      exact hs.2.2 hh.2.symm
    · rfl
  rw [h1, h2]; rfl

end Perp.Props.TxFlow
