/-
  SatLimitV — refinement theorem for `Spec.C17.checkVammSide` (`Spec.extraChecks7`): C17's OpenPosition clause judged
  on the vAMM's side — the base amount is read off the change of the vAMM's base reserve (`Spec.C17.baseMoved`), not off
  the engine's stored size.

  Route (§1–§3): `SatFlows.open_flow` gives the message tree of a successful OpenPosition together with the vAMM record
  before (`w.vamm? v = some x`) and after (`w'.vamm? v = some x'`) the transaction.  Increase / reduce (the only flows the
  clause judges under `SignDir`): exactly ONE `Vamm.swapInput x … = .ok (x', ⟨true, N, bo⟩)` carrying the caller's limit
  (a reduce is a `swap_input` with reply id `REPLY_DECREASE`; `swap_output` and its QUOTE limit only occur on the reversal and
  whole-close paths); `swapInput_baseMoved`: its `update_reserve` moves the base reserve by exactly `bo`, and its limit
  guard puts `bo` on the right side of the limit.  Reversal: under `SignDir` the stored size flips sign or ends at zero
  (as in `SatC17.open_core`), so the clause is not evaluated.

  Hypotheses: `SignDirE w.engine` only — the hypothesis of `SatC17.sat_C17`; it is necessary (`Witness.needs_signDir`).
  None of `WF`, `VammKeysNodup`, `NoZeroVamm`, `UserSender`, wiring is needed (see the comment at `sat_C17_vammSide`).
  §4: corollaries on `Capstone.Reachable` / `CapstoneTx.ReachableTx` worlds and along histories.
  §5: kernel-evaluated witnesses — the clause is not vacuous and sees what `Spec.C17.check` cannot (a); real model increase
  and reduce with the limit exactly at the swapped base amount pass, one unit on the wrong side is rejected (b).
-/
import Perp.Spec.LimitV
import Perp.Props.SatC17
import Perp.Props.Capstone
import Perp.Props.CapstoneTx
import Perp.Props.SatEWitness

namespace Perp.Props.SatLimitV
open Perp Perp.World Perp.Engine Perp.Spec Perp.Spec.W Perp.Props.ModelStep
open Perp.Props.Dispatch Perp.Props.SatTrace Perp.Props.SatFlows
open Perp.Props.MirrorP (AllCE SD SignDirE)

/-! ## 1. what one `swap_input` does to the base reserve -/

/-- an accepted `swap_input` moves the base reserve by exactly the base amount it reports -/
theorem swapInput_baseMoved (x x' : Vamm.V) (env : Env) (s : Nat) (dir : Direction) (amt lim : Nat) (cgo : Bool)
    (bo : Nat) (h : Vamm.swapInput x env s dir amt lim cgo = .ok (x', ⟨true, amt, bo⟩)) :
    (((x'.st.base : Int) - (x.st.base : Int)).natAbs = bo)
    ∧ (lim ≠ 0 → amt ≠ 0 → (dir = .addToAmm → lim ≤ bo) ∧ (dir = .removeFromAmm → bo ≤ lim)) := by
  obtain ⟨b, _, hu, ho, hlim⟩ := C17.swapInput_inv _ _ _ _ _ _ _ _ _ h
  injection ho with _ _ hbo
  subst hbo
  refine ⟨?_, hlim⟩
  cases dir with
  | addToAmm =>
    obtain ⟨_, h2, h3⟩ := C17.updateReserve_add _ _ _ _ _ _ hu
    omega
  | removeFromAmm =>
    obtain ⟨h1, _, _⟩ := C17.updateReserve_remove _ _ _ _ _ _ hu
    omega

theorem baseOf_some (w : World) (v : Nat) (x : Vamm.V) (h : w.vamm? v = some x) :
    Spec.C17.baseOf w v = (x.st.base : Int) := by
  unfold Spec.C17.baseOf
  rw [h]

/-! ## 2. the OpenPosition flows -/

/-- OpenPosition with a non-zero base limit: the stored size either flips sign, ends at zero, or the vAMM's base reserve
    moved by an amount on the right side of the limit.  (Increase / reduce: ONE `swap_input` on `v` carrying the caller's
    limit — a reduce is a `swap_input` too, `REPLY_DECREASE` —, whose limit guard gives the inequality and whose
    `update_reserve` moves the base reserve by exactly the reported amount; the reply's messages are collateral transfers,
    which leave `v`'s record alone — that is the last conjunct `w'.vamm? v = some x'` of `SatFlows.open_flow`.  Reversal:
    under `SignDir` the stored size flips sign or ends at zero, as in `SatC17.open_core`.) -/
theorem open_core_v (w w' : World) (env : Env) (s : Nat) (f : Funds) (v : Nat) (side : Side) (m l b : Nat)
    (h : applyTx w env s f (.engine (.openPosition v side m l b)) = .ok w')
    (hsd : SignDirE w.engine) (hb : b ≠ 0) :
    (readPosition w.engine v s).size.toInt * (readPosition w'.engine v s).size.toInt < 0
    ∨ (readPosition w'.engine v s).size.toInt = 0
    ∨ ((side = .buy → b ≤ (Spec.C17.baseOf w' v - Spec.C17.baseOf w v).natAbs)
       ∧ (side = .sell → (Spec.C17.baseOf w' v - Spec.C17.baseOf w v).natAbs ≤ b)) := by
  obtain ⟨w1, e1, x, sw, msgs, hst, _, hxv, hex, hsw, sv, st, ss, hpos, hcfg, hcase⟩ :=
    open_flow w w' env s f v side m l b h
  have hrd : readPosition e1 v s = readPosition w.engine v s := WorldInv.rp_same v s hpos
  rcases hcase with ⟨id, hid, x', bo, w2, e3, subs3, hswap, hrep, _, he3, hxv'⟩
      | ⟨⟨hnzp, hdir⟩, x1, qo, w2, e3, subs3, hswap, hrep, hcase2⟩
  · -- increase / reduce: one swap with the caller's limit
    right; right
    rw [baseOf_some w v x hxv, baseOf_some w' v x' hxv']
    obtain ⟨hDl, _, hm0⟩ := EngineGuards.open_leverage_bounds _ _ _ _ _ _ _ _ _ _ _ _ hex
    obtain ⟨_, _, _, hD0, _⟩ := openPosition_inv2 _ _ _ _ _ _ _ _ _ _ _ hex
    have hN : m * l / w.engine.cfg.decimals ≠ 0 := by
      have : w.engine.cfg.decimals ≤ m * l := by
        calc w.engine.cfg.decimals ≤ l := hDl
          _ = 1 * l := (Nat.one_mul l).symm
          _ ≤ m * l := Nat.mul_le_mul_right l (by omega)
      have := Nat.div_pos this (by omega)
      omega
    obtain ⟨hmv, hlim⟩ := swapInput_baseMoved _ _ _ _ _ _ _ _ _ hswap
    rw [hmv]
    have hl := hlim hb hN
    cases side with
    | buy => exact ⟨fun _ => hl.1 rfl, (fun hh => by cases hh)⟩
    | sell => exact ⟨(fun hh => by cases hh), fun _ => hl.2 rfl⟩
  · -- reversal
    obtain ⟨p', hp', pv, pt, psz, _⟩ := MirrorP.reversePositionReply_eff _ _ _ _ sw hsw _ hrep
    dsimp only at hp' pv pt psz
    rw [sv, st, ss] at pv pt
    have hk := EngineMoney.getPosition_key env e1 v s side
    have hread3 : readPosition e3 v s = p' := read_of_store e1 e3 p' v s hp' (pv.trans hk.1) (pt.trans hk.2)
    rcases hcase2 with ⟨_, _, he3, _, _⟩ | ⟨fm, sw', x2, bo2, w4, e5, subs5, _, _, hsw', sv', st', ss', _, hrep5, _, he5, _⟩
    · right; left
      rw [he3, hread3]
      exact psz
    · obtain ⟨⟨p'', hp'', pv', pt', psz', _⟩, _⟩ := MirrorP.updatePositionReply_eff _ _ _ _ _ _ sw' hsw' _ hrep5
      dsimp only at hp'' pv' pt' psz'
      rw [sv', st', ss'] at pv' pt' psz'
      have hk3 := EngineMoney.getPosition_key env e3 v s side
      have hread5 : readPosition w'.engine v s = p'' := by
        rw [he5]; exact read_of_store e3 e5 p'' v s hp'' (pv'.trans hk3.1) (pt'.trans hk3.2)
      rw [MirrorP.getPosition_size, hread3, psz, MirrorP.signedOutput_toInt] at psz'
      rw [hread5, psz']
      rw [MirrorP.getPosition_direction] at hdir
      have hgd := MirrorP.gdir_ne hdir
      rw [hgd] at hdir
      have hSD := MirrorP.SD_read w.engine v s hsd
      have hnz : (readPosition w.engine v s).size.toInt ≠ 0 := by
        intro h0
        rw [MirrorP.getPosition_size] at hnzp
        exact hnzp ((C19.isZero_iff _).2 h0)
      rcases Int.lt_or_gt_of_ne hnz with hneg | hposi
      · have hd := hSD.2 hneg
        cases side with
        | sell => exact absurd hd hdir
        | buy =>
          simp only []
          rcases Nat.eq_zero_or_pos bo2 with h0 | hp
          · right; left; omega
          · left
            exact Int.mul_neg_of_neg_of_pos hneg (by omega)
      · have hd := hSD.1 hposi
        cases side with
        | buy => exact absurd hd hdir
        | sell =>
          simp only []
          rcases Nat.eq_zero_or_pos bo2 with h0 | hp
          · right; left; omega
          · left
            exact Int.mul_neg_of_pos_of_neg hposi (by omega)

/-! ## 3. the check -/

theorem check_open_v (w w' : World) (env : Env) (s : Nat) (f : Funds) (v : Nat) (side : Side) (m l b : Nat)
    (hc : b ≠ 0 → (readPosition w.engine v s).size.toInt * (readPosition w'.engine v s).size.toInt < 0
      ∨ (readPosition w'.engine v s).size.toInt = 0
      ∨ ((side = .buy → b ≤ (Spec.C17.baseOf w' v - Spec.C17.baseOf w v).natAbs)
         ∧ (side = .sell → (Spec.C17.baseOf w' v - Spec.C17.baseOf w v).natAbs ≤ b))) :
    Spec.C17.checkVammSide (okStep w w' env s f (.engine (.openPosition v side m l b))) = [] := by
  simp only [Spec.C17.checkVammSide, Spec.C17.baseMoved, W.engineMsg, W.pos, okStep]
  by_cases hb : b = 0
  · simp [hb]
  · rcases hc hb with h1 | h2 | h3
    · simp [hb, h1]
    · simp [hb, h2]
    · cases side with
      | buy =>
        have := h3.1 rfl
        simp [hb, W.chk, this]
      | sell =>
        have := h3.2 rfl
        simp [hb, W.chk, this]

theorem check_other_v (st : Step) (h1 : ∀ v side m l b, st.tx ≠ .engine (.openPosition v side m l b)) :
    Spec.C17.checkVammSide st = [] := by
  unfold Spec.C17.checkVammSide W.engineMsg
  split
  · rfl
  · split
    · rename_i hm
      split at hm
      · rename_i m' htx
        injection hm with hm
        subst hm
        exact absurd htx (h1 _ _ _ _ _)
      · cases hm
    · rfl

/-- **C17 judged on the vAMM's side**: under the sign/direction invariant (the hypothesis of `SatC17.sat_C17`, nothing
    else) the model's step satisfies `Spec.C17.checkVammSide` — every block, sender, funds and transaction.

    Why nothing else is needed: `WF` / no in-flight residue — `open_position` overwrites the in-flight swap record before it
    emits its swap; `VammKeysNodup` — both `baseOf` and the dispatcher read the vAMM through `World.vamm?` (first match), and
    `setVamm` rewrites the record that `vamm?` finds (`MirrorP.setVamm_vamm_same`); `NoZeroVamm` — a record under vAMM 0 is
    read as absent, which sends the order down the increase path, whose swap carries the limit; `UserSender` / wiring — a
    swap the vAMM refuses (sender of the swap is not its margin engine) fails the transaction, and the clause is only judged
    on successful ones.

    `SignDir` IS needed: `needs_signDir` below. -/
theorem sat_C17_vammSide (w : World) (env : Env) (s : Nat) (f : Funds) (tx : Tx)
    (hsd : SignDirE w.engine) :
    Spec.C17.checkVammSide (modelStep w env s f tx) = [] := by
  cases hx : applyTx w env s f tx with
  | error e =>
    rw [modelStep_err hx]
    unfold Spec.C17.checkVammSide errStep
    rfl
  | ok w' =>
    rw [modelStep_ok hx]
    by_cases ho : ∃ v side m l b, tx = .engine (.openPosition v side m l b)
    · obtain ⟨v, side, m, l, b, rfl⟩ := ho
      exact check_open_v w w' env s f v side m l b
        (fun hb => open_core_v w w' env s f v side m l b hx hsd hb)
    · exact check_other_v _ (fun v side m l b hh => ho ⟨v, side, m, l, b, hh⟩)

theorem sat_extra7 (w : World) (env : Env) (s : Nat) (f : Funds) (tx : Tx) (hsd : SignDirE w.engine) :
    ∀ pc ∈ Spec.extraChecks7 (modelStep w env s f tx), pc.2 = [] := by
  intro pc hpc
  simp only [Spec.extraChecks7, List.mem_singleton] at hpc
  subst hpc
  exact sat_C17_vammSide w env s f tx hsd

/-- the clause of `extraChecks7`, as a record in the style of `SatScope.ExtraClean6` -/
structure ExtraClean7 (st : Step) : Prop where
  c17vammSide : Spec.C17.checkVammSide st = []

theorem extra7_clean (w : World) (env : Env) (s : Nat) (f : Funds) (tx : Tx) (hsd : SignDirE w.engine) :
    ExtraClean7 (modelStep w env s f tx) := ⟨sat_C17_vammSide w env s f tx hsd⟩

/-! ## 4. on reachable worlds

  `SignDir` is a conjunct of the capstone's invariant (`Capstone.AllInv.signDir`), which holds on every world reachable
  from a deployment by transactions satisfying `SideOK` (`Capstone.reachable_allInv`) resp. the per-transaction
  `SideOKTx` (`CapstoneTx.reachable_allInv_tx`).  The judged transaction itself needs NO side condition (the side
  conditions are what keeps the invariant along the history); the `SideOK` / `SideOKTx` forms below are the instances
  that line up with `Capstone.reachable_sat` / `CapstoneTx.reachable_sat_all_tx`. -/

theorem allInv_sat_extra7 {w : World} (hI : Capstone.AllInv w) (env : Env) (s : Nat) (f : Funds) (tx : Tx) :
    ∀ pc ∈ Spec.extraChecks7 (modelStep w env s f tx), pc.2 = [] :=
  sat_extra7 w env s f tx hI.signDir

theorem reachable_sat_extra7 (w : World) (hr : Capstone.Reachable w) (env : Env) (s : Nat) (f : Funds) (tx : Tx) :
    ∀ pc ∈ Spec.extraChecks7 (modelStep w env s f tx), pc.2 = [] :=
  allInv_sat_extra7 (Capstone.reachable_allInv hr) env s f tx

theorem reachableTx_sat_extra7 (w : World) (hr : CapstoneTx.ReachableTx w) (env : Env) (s : Nat) (f : Funds) (tx : Tx) :
    ∀ pc ∈ Spec.extraChecks7 (modelStep w env s f tx), pc.2 = [] :=
  allInv_sat_extra7 (CapstoneTx.reachable_allInv_tx hr) env s f tx

theorem reachable_C17_vammSide (w : World) (hr : Capstone.Reachable w) (env : Env) (s : Nat) (f : Funds) (tx : Tx)
    (_hs : Capstone.SideOK w env s f tx) : Spec.C17.checkVammSide (modelStep w env s f tx) = [] :=
  sat_C17_vammSide w env s f tx (Capstone.reachable_allInv hr).signDir

theorem reachableTx_C17_vammSide (w : World) (hr : CapstoneTx.ReachableTx w) (env : Env) (s : Nat) (f : Funds) (tx : Tx)
    (_hs : CapstoneTx.SideOKTx w env s f tx) : Spec.C17.checkVammSide (modelStep w env s f tx) = [] :=
  sat_C17_vammSide w env s f tx (CapstoneTx.reachable_allInv_tx hr).signDir

/-- along any history from a deployment with `SideOKTx` at each step -/
theorem history_sat_extra7 (w0 : World) (h0 : Capstone.Deployed w0) (txs : Capstone.History)
    (hside : CapstoneTx.SideAlongTx w0 txs)
    (pre : Capstone.History) (t : Env × Nat × Funds × Tx) (post : Capstone.History) (e : txs = pre ++ t :: post) :
    ∀ pc ∈ Spec.extraChecks7 (modelStep (Capstone.run w0 pre) t.1 t.2.1 t.2.2.1 t.2.2.2), pc.2 = [] :=
  reachableTx_sat_extra7 _ (CapstoneTx.history_reachable_tx w0 h0 txs hside pre (t :: post) e) _ _ _ _

/-! ## 5. witnesses (kernel-evaluated), on the worlds of `SatEWitness`

  One vAMM (address 10, reserves 10000 quote / 1000 base, price 10, 6 decimals), cw20 collateral, user 100. -/

namespace Witness
open Perp.Props.SatEWitness

def TAGB : String := "open-base-limit-not-honoured-by-the-vamm-swap(buy)"
def TAGS : String := "open-base-limit-not-honoured-by-the-vamm-swap(sell)"

/-- user 100 holds a short of `sz` base; the vAMM's base reserve is `base` -/
def shortW (sz base : Nat) : World :=
  world (eng false (5 * 10^4) (25 * 10^4) [⟨10, 100, .removeFromAmm, Integer.newNegative sz, 10 * D, 50 * D, Integer.zero, 1⟩])
    (vamm (10000 * D) base 0 1800 (Integer.newNegative sz))

/-- a hand-made observation in the shape of seed C17-w: a sell (increase of a short of 5 base) with
    `base_asset_limit` = 1 base is reported successful; the stored size moved by 0.1 base, the vAMM's base reserve by 12.66 -/
def fakeStep : Step :=
  { pre := shortW (5 * D) (1000 * D), post := shortW (5 * D + D / 10) (1000 * D + 12660000),
    env := ⟨2, 1000⟩, sender := 100, funds := ⟨0, false⟩,
    tx := .engine (.openPosition 10 .sell (12 * D) (10 * D) D), ok := true, xfers := [], residue := false }

set_option maxRecDepth 100000 in
/-- **(a)** the clause is not vacuous and sees what `Spec.C17.check` cannot: on `fakeStep` the engine-side clause is
    empty (the stored size moved by 0.1 ≤ 1) while the vAMM-side clause reports the swap of 12.66 base; with the reserve
    moved by exactly the limit it is satisfied, and the mirrored buy (reserve moved by LESS than the limit) is reported too -/
theorem clause_not_vacuous :
    Spec.C17.check fakeStep = []
    ∧ Spec.C17.baseMoved fakeStep 10 = 12660000
    ∧ Spec.C17.checkVammSide fakeStep = [TAGS]
    ∧ Spec.extraChecks7 fakeStep = [("C17", [TAGS])]
    ∧ Spec.C17.checkVammSide { fakeStep with post := shortW (5 * D + D / 10) (1000 * D + D) } = []
    ∧ Spec.C17.checkVammSide
        { fakeStep with
          pre := shortW (5 * D + D / 10) (1000 * D + D), post := shortW (5 * D) (1000 * D + D / 2),
          tx := .engine (.openPosition 10 .buy (12 * D) (10 * D) D) } = [TAGB] := by
  decide +kernel

def env3 : Env := ⟨3, 2000⟩
def buyTx (lim : Nat) : Tx := .engine (.openPosition 10 .buy (60 * D) (10 * D) lim)
def sellTx (lim : Nat) : Tx := .engine (.openPosition 10 .sell (20 * D) (10 * D) lim)

set_option maxRecDepth 100000 in
/-- **(b), increase**: in `SatEWitness.a1` user 100 is long 56.603773 base (reserves 10600 / 943.396227).  Buying another
    600 of notional receives 50.539083 base.  With `base_asset_limit` exactly 50539083 (receive at least that) the order
    is accepted, the reserve and the stored size both move by 50539083 and both C17 clauses are empty; with 50539084 the
    vAMM's limit guard rejects it -/
theorem real_increase :
    (modelStep a1 env3 100 ⟨0, false⟩ (buyTx 50539083)).ok = true
    ∧ Spec.C17.baseMoved (modelStep a1 env3 100 ⟨0, false⟩ (buyTx 50539083)) 10 = 50539083
    ∧ (readPosition a1.engine 10 100).size = Integer.newPositive 56603773
    ∧ (readPosition (modelStep a1 env3 100 ⟨0, false⟩ (buyTx 50539083)).post.engine 10 100).size = Integer.newPositive 107142856
    ∧ Spec.C17.checkVammSide (modelStep a1 env3 100 ⟨0, false⟩ (buyTx 50539083)) = []
    ∧ Spec.C17.check (modelStep a1 env3 100 ⟨0, false⟩ (buyTx 50539083)) = []
    ∧ (modelStep a1 env3 100 ⟨0, false⟩ (buyTx 50539084)).ok = false := by
  decide +kernel

set_option maxRecDepth 100000 in
/-- **(b), reduce**: selling 200 of notional out of the same long is a REDUCE — in this engine a `swap_input` as well
    (`REPLY_DECREASE`), so the limit it carries is the caller's BASE limit (the quote limits of `swap_output`, guards 13 / 14,
    only occur on the whole-close and reversal paths, where the clause is not judged).  It gives 18.142236 base: with
    `base_asset_limit` exactly 18142236 (give at most that) it is accepted and passes, with 18142235 it is rejected -/
theorem real_reduce :
    (modelStep a1 env3 100 ⟨0, false⟩ (sellTx 18142236)).ok = true
    ∧ Spec.C17.baseMoved (modelStep a1 env3 100 ⟨0, false⟩ (sellTx 18142236)) 10 = 18142236
    ∧ (readPosition (modelStep a1 env3 100 ⟨0, false⟩ (sellTx 18142236)).post.engine 10 100).size = Integer.newPositive 38461537
    ∧ Spec.C17.checkVammSide (modelStep a1 env3 100 ⟨0, false⟩ (sellTx 18142236)) = []
    ∧ (modelStep a1 env3 100 ⟨0, false⟩ (sellTx 18142235)).ok = false := by
  decide +kernel

set_option maxRecDepth 100000 in
/-- **`SignDir` is necessary**: in `SatEWitness.badSign` the stored record has a positive size but the direction of a short.
    A buy with limit 100 base is routed through the reversal path (whose swaps carry no limit), is accepted, leaves a
    positive size again (no sign flip, not closed) — and the vAMM's base reserve moved by 19.607843 < 100 -/
theorem needs_signDir :
    (modelStep badSign ⟨2, 1000⟩ 100 ⟨0, false⟩ (.engine (.openPosition 10 .buy (20 * D) (10 * D) (100 * D)))).ok = true
    ∧ Spec.C17.baseMoved (modelStep badSign ⟨2, 1000⟩ 100 ⟨0, false⟩ (.engine (.openPosition 10 .buy (20 * D) (10 * D) (100 * D)))) 10
        = 19607843
    ∧ Spec.C17.checkVammSide (modelStep badSign ⟨2, 1000⟩ 100 ⟨0, false⟩ (.engine (.openPosition 10 .buy (20 * D) (10 * D) (100 * D))))
        = [TAGB] := by
  decide +kernel

end Witness

end Perp.Props.SatLimitV
