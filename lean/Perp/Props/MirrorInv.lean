/-
  G7b — C02 at world level: the engine's positions mirror every vAMM's net position, as an
  invariant of the whole transaction system.  STATEMENTS ARE FIXED (the invariant itself is yours to
  choose: the main theorem only asks for *some* inductive invariant that implies the mirror property).

  OUTCOME.  The definitions below are unchanged.  The two statements as originally posed are FALSE
  (`Init` / `UserSender` do not exclude a vAMM deployed at address 0, the engine's "no record" sentinel);
  they are kept verbatim as the propositions `MirrorInvariantPartial` / `MirrorAlongHistory` and refuted by
  a concrete, kernel-evaluated history (`mirror_invariant_partial_false`, `mirror_along_history_false`).
  The true variants `mirror_invariant_partial2` / `mirror_along_history2` add the single side condition
  `NoZeroVamm` on the initial world only; they are proved in full (proof development:
  `Perp/Props/Mirror/{Sum,Walk,Exec,VammSide,Flow,Run,Tx}.lean`).
-/
import Perp.Model.World
import Perp.Lemmas.Basic
import Perp.Props.Dispatch
import Perp.Props.EngineGuards
import Perp.Props.EngineMoney
import Perp.Props.WorldInv
import Perp.Props.CurveNoFlip
import Perp.Props.C01
import Perp.Props.C17
import Perp.Props.Mirror.Tx

namespace Perp.Props.Mirror
open Perp Perp.World Perp.Engine

/-- signed sum of the stored position sizes of one vAMM (what Spec.C02 computes from observations) -/
def sumSizes (e : E) (v : Nat) : Int :=
  ((e.positions.filter (fun p => p.vamm == v)).map (fun p => p.size.toInt)).foldl (· + ·) 0

/-- C02: for every vAMM wired to the engine, Σ sizes = reported net position -/
def MirrorOK (w : World) : Prop :=
  ∀ a x, w.vamm? a = some x → x.cfg.marginEngine = ENGINE → sumSizes w.engine a = x.st.net.toInt

/-- a stored position's sign agrees with its direction (needed to close it correctly) -/
def SignDir (e : E) : Prop :=
  ∀ p ∈ e.positions, (0 < p.size.toInt → p.direction = .addToAmm) ∧ (p.size.toInt < 0 → p.direction = .removeFromAmm)

/-- a freshly deployed protocol -/
def Init (w : World) : Prop :=
  w.engine.positions = [] ∧ WorldInv.NoResidue w.engine ∧ EngineGuards.ConfigOK w.engine.cfg
  ∧ (w.vamms.map (·.1)).Nodup
  ∧ (∀ a x, w.vamm? a = some x → x.st.net.toInt = 0)

/-- senders are user accounts, never a contract of the deployment -/
def UserSender (w : World) (s : Nat) : Prop :=
  s ≠ ENGINE ∧ s ≠ IFUND ∧ s ≠ FEEPOOL ∧ s ≠ FEED ∧ s ≠ TOKEN ∧ ∀ a x, w.vamm? a = some x → s ≠ a

/-- owners do not re-wire a vAMM to another margin engine (outside the property's quantifier) -/
def NotRewire (tx : Tx) : Prop :=
  match tx with
  | .vammConfig _ u => u.marginEngine = none
  | _ => True

/-- the curve is in its regular regime: both reserves hold at least one whole unit, and — where
    partial closes can happen (non-zero fluctuation limit) — the spot price is at least 1
    (below that the re-quoted base amount of a partial close of a short can overshoot, CurveNoFlip) -/
def CurveRegular (w : World) : Prop :=
  ∀ a x, w.vamm? a = some x →
    x.cfg.decimals ≤ x.st.quote ∧ x.cfg.decimals ≤ x.st.base ∧ (x.cfg.fluct ≠ 0 → x.st.base ≤ x.st.quote)

/-! ### bridge to the proof development (`Perp/Props/Mirror/*.lean`, namespace `MirrorP`) -/

theorem sumSizes_eq (e : E) (v : Nat) : sumSizes e v = MirrorP.sumS e v := rfl

theorem mirrorOK_iff (w : World) : MirrorOK w ↔ MirrorP.MirrorF w.engine w.vamm? := Iff.rfl

theorem signDir_iff (e : E) : SignDir e ↔ MirrorP.SignDirE e := Iff.rfl

theorem curveRegular_iff (w : World) : CurveRegular w ↔ MirrorP.CurveRegF w.vamm? := Iff.rfl

theorem notRewire_iff (tx : Tx) : NotRewire tx ↔ MirrorP.NotRewireP tx := by
  cases tx <;> exact Iff.rfl

/-- **the one extra side condition**: no vAMM is deployed at address 0.  Address 0 is the engine's
    "no record" sentinel: `get_position` treats a stored record whose `vamm` field is 0 as absent
    (it overwrites the record's direction with the new side's but keeps its size), so a vAMM living at
    address 0 breaks both the sign/direction agreement and the mirror (see the refutations below).
    Real deployments cannot violate it (contract addresses are non-empty strings), and it only has
    to be assumed of the *initial* world: no transaction ever adds or renames a vAMM. -/
def NoZeroVamm (w : World) : Prop := w.vamm? 0 = none

/-- the inductive invariant that is exhibited -/
def Inv (w : World) : Prop :=
  (MirrorOK w ∧ SignDir w.engine
    ∧ MirrorP.KeysND w.engine.positions           -- no two records under one (vamm, trader) key
    ∧ EngineGuards.ConfigOK w.engine.cfg            -- plr ≤ decimals: a partial liquidation fits the position
    ∧ NoZeroVamm w)
  ∧ WorldInv.NoResidue w.engine

theorem inv_iff (w : World) : Inv w ↔ MirrorP.Inv w := Iff.rfl

theorem init_inv (w : World) (h : Init w) (hz : NoZeroVamm w) : Inv w := by
  obtain ⟨hp, hr, hc, _, hn⟩ := h
  refine ⟨⟨?_, ?_, ?_, hc, hz⟩, hr⟩
  · intro a x hx _
    rw [hn a x hx]
    unfold sumSizes
    rw [hp]
    rfl
  · intro p hpm
    rw [hp] at hpm
    cases hpm
  · rw [hp]
    exact List.Pairwise.nil

/-- **C02 (world level, partial: regular curve regime), true variant**: with no vAMM at the sentinel
    address 0 in the initial world, there is an inductive invariant of the transaction system —
    established by deployment, preserved by every successful transaction of every kind by any user —
    that implies the mirror property, the sign/direction agreement and the absence of in-flight records. -/
theorem mirror_invariant_partial2 :
    ∃ Inv : World → Prop,
      (∀ w, Init w → NoZeroVamm w → Inv w)
      ∧ (∀ w, Inv w → MirrorOK w ∧ SignDir w.engine ∧ WorldInv.NoResidue w.engine)
      ∧ (∀ w w' env s f tx, Inv w → UserSender w s → NotRewire tx → CurveRegular w →
            applyTx w env s f tx = .ok w' → Inv w') := by
  refine ⟨Inv, init_inv, fun w h => ⟨h.1.1, h.1.2.1, h.2⟩, ?_⟩
  intro w w' env s f tx hI hs hnr hcr h
  exact MirrorP.inv_step w w' env s f tx hI hs.1 ((notRewire_iff tx).1 hnr) hcr h

theorem inv_along (txs : List (Env × Nat × Funds × Tx)) : ∀ (w0 : World), Inv w0 →
    (∀ (pre : List (Env × Nat × Funds × Tx)) (t : Env × Nat × Funds × Tx) (post : List (Env × Nat × Funds × Tx)),
        txs = pre ++ t :: post →
        let w := pre.foldl (fun w t => step w t.1 t.2.1 t.2.2.1 t.2.2.2) w0
        UserSender w t.2.1 ∧ NotRewire t.2.2.2 ∧ CurveRegular w) →
    Inv (txs.foldl (fun w t => step w t.1 t.2.1 t.2.2.1 t.2.2.2) w0) := by
  induction txs with
  | nil => intro w0 hI _; exact hI
  | cons t txs ih =>
    intro w0 hI hside
    rw [List.foldl_cons]
    obtain ⟨h1, h2, h3⟩ := hside [] t txs rfl
    refine ih _ (MirrorP.inv_run w0 t.1 t.2.1 t.2.2.1 t.2.2.2 hI h1.1 ((notRewire_iff _).1 h2) h3) ?_
    intro pre t' post h
    exact hside (t :: pre) t' post (by rw [h]; rfl)

/-- consequence for histories, true variant: along any sequence of transactions (failed ones skipped by
    `step`) from a deployment without a vAMM at address 0, as long as the side conditions hold at each
    step, the mirror property (and the whole invariant) holds after every step -/
theorem mirror_along_history2 (w0 : World) (h0 : Init w0) (hz : NoZeroVamm w0)
    (txs : List (Env × Nat × Funds × Tx))
    (hside : ∀ (pre : List (Env × Nat × Funds × Tx)) (t : Env × Nat × Funds × Tx) (post : List (Env × Nat × Funds × Tx)),
        txs = pre ++ t :: post →
        let w := pre.foldl (fun w t => step w t.1 t.2.1 t.2.2.1 t.2.2.2) w0
        UserSender w t.2.1 ∧ NotRewire t.2.2.2 ∧ CurveRegular w) :
    MirrorOK (txs.foldl (fun w t => step w t.1 t.2.1 t.2.2.1 t.2.2.2) w0) :=
  (inv_along txs w0 (init_inv w0 h0 hz) hside).1.1

/-! ### the statements as originally posed are false

The two theorems this file was asked to prove — stated without `NoZeroVamm` — are refuted below by a
concrete deployment with one vAMM at address 0 (wired to the engine, registered, regular curve, `Init`
holds) and three ordinary user transactions.  The statements are kept verbatim as propositions. -/

/-- the original statement of `mirror_invariant_partial` (verbatim) -/
def MirrorInvariantPartial : Prop :=
    ∃ Inv : World → Prop,
      (∀ w, Init w → Inv w)
      ∧ (∀ w, Inv w → MirrorOK w ∧ SignDir w.engine ∧ WorldInv.NoResidue w.engine)
      ∧ (∀ w w' env s f tx, Inv w → UserSender w s → NotRewire tx → CurveRegular w →
            applyTx w env s f tx = .ok w' → Inv w')

/-- the original statement of `mirror_along_history` (verbatim) -/
def MirrorAlongHistory : Prop :=
  ∀ (w0 : World) (_h0 : Init w0)
    (txs : List (Env × Nat × Funds × Tx))
    (_hside : ∀ (pre : List (Env × Nat × Funds × Tx)) (t : Env × Nat × Funds × Tx) (post : List (Env × Nat × Funds × Tx)),
        txs = pre ++ t :: post →
        let w := pre.foldl (fun w t => step w t.1 t.2.1 t.2.2.1 t.2.2.2) w0
        UserSender w t.2.1 ∧ NotRewire t.2.2.2 ∧ CurveRegular w),
    MirrorOK (txs.foldl (fun w t => step w t.1 t.2.1 t.2.2.1 t.2.2.2) w0)

namespace Cex

def D : Nat := 10^9

/-- a vAMM at address 0: reserves 1 000 000 / 100 000 (price 10), wired to the engine, open, no fees,
    no fluctuation limit -/
def v0 : Vamm.V :=
  { cfg := { owner := 50, marginEngine := ENGINE, insuranceFund := IFUND, pricefeed := FEED, holdingCap := 0,
             oiCap := 0, decimals := D, toll := 0, spread := 0, fluct := 0, twapInterval := 3600,
             fundingPeriod := 3600, fundingBuffer := 1800 },
    st := { isOpen := true, quote := 1000000 * D, base := 100000 * D, net := Integer.zero,
            fundingRate := Integer.zero, nextFunding := 0, snaps := [⟨1000000 * D, 100000 * D, 0, 0⟩] } }

def e0 : E :=
  { cfg := { owner := 60, insuranceFund := IFUND, feePool := FEEPOOL, native := true, decimals := D,
             imr := 5 * 10^7, mmr := 5 * 10^7, plr := 25 * 10^7, liqFee := 25 * 10^6 },
    st := ⟨0, 0, false⟩, pauser := 60, whitelist := [], positions := [], vammMaps := [],
    tmpSwap := none, sentFunds := none, tmpLiq := none }

/-- a fresh deployment (`Init` holds) whose single vAMM lives at address 0 -/
def w0 : World :=
  { env := ⟨1, 5⟩, engine := e0, vamms := [(0, v0)],
    ifund := { owner := 61, engine := ENGINE, vamms := [0], stored := true },
    feePool := { owner := 62, tokens := [0] },
    feed := .mock { owner := 63, price := some (10 * D) },
    ledger := { bal := [(100, 10000 * D), (ENGINE, 5000 * D), (IFUND, 5000 * D)], allow := [] } }

/-- user 100 opens a 10x long with 60 margin, then "sells" 10 margin 10x, then closes -/
def t1 : Env × Nat × Funds × Tx := (⟨2, 1000⟩, 100, ⟨60 * D, false⟩, .engine (.openPosition 0 .buy (60 * D) (10 * D) 0))
def t2 : Env × Nat × Funds × Tx := (⟨3, 2000⟩, 100, ⟨10 * D, false⟩, .engine (.openPosition 0 .sell (10 * D) (10 * D) 0))
def t3 : Env × Nat × Funds × Tx := (⟨4, 3000⟩, 100, ⟨0, false⟩, .engine (.closePosition 0 0))

def w1 : World := step w0 t1.1 t1.2.1 t1.2.2.1 t1.2.2.2
def w2 : World := step w1 t2.1 t2.2.1 t2.2.2.1 t2.2.2.2
def w3 : World := step w2 t3.1 t3.2.1 t3.2.2.1 t3.2.2.2

def isOkB (r : Except Err World) : Bool := match r with | .ok _ => true | .error _ => false

theorem step_ok (w : World) (env : Env) (s : Nat) (f : Funds) (tx : Tx) (h : isOkB (applyTx w env s f tx) = true) :
    applyTx w env s f tx = .ok (step w env s f tx) := by
  unfold step
  cases hr : applyTx w env s f tx with
  | ok w' => rfl
  | error e => rw [hr] at h; cases h

/-- Boolean forms of the side conditions, to evaluate them on the concrete worlds -/
def userB (w : World) (s : Nat) : Bool :=
  decide (s ≠ ENGINE) && decide (s ≠ IFUND) && decide (s ≠ FEEPOOL) && decide (s ≠ FEED) && decide (s ≠ TOKEN)
    && w.vamms.all (fun p => p.1 != s)

def curveB (w : World) : Bool :=
  w.vamms.all (fun p => decide (p.2.cfg.decimals ≤ p.2.st.quote) && decide (p.2.cfg.decimals ≤ p.2.st.base)
    && (p.2.cfg.fluct == 0 || decide (p.2.st.base ≤ p.2.st.quote)))

theorem vamm?_mem (w : World) (a : Nat) (x : Vamm.V) (h : w.vamm? a = some x) : (a, x) ∈ w.vamms := by
  unfold vamm? at h
  split at h
  · rename_i p hp
    have h1 := List.mem_of_find?_eq_some hp
    have h2 := List.find?_some hp
    simp only [beq_iff_eq] at h2
    injection h with h
    rw [← h2, ← h]
    exact h1
  · cases h

theorem userB_sound (w : World) (s : Nat) (h : userB w s = true) : UserSender w s := by
  unfold userB at h
  simp only [Bool.and_eq_true, decide_eq_true_eq, List.all_eq_true, bne_iff_ne, ne_eq] at h
  obtain ⟨⟨⟨⟨⟨h1, h2⟩, h3⟩, h4⟩, h5⟩, h6⟩ := h
  refine ⟨h1, h2, h3, h4, h5, fun a x hx => ?_⟩
  have := h6 _ (vamm?_mem w a x hx)
  exact fun hh => this hh.symm

theorem curveB_sound (w : World) (h : curveB w = true) : CurveRegular w := by
  unfold curveB at h
  simp only [List.all_eq_true, Bool.and_eq_true, decide_eq_true_eq, Bool.or_eq_true, beq_iff_eq] at h
  intro a x hx
  obtain ⟨⟨h1, h2⟩, h3⟩ := h _ (vamm?_mem w a x hx)
  refine ⟨h1, h2, fun hf => ?_⟩
  rcases h3 with h3 | h3
  · exact absurd h3 hf
  · exact h3

theorem init_w0 : Init w0 := by
  refine ⟨rfl, ⟨rfl, rfl, rfl⟩, by unfold EngineGuards.ConfigOK; decide, by decide, fun a x hx => ?_⟩
  have hm := vamm?_mem w0 a x hx
  have : (a, x) = (0, v0) := by simpa [w0] using hm
  injection this with _ h2
  rw [h2]
  decide

set_option maxRecDepth 100000 in
theorem ok1 : applyTx w0 t1.1 t1.2.1 t1.2.2.1 t1.2.2.2 = .ok w1 := step_ok _ _ _ _ _ (by decide +kernel)
set_option maxRecDepth 100000 in
theorem ok2 : applyTx w1 t2.1 t2.2.1 t2.2.2.1 t2.2.2.2 = .ok w2 := step_ok _ _ _ _ _ (by decide +kernel)

set_option maxRecDepth 100000 in
theorem side0 : UserSender w0 100 ∧ CurveRegular w0 := ⟨userB_sound _ _ (by decide +kernel), curveB_sound _ (by decide +kernel)⟩
set_option maxRecDepth 100000 in
theorem side1 : UserSender w1 100 ∧ CurveRegular w1 := ⟨userB_sound _ _ (by decide +kernel), curveB_sound _ (by decide +kernel)⟩
set_option maxRecDepth 100000 in
theorem side2 : UserSender w2 100 ∧ CurveRegular w2 := ⟨userB_sound _ _ (by decide +kernel), curveB_sound _ (by decide +kernel)⟩

set_option maxRecDepth 100000 in
/-- after the second transaction the stored position is +49.975… base with direction `removeFromAmm` -/
theorem not_signDir_w2 : ¬ SignDir w2.engine := by
  intro h
  have hb : w2.engine.positions.any (fun p => decide (0 < p.size.toInt) && p.direction == .removeFromAmm) = true := by
    decide +kernel
  rw [List.any_eq_true] at hb
  obtain ⟨p, hp, hc⟩ := hb
  simp only [Bool.and_eq_true, decide_eq_true_eq, beq_iff_eq] at hc
  have := (h p hp).1 hc.1
  rw [hc.2] at this
  cases this

set_option maxRecDepth 100000 in
/-- after the close the engine stores no position but the vAMM reports a net position of +99.95… base -/
theorem not_mirror_w3 : ¬ MirrorOK w3 := by
  intro h
  have hb : (match w3.vamm? 0 with
      | some x => decide (x.cfg.marginEngine = ENGINE) && decide (sumSizes w3.engine 0 ≠ x.st.net.toInt)
      | none => false) = true := by decide +kernel
  split at hb
  · rename_i x hx
    simp only [Bool.and_eq_true, decide_eq_true_eq] at hb
    exact hb.2 (h 0 x hx hb.1)
  · cases hb

end Cex

/-- **refutation** of the original `mirror_invariant_partial`: no invariant established by `Init` and
    preserved by user transactions implies `SignDir` -/
theorem mirror_invariant_partial_false : ¬ MirrorInvariantPartial := by
  rintro ⟨I, ha, hb, hc⟩
  have i0 := ha _ Cex.init_w0
  have i1 := hc Cex.w0 Cex.w1 Cex.t1.1 100 Cex.t1.2.2.1 Cex.t1.2.2.2 i0 Cex.side0.1 trivial Cex.side0.2 Cex.ok1
  have i2 := hc Cex.w1 Cex.w2 Cex.t2.1 100 Cex.t2.2.2.1 Cex.t2.2.2.2 i1 Cex.side1.1 trivial Cex.side1.2 Cex.ok2
  exact Cex.not_signDir_w2 (hb _ i2).2.1

/-- **refutation** of the original `mirror_along_history`: the three transactions above end in a state
    where the mirror property fails although every side condition held at every step -/
theorem mirror_along_history_false : ¬ MirrorAlongHistory := by
  intro H
  have h3 := H Cex.w0 Cex.init_w0 [Cex.t1, Cex.t2, Cex.t3] (by
    intro pre t post h
    rcases pre with _ | ⟨a, _ | ⟨b, _ | ⟨c, _ | ⟨d, rest⟩⟩⟩⟩
    · simp only [List.nil_append, List.cons.injEq] at h
      obtain ⟨rfl, _⟩ := h
      simp only [List.foldl_nil]
      exact ⟨Cex.side0.1, trivial, Cex.side0.2⟩
    · simp only [List.cons_append, List.nil_append, List.cons.injEq] at h
      obtain ⟨rfl, rfl, _⟩ := h
      simp only [List.foldl_cons, List.foldl_nil]
      exact ⟨Cex.side1.1, trivial, Cex.side1.2⟩
    · simp only [List.cons_append, List.nil_append, List.cons.injEq] at h
      obtain ⟨rfl, rfl, rfl, _⟩ := h
      simp only [List.foldl_cons, List.foldl_nil]
      exact ⟨Cex.side2.1, trivial, Cex.side2.2⟩
    · simp only [List.cons_append, List.nil_append, List.cons.injEq] at h
      obtain ⟨_, _, _, h⟩ := h
      cases h
    · simp only [List.cons_append, List.cons.injEq] at h
      obtain ⟨_, _, _, h⟩ := h
      cases h)
  simp only [List.foldl_cons, List.foldl_nil] at h3
  exact Cex.not_mirror_w3 h3

/-- non-vacuity is checked on the implementation: Spec.C02 is evaluated after every transaction of
    every generated history (see evidence); here only that the definitions are consistent -/
example : MirrorOK { (default : World) with vamms := [] } := by
  intro a x h; simp [World.vamm?] at h

end Perp.Props.Mirror
