/-
  SatScope — refinement theorem for `Spec.C10.checkLiqScope` (`Spec.extraChecks6`): a `Liquidate{v, t}` leaves the stored
  records of `t` on every vAMM other than `v` exactly as they were.

  Proved in the stronger, key-level form `liquidate_scope`: a successful `Liquidate{v, t}` leaves EVERY stored record whose
  key `(vamm, trader)` differs from `(v, t)` unchanged, in stored order — whoever holds it and whoever sends the
  transaction.  Route: `Engine.liquidate` leaves `positions` alone and OVERWRITES the in-flight swap record with one naming
  `(v, t)` (`liquidate_key`); through the dispatcher only `Engine.replyOk` writes engine state
  (`WorldInv.execSubs_engine_invariant`), and every reply rewrites or removes only the record under the key of the in-flight
  swap record and keeps that key in flight (`replyOk_rk`, the key-level version of `SatA.C10.replyOk_rl`).

  Hypotheses: NONE.  `Engine.liquidate` replaces whatever in-flight swap / liquidator record was there before it emits its
  swap, so not even `WorldInv.NoResidue` is needed: `sat_C10_liqScope` / `sat_extra6` hold for every world, block, sender,
  funds and transaction.  The corollaries on `Capstone.Reachable` / `CapstoneTx.ReachableTx` worlds are therefore plain instances.

  §5: kernel-evaluated witnesses on a deployment with two vAMMs on both of which trader 101 holds a position — the clause is
  not vacuous (a), and real model liquidations (whole and partial) of (10, 101) leave the record (11, 101) alone (b).
-/
import Perp.Model.World
import Perp.Spec.World
import Perp.Spec.Scope
import Perp.Lemmas.Basic
import Perp.Props.ModelStep
import Perp.Props.WorldInv
import Perp.Props.Capstone
import Perp.Props.CapstoneTx

namespace Perp.Props.SatScope
open Perp Perp.World Perp.Engine Perp.Spec Perp.Props.ModelStep
open Perp.Props.Dispatch Perp.Props.EngineMoney Perp.Props.WorldInv
open Perp.Props.EngineGuards (Post)

/-! ## 1. the stored records outside a set of keys -/

/-- the stored records whose key `(vamm, trader)` lies outside `K`, in stored order -/
def keepK (K : Nat → Nat → Bool) (ps : List Position) : List Position :=
  ps.filter (fun p => !K p.vamm p.trader)

theorem keepK_erase (K : Nat → Nat → Bool) (ps : List Position) (v t : Nat) (hk : K v t = true) :
    keepK K (erasePosition ps v t) = keepK K ps := by
  unfold keepK erasePosition
  rw [List.filter_filter]
  apply List.filter_congr
  intro p _
  by_cases h1 : p.vamm = v
  · by_cases h2 : p.trader = t
    · simp [h1, h2, hk]
    · simp [h2]
  · simp [h1]

theorem keepK_store (K : Nat → Nat → Bool) (e e' : E) (p : Position)
    (h : e'.positions = (storePosition e p).positions) (hk : K p.vamm p.trader = true) :
    keepK K e'.positions = keepK K e.positions := by
  rw [h]
  show keepK K (p :: erasePosition e.positions p.vamm p.trader) = _
  rw [← keepK_erase K e.positions p.vamm p.trader hk]
  unfold keepK
  rw [List.filter_cons]
  simp [hk]

theorem keepK_remove (K : Nat → Nat → Bool) (e e' : E) (p : Position)
    (h : e'.positions = (removePosition e p).positions) (hk : K p.vamm p.trader = true) :
    keepK K e'.positions = keepK K e.positions := by
  rw [h]
  exact keepK_erase K e.positions p.vamm p.trader hk

theorem keepK_same (K : Nat → Nat → Bool) {e e' : E} (h : e'.positions = e.positions) :
    keepK K e'.positions = keepK K e.positions := by rw [h]

/-- the record a reply works on carries the key of the in-flight swap record -/
theorem K_key (K : Nat → Nat → Bool) (env : Env) (e : E) (sw : TmpSwap) (h : K sw.vamm sw.trader = true) :
    K (getPosition env e sw.vamm sw.trader sw.side).vamm (getPosition env e sw.vamm sw.trader sw.side).trader = true := by
  rw [(getPosition_key env e sw.vamm sw.trader sw.side).1, (getPosition_key env e sw.vamm sw.trader sw.side).2]
  exact h

/-! ## 2. every reply writes only the key in flight, and keeps that key in flight -/

/-- a reply rewrites at most the stored record under the KEY of the in-flight swap record, and a swap record left in flight
    names the same key -/
def RK (e e' : E) : Prop :=
  (∀ K : Nat → Nat → Bool, (∀ sw, e.tmpSwap = some sw → K sw.vamm sw.trader = true) →
      keepK K e'.positions = keepK K e.positions)
  ∧ (∀ sw', e'.tmpSwap = some sw' → ∃ sw, e.tmpSwap = some sw ∧ sw'.vamm = sw.vamm ∧ sw'.trader = sw.trader)

macro "rk_leaf " hs:ident : tactic => `(tactic|
  (refine ⟨fun K hk => ?_, fun sw' h' => ?_⟩
   · first
      | exact keepK_same K rfl
      | exact keepK_store K _ _ _ rfl (K_key K _ _ _ (hk _ $hs))
      | exact keepK_remove K _ _ _ rfl (K_key K _ _ _ (hk _ $hs))
   · dsimp only [enterRestrictionMode, storeVammMap, storePosition, removePosition] at h'
     cases h' <;> exact ⟨_, $hs, rfl, rfl⟩))

theorem updatePositionReply_rk (q : Q) (e : E) (env : Env) (i o id : Nat) :
    Post (fun r => RK e r.1) (updatePositionReply q e env i o id) := by
  cases hs : e.tmpSwap with
  | none => unfold updatePositionReply; rw [hs]; post_walk [skip]
  | some sw =>
    unfold updatePositionReply
    rw [hs]
    post_walk [rk_leaf hs]

theorem reversePositionReply_rk (q : Q) (e : E) (env : Env) (o : Nat) :
    Post (fun r => RK e r.1) (reversePositionReply q e env o) := by
  cases hs : e.tmpSwap with
  | none => unfold reversePositionReply; rw [hs]; post_walk [skip]
  | some sw =>
    unfold reversePositionReply
    rw [hs]
    post_walk [rk_leaf hs]

theorem closePositionReply_rk (q : Q) (e : E) (env : Env) (o : Nat) :
    Post (fun r => RK e r.1) (closePositionReply q e env o) := by
  cases hs : e.tmpSwap with
  | none => unfold closePositionReply; rw [hs]; post_walk [skip]
  | some sw =>
    unfold closePositionReply
    rw [hs]
    post_walk [rk_leaf hs]

theorem partialClosePositionReply_rk (q : Q) (e : E) (env : Env) (i o : Nat) :
    Post (fun r => RK e r.1) (partialClosePositionReply q e env i o) := by
  cases hs : e.tmpSwap with
  | none => unfold partialClosePositionReply; rw [hs]; post_walk [skip]
  | some sw =>
    unfold partialClosePositionReply
    rw [hs]
    post_walk [rk_leaf hs]

theorem liquidateReply_rk (q : Q) (e : E) (env : Env) (o : Nat) :
    Post (fun r => RK e r.1) (liquidateReply q e env o) := by
  cases hs : e.tmpSwap with
  | none => unfold liquidateReply; rw [hs]; post_walk [skip]
  | some sw =>
    unfold liquidateReply
    rw [hs]
    post_walk [rk_leaf hs]

theorem partialLiquidationReply_rk (q : Q) (e : E) (env : Env) (i o : Nat) :
    Post (fun r => RK e r.1) (partialLiquidationReply q e env i o) := by
  cases hs : e.tmpSwap with
  | none => unfold partialLiquidationReply; rw [hs]; post_walk [skip]
  | some sw =>
    unfold partialLiquidationReply
    rw [hs]
    post_walk [rk_leaf hs]

theorem payFundingReply_rk (q : Q) (e : E) (env : Env) (pf : Integer) (v : Nat) :
    Post (fun r => RK e r.1) (payFundingReply q e env pf v) := by
  unfold payFundingReply
  post_walk [(
    have ha := appendCum_frame _ _ _ _ ‹appendCum _ _ _ = Except.ok _›
    exact ⟨fun K _ => keepK_same K ha.1, fun sw' h' => ⟨sw', by rw [← ha.2.1]; exact h', rfl, rfl⟩⟩)]

/-- every reply of the engine: only the key in flight is written, and it stays the key in flight -/
theorem replyOk_rk (q : Q) (e e' : E) (env : Env) (id : Nat) (ev : Ev) (subs : List SubMsg)
    (h : replyOk q e env id ev = .ok (e', subs)) : RK e e' := by
  have : Post (fun r => RK e r.1) (replyOk q e env id ev) := by
    unfold replyOk
    repeat' split
    all_goals try dsimp only []
    all_goals first
      | (with_reducible exact EngineGuards.Post_error)
      | (with_reducible exact payFundingReply_rk _ _ _ _ _)
      | (with_reducible exact updatePositionReply_rk _ _ _ _ _ _)
      | (with_reducible exact reversePositionReply_rk _ _ _ _)
      | (with_reducible exact closePositionReply_rk _ _ _ _)
      | (with_reducible exact partialClosePositionReply_rk _ _ _ _ _)
      | (with_reducible exact liquidateReply_rk _ _ _ _)
      | (with_reducible exact partialLiquidationReply_rk _ _ _ _ _)
  exact this _ h

/-! ## 3. `Engine.liquidate` puts exactly the named key in flight -/

theorem readPosition_vamm (e : E) (v t : Nat) (h : ¬ (readPosition e v t).size.value = 0) :
    (readPosition e v t).vamm = v := by
  rcases readPosition_key e v t with hk | hk
  · exact hk.1
  · rw [hk] at h; exact absurd rfl h

theorem partialLiquidation_key (q : Q) (e : E) (v t l : Nat) :
    Post (fun r => r.1.positions = e.positions
      ∧ ∃ tmp, r.1.tmpSwap = some tmp ∧ tmp.vamm = (readPosition e v t).vamm ∧ tmp.trader = (readPosition e v t).trader)
      (partialLiquidation q e v t l) := by
  unfold partialLiquidation
  post_walk [exact ⟨rfl, ⟨_, rfl, rfl, rfl⟩⟩]

/-- a successful `liquidate v t` writes no position and leaves a swap record naming `(v, t)` in flight — whatever in-flight
    record the engine held before (it is overwritten) -/
theorem liquidate_key (q : Q) (e : E) (env : Env) (s v t l : Nat) :
    Post (fun r => r.1.positions = e.positions ∧ ∃ tmp, r.1.tmpSwap = some tmp ∧ tmp.vamm = v ∧ tmp.trader = t)
      (liquidate q e env s v t l) := by
  unfold liquidate internalClosePosition
  post_walk [(
    have hv := readPosition_vamm _ _ _ ‹¬ (readPosition _ _ _).size.value = 0›
    have ht := readPosition_trader _ _ _ ‹¬ (readPosition _ _ _).size.value = 0›
    first
      | exact ⟨rfl, ⟨_, rfl, hv, ht⟩⟩
      | (have hp := partialLiquidation_key _ _ _ _ _ _ ‹partialLiquidation _ _ _ _ _ = Except.ok _›
         obtain ⟨h1, ⟨tmp, h2, h3, h4⟩⟩ := hp
         exact ⟨h1, ⟨tmp, h2, h3.trans hv, h4.trans ht⟩⟩))]

/-! ## 4. the transaction -/

/-- the key set `{(v, t)}` -/
def one (v t : Nat) : Nat → Nat → Bool := fun v' t' => v' == v && t' == t

/-- **Scope of a liquidation.**  A successful `Liquidate{v, t}` leaves every stored record whose key is outside a key set
    `K ∋ (v, t)` unchanged, in stored order.  Every world (no invariant assumed), every sender. -/
theorem liquidate_scopeK (w w' : World) (env : Env) (s : Nat) (f : Funds) (v t l : Nat)
    (h : applyTx w env s f (.engine (.liquidate v t l)) = .ok w') (K : Nat → Nat → Bool) (hK : K v t = true) :
    keepK K w'.engine.positions = keepK K w.engine.positions := by
  obtain ⟨w1, e1, subs, a1, _, _, _, _, _, hex, hrun⟩ := applyTx_engine_inv w w' env s f _ h
  have hex' : liquidate w1.q w1.engine env s v t l = .ok (e1, subs) := hex
  obtain ⟨hp, tmp, htmp, hv, ht⟩ := liquidate_key _ _ _ _ _ _ _ _ hex'
  dsimp only at hp htmp
  rw [a1] at hp
  have hP := execSubs_engine_invariant
    (fun e => keepK K e.positions = keepK K w.engine.positions
      ∧ (∀ sw, e.tmpSwap = some sw → sw.vamm = v ∧ sw.trader = t))
    (by
      intro q e e' env' id ev subs' hP hrep
      obtain ⟨r1, r2⟩ := replyOk_rk q e e' env' id ev subs' hrep
      refine ⟨?_, fun sw' hsw' => ?_⟩
      · rw [r1 K (fun sw hsw => by rw [(hP.2 sw hsw).1, (hP.2 sw hsw).2]; exact hK)]
        exact hP.1
      · obtain ⟨sw, hsw, heqv, heqt⟩ := r2 sw' hsw'
        rw [heqv, heqt]
        exact hP.2 sw hsw)
    FUEL { w1 with engine := e1 } w' subs hrun
    ⟨by show keepK K e1.positions = _; rw [hp], fun sw hsw => by
      have : e1.tmpSwap = some sw := hsw
      rw [htmp] at this
      cases this
      exact ⟨hv, ht⟩⟩
  exact hP.1

/-- every record other than `(v, t)` itself -/
theorem liquidate_scope (w w' : World) (env : Env) (s : Nat) (f : Funds) (v t l : Nat)
    (h : applyTx w env s f (.engine (.liquidate v t l)) = .ok w') :
    w'.engine.positions.filter (fun p => !(p.vamm == v && p.trader == t))
      = w.engine.positions.filter (fun p => !(p.vamm == v && p.trader == t)) :=
  liquidate_scopeK w w' env s f v t l h (one v t) (by simp [one])

/-- `elsewhere` is a further filter of the records outside `{(v, t)}` -/
theorem elsewhere_keepK (w : World) (v t : Nat) :
    Spec.C10.elsewhere w v t
      = (keepK (one v t) w.engine.positions).filter (fun p => p.trader == t && p.vamm != v) := by
  unfold Spec.C10.elsewhere keepK
  rw [List.filter_filter]
  apply List.filter_congr
  intro p _
  unfold one
  cases h1 : p.vamm == v <;> cases h2 : p.trader == t <;> simp [bne, h1]

/-- the named trader's records on the other vAMMs are the same list after a successful `Liquidate{v, t}` -/
theorem liquidate_elsewhere (w w' : World) (env : Env) (s : Nat) (f : Funds) (v t l : Nat)
    (h : applyTx w env s f (.engine (.liquidate v t l)) = .ok w') :
    Spec.C10.elsewhere w' v t = Spec.C10.elsewhere w v t := by
  rw [elsewhere_keepK, elsewhere_keepK, liquidate_scopeK w w' env s f v t l h (one v t) (by simp [one])]

/-- MAIN -/
theorem sat_C10_liqScope (w : World) (env : Env) (s : Nat) (f : Engine.Funds) (tx : World.Tx) :
    Spec.C10.checkLiqScope (modelStep w env s f tx) = [] := by
  have htx : (modelStep w env s f tx).tx = tx := by unfold modelStep; split <;> rfl
  have hpre : (modelStep w env s f tx).pre = w := by unfold modelStep; split <;> rfl
  have hpost : Spec.C10.elsewhere (modelStep w env s f tx).post = Spec.C10.elsewhere w ∨
      ∀ v t l, tx = .engine (.liquidate v t l) →
        Spec.C10.elsewhere (modelStep w env s f tx).post v t = Spec.C10.elsewhere w v t := by
    unfold modelStep
    cases h : applyTx w env s f tx with
    | error e => exact Or.inl rfl
    | ok w' =>
      refine Or.inr (fun v t l htx => ?_)
      subst htx
      exact liquidate_elsewhere w w' env s f v t l h
  unfold Spec.C10.checkLiqScope
  rw [htx, hpre]
  split
  · rename_i v t l
    split
    · rfl
    · have : Spec.C10.elsewhere (modelStep w env s f (.engine (.liquidate v t l))).post v t
          = Spec.C10.elsewhere w v t := by
        rcases hpost with h | h
        · rw [h]
        · exact h v t l rfl
      rw [this]
      simp [W.chk]
  · rfl

theorem sat_extra6 (w : World) (env : Env) (s : Nat) (f : Engine.Funds) (tx : World.Tx) :
    ∀ pc ∈ Spec.extraChecks6 (modelStep w env s f tx), pc.2 = [] := by
  intro pc hpc
  simp only [Spec.extraChecks6, List.mem_singleton] at hpc
  subst hpc
  exact sat_C10_liqScope w env s f tx

/-- the clauses of `extraChecks6`, as a record in the style of `SatRoles.ExtraClean5` -/
structure ExtraClean6 (st : Step) : Prop where
  c10liqScope : Spec.C10.checkLiqScope st = []

theorem extra6_clean (w : World) (env : Env) (s : Nat) (f : Engine.Funds) (tx : World.Tx) :
    ExtraClean6 (modelStep w env s f tx) := ⟨sat_C10_liqScope w env s f tx⟩

/-- on reachable worlds (no hypothesis had to be discharged by the invariant) -/
theorem reachable_sat_extra6 (w : World) (_hr : Capstone.Reachable w) (env : Env) (s : Nat) (f : Engine.Funds)
    (tx : World.Tx) : ∀ pc ∈ Spec.extraChecks6 (modelStep w env s f tx), pc.2 = [] :=
  sat_extra6 w env s f tx

theorem reachableTx_sat_extra6 (w : World) (_hr : CapstoneTx.ReachableTx w) (env : Env) (s : Nat) (f : Engine.Funds)
    (tx : World.Tx) : ∀ pc ∈ Spec.extraChecks6 (modelStep w env s f tx), pc.2 = [] :=
  sat_extra6 w env s f tx

/-! ## 5. witnesses (kernel-evaluated)

  A cw20 deployment with TWO vAMMs (10 and 11, reserves 1000 / 1000, price 1, oracle 1), maintenance ratio 5 %,
  liquidation fee 2.5 %.  Trader 101 holds a long of 10 base (open notional 10) on BOTH: on vAMM 11 with margin 5
  (ratio 49.5 %, healthy), on vAMM 10 with a thin margin (`mA`).  Account 102 is the liquidator. -/

namespace Witness

def D : Nat := 1000000

def vm : Vamm.V :=
  { cfg := { owner := 50, marginEngine := ENGINE, insuranceFund := IFUND, pricefeed := FEED, holdingCap := 0,
             oiCap := 0, decimals := D, toll := 1000, spread := 2000, fluct := 0, twapInterval := 3600,
             fundingPeriod := 3600, fundingBuffer := 1800 },
    st := { isOpen := true, quote := 1000 * D, base := 1000 * D, net := ⟨10 * D, false⟩,
            fundingRate := Integer.zero, nextFunding := 0, snaps := [⟨1000 * D, 1000 * D, 0, 1⟩] } }

/-- 101's record on vAMM 10 (to be liquidated), margin `m` -/
def recA (m : Nat) : Position := ⟨10, 101, .addToAmm, ⟨10 * D, false⟩, m, 10 * D, Integer.zero, 5⟩
/-- 101's record on vAMM 11 (the OTHER vAMM), margin `m` -/
def recB (m : Nat) : Position := ⟨11, 101, .addToAmm, ⟨10 * D, false⟩, m, 10 * D, Integer.zero, 5⟩

def eng (plr : Nat) (ps : List Position) : E :=
  { cfg := { owner := 60, insuranceFund := IFUND, feePool := FEEPOOL, native := false, decimals := D,
             imr := 100000, mmr := 50000, plr := plr, liqFee := 25000 },
    st := ⟨20 * D, 0, false⟩, pauser := 60, whitelist := [], positions := ps, vammMaps := [],
    tmpSwap := none, sentFunds := none, tmpLiq := none }

/-- partial-liquidation ratio `plr`, stored records `ps` -/
def w2 (plr : Nat) (ps : List Position) : World :=
  { env := ⟨9, 9000⟩, engine := eng plr ps, vamms := [(10, vm), (11, vm)],
    ifund := { owner := 61, engine := ENGINE, vamms := [10, 11], stored := true },
    feePool := { owner := 62, tokens := [5] },
    feed := .mock { owner := 63, price := some D },
    ledger := { bal := [(101, 100 * D), (102, 0), (ENGINE, 100 * D), (IFUND, 5000 * D), (FEEPOOL, 0)],
                allow := [(101, 100 * D)] } }

def envA : Env := ⟨10, 10000⟩
def liqTx : Tx := .engine (.liquidate 10 101 0)
def TAG : String := "liquidation-changed-the-named-traders-position-on-another-vamm"

/-- whole liquidation: no partial-liquidation ratio, margin 0.3 on vAMM 10 (ratio 2.0299 % < 5 %) -/
def wFull : World := w2 0 [recA 300000, recB (5 * D)]
/-- partial liquidation: ratio 25 %, margin 0.45 on vAMM 10 (ratio 3.5449 %: below maintenance, above the
    liquidation fee); the record of the other vAMM is stored FIRST -/
def wPart : World := w2 250000 [recB (5 * D), recA 450000]

/-- a hand-made observation: `Liquidate{10, 101}` sent by 102, after which 101's record on vAMM 11 has lost one unit
    of margin (and nothing else differs) -/
def fakeStep : Step :=
  { pre := wFull, post := { wFull with engine := { wFull.engine with positions := [recA 300000, recB (5 * D - 1)] } },
    env := envA, sender := 102, funds := ⟨0, false⟩, tx := liqTx, ok := true, xfers := [], residue := false }

/-- the same, but the difference is in the liquidated record `(10, 101)` itself -/
def fakeStepSameKey : Step :=
  { fakeStep with post := { wFull with engine := { wFull.engine with positions := [recA 299999, recB (5 * D)] } } }

set_option maxRecDepth 100000 in
/-- **(a)** the clause is not vacuous: it reports a change of the named trader's record on the other vAMM, accepts a
    change of the liquidated record, and does not judge a self-liquidation (which C10 allows anyway) -/
theorem clause_not_vacuous :
    Spec.C10.checkLiqScope fakeStep = [TAG]
    ∧ Spec.extraChecks6 fakeStep = [("C10", [TAG])]
    ∧ Spec.C10.checkLiqScope fakeStepSameKey = []
    ∧ Spec.C10.checkLiqScope { fakeStep with sender := 101 } = [] := by
  decide +kernel

set_option maxRecDepth 100000 in
/-- **(b), whole liquidation**: (10, 101) is below maintenance, 102's `Liquidate{10, 101}` succeeds and REMOVES that
    record (fee 0.123762 to the liquidator, remaining margin 0.077228 to the insurance fund); the record (11, 101) is
    as it was and the clause is empty -/
theorem real_liquidation_full :
    queryMarginRatio wFull.q wFull.engine 10 101 = .ok ⟨20299, false⟩
    ∧ (modelStep wFull envA 102 ⟨0, false⟩ liqTx).ok = true
    ∧ (modelStep wFull envA 102 ⟨0, false⟩ liqTx).post.engine.positions = [recB (5 * D)]
    ∧ (modelStep wFull envA 102 ⟨0, false⟩ liqTx).xfers = [(ENGINE, IFUND, 77228), (ENGINE, 102, 123762)]
    ∧ Spec.C10.elsewhere (modelStep wFull envA 102 ⟨0, false⟩ liqTx).post 10 101 = [recB (5 * D)]
    ∧ Spec.C10.checkLiqScope (modelStep wFull envA 102 ⟨0, false⟩ liqTx) = [] := by
  decide +kernel

set_option maxRecDepth 100000 in
/-- **(b), partial liquidation**: 102's `Liquidate{10, 101}` succeeds and REWRITES the record (10, 101) (size 10 → 7.5,
    margin 0.45 → 0.362904; the rewritten record moves to the head of the stored list); the record (11, 101) is as it
    was and the clause is empty.  A `Liquidate{11, 101}` of the healthy record is rejected (guard 57), clause empty. -/
theorem real_liquidation_partial :
    queryMarginRatio wPart.q wPart.engine 10 101 = .ok ⟨35449, false⟩
    ∧ (modelStep wPart envA 102 ⟨0, false⟩ liqTx).ok = true
    ∧ (modelStep wPart envA 102 ⟨0, false⟩ liqTx).post.engine.positions
        = [⟨10, 101, .addToAmm, ⟨7500000, false⟩, 362904, 7481483, Integer.zero, 5⟩, recB (5 * D)]
    ∧ Spec.C10.elsewhere (modelStep wPart envA 102 ⟨0, false⟩ liqTx).post 10 101 = [recB (5 * D)]
    ∧ Spec.C10.checkLiqScope (modelStep wPart envA 102 ⟨0, false⟩ liqTx) = []
    ∧ applyTx wPart envA 102 ⟨0, false⟩ (.engine (.liquidate 11 101 0)) = .error (.guard 57)
    ∧ Spec.C10.checkLiqScope (modelStep wPart envA 102 ⟨0, false⟩ (.engine (.liquidate 11 101 0))) = [] := by
  decide +kernel

/-- a world holding a STALE in-flight swap record that names another key, (11, 101), and a stale liquidator record
    (excluded from reachable worlds by `WorldInv.noResidue_step`; `sat_C10_liqScope` does not assume it away) -/
def wStale : World :=
  { wFull with engine := { wFull.engine with
      tmpSwap := some ⟨11, 101, .sell, 10 * D, 0, 10 * D, 0, Integer.zero, Integer.zero, false⟩,
      sentFunds := some ⟨7, 0⟩, tmpLiq := some 999 } }

set_option maxRecDepth 100000 in
/-- the hypothesis-free statement at work: with stale in-flight records naming the OTHER key the liquidation still
    succeeds, still removes (10, 101) only — `liquidate` overwrites the records before its swap is dispatched — and the
    fee goes to the real liquidator -/
theorem stale_residue_harmless :
    (modelStep wStale envA 102 ⟨0, false⟩ liqTx).ok = true
    ∧ (modelStep wStale envA 102 ⟨0, false⟩ liqTx).post.engine.positions = [recB (5 * D)]
    ∧ (modelStep wStale envA 102 ⟨0, false⟩ liqTx).xfers = [(ENGINE, IFUND, 77228), (ENGINE, 102, 123762)]
    ∧ Spec.C10.checkLiqScope (modelStep wStale envA 102 ⟨0, false⟩ liqTx) = [] := by
  decide +kernel

end Witness

end Perp.Props.SatScope
