/-
  G3 — generic theorems about the host dispatcher model (`World.execMsg` / `World.execSubs` /
  `World.applyTx`): collateral conservation (C03a), no failure is swallowed (C08), frames.
  Statements were fixed before the proofs were written.
-/
import Perp.Model.World
import Perp.Lemmas.Basic
import Perp.Lemmas.Ledger

namespace Perp.Props.Dispatch
open Perp Perp.World

/-- total collateral recorded by the ledger -/
def total (g : Ledger) : Nat := (g.bal.map (·.2)).foldl (· + ·) 0

/-- each account appears at most once -/
def KeysNodup (g : Ledger) : Prop := (g.bal.map (·.1)).Nodup

/-! ### ledger primitives -/

theorem total_eq_sumv (g : Ledger) : total g = Ledger.sumv g.bal := Ledger.foldl_eq_sumv g.bal

theorem move_total (g g' : Ledger) (src dst amt : Nat) (hk : KeysNodup g)
    (h : Ledger.move g src dst amt = .ok g') : KeysNodup g' ∧ total g' = total g ∧ g'.allow = g.allow := by
  unfold Ledger.move at h
  split at h
  · cases h
  · rename_i h1
    simp only [] at h
    split at h
    · cases h
    · injection h with h
      subst h
      unfold KeysNodup at *
      have hk1 := Ledger.keys_set_nodup g.bal src (Ledger.balance g src - amt) hk
      refine ⟨Ledger.keys_set_nodup _ _ _ hk1, ?_, rfl⟩
      rw [total_eq_sumv, total_eq_sumv]
      have e1 := Ledger.sumv_set g.bal src (Ledger.balance g src - amt) hk
      have e2 := Ledger.sumv_set (Ledger.set g.bal src (Ledger.balance g src - amt)) dst
        (Ledger.balance { g with bal := Ledger.set g.bal src (Ledger.balance g src - amt) } dst + amt) hk1
      simp only [Ledger.balance] at *
      omega

theorem tokenTransfer_total (g g' : Ledger) (src dst amt : Nat) (hk : KeysNodup g)
    (h : Ledger.tokenTransfer g src dst amt = .ok g') : KeysNodup g' ∧ total g' = total g := by
  unfold Ledger.tokenTransfer at h
  split at h
  · cases h
  · have := move_total g g' src dst amt hk h
    exact ⟨this.1, this.2.1⟩

theorem tokenTransferFrom_total (g g' : Ledger) (owner dst amt : Nat) (hk : KeysNodup g)
    (h : Ledger.tokenTransferFrom g owner dst amt = .ok g') : KeysNodup g' ∧ total g' = total g := by
  unfold Ledger.tokenTransferFrom at h
  split at h
  · cases h
  · split at h
    · cases h
    · have := move_total { g with allow := Ledger.set g.allow owner (Ledger.get g.allow owner - amt) } g' owner dst amt hk h
      exact ⟨this.1, this.2.1⟩

theorem bankSend_total (g g' : Ledger) (src dst amt : Nat) (hk : KeysNodup g)
    (h : Ledger.bankSend g src dst amt = .ok g') : KeysNodup g' ∧ total g' = total g := by
  unfold Ledger.bankSend at h
  split at h
  · cases h
  · have := move_total g g' src dst amt hk h
    exact ⟨this.1, this.2.1⟩

/-- a ledger primitive changes at most the two balances it names -/
theorem move_frame (g g' : Ledger) (src dst amt a : Nat) (h : Ledger.move g src dst amt = .ok g')
    (h1 : a ≠ src) (h2 : a ≠ dst) : g'.balance a = g.balance a := by
  unfold Ledger.move at h
  split at h
  · cases h
  · simp only [] at h
    split at h
    · cases h
    · injection h with h
      subst h
      simp only [Ledger.balance]
      rw [Ledger.get_set_ne _ _ _ _ h2, Ledger.get_set_ne _ _ _ _ h1]

/-! ### the dispatcher conserves collateral (C03, first sentence), for every message tree -/

@[simp] theorem setVamm_ledger (w : World) (a : Nat) (v : Vamm.V) : (w.setVamm a v).ledger = w.ledger := rfl
@[simp] theorem setVamm_log (w : World) (a : Nat) (v : Vamm.V) : (w.setVamm a v).log = w.log := rfl
@[simp] theorem setVamm_engine (w : World) (a : Nat) (v : Vamm.V) : (w.setVamm a v).engine = w.engine := rfl
@[simp] theorem setVamm_env (w : World) (a : Nat) (v : Vamm.V) : (w.setVamm a v).env = w.env := rfl
@[simp] theorem setVamm_ifund (w : World) (a : Nat) (v : Vamm.V) : (w.setVamm a v).ifund = w.ifund := rfl
@[simp] theorem setVamm_feePool (w : World) (a : Nat) (v : Vamm.V) : (w.setVamm a v).feePool = w.feePool := rfl
@[simp] theorem setVamm_feed (w : World) (a : Nat) (v : Vamm.V) : (w.setVamm a v).feed = w.feed := rfl

theorem exmap_ok {ε α β : Type} (f : α → β) (x : Except ε α) (r : β) :
    x.map f = .ok r ↔ ∃ v, x = .ok v ∧ f v = r := by
  cases x <;> simp [Except.map]

theorem exec_total (fuel : Nat) :
    (∀ w sender m w' ev, execMsg fuel w sender m = .ok (w', ev) → KeysNodup w.ledger →
        KeysNodup w'.ledger ∧ total w'.ledger = total w.ledger)
    ∧ (∀ w c subs w', execSubs fuel w c subs = .ok w' → KeysNodup w.ledger →
        KeysNodup w'.ledger ∧ total w'.ledger = total w.ledger) := by
  induction fuel with
  | zero =>
    constructor
    · intro w sender m w' ev h; unfold execMsg at h; cases h
    · intro w c subs w' h; unfold execSubs at h; cases h
  | succ fuel ih =>
    constructor
    · intro w sender m w' ev h hk
      unfold execMsg at h
      cases m with
      | vammSwapInput a d x l g =>
        simp at h
        obtain ⟨v, _, _, _, _, rfl, _⟩ := h
        exact ⟨hk, rfl⟩
      | vammSwapOutput a d x l =>
        simp at h
        obtain ⟨v, _, _, _, _, rfl, _⟩ := h
        exact ⟨hk, rfl⟩
      | vammSettle a =>
        simp at h
        obtain ⟨v, _, _, _, _, rfl, _⟩ := h
        exact ⟨hk, rfl⟩
      | vammSetOpen a o =>
        simp at h
        obtain ⟨v, _, _, _, rfl, _⟩ := h
        exact ⟨hk, rfl⟩
      | tokenTransfer to amt =>
        simp at h
        obtain ⟨g, hg, rfl, _⟩ := h
        exact tokenTransfer_total _ _ _ _ _ hk hg
      | tokenTransferFrom owner to amt =>
        try simp only [] at h
        split at h
        · cases h
        simp at h
        obtain ⟨g, hg, rfl, _⟩ := h
        exact tokenTransferFrom_total _ _ _ _ _ hk hg
      | bankSend to amt =>
        simp at h
        obtain ⟨g, hg, rfl, _⟩ := h
        exact bankSend_total _ _ _ _ _ hk hg
      | ifWithdraw amt =>
        try simp only [] at h
        split at h
        · cases h
        try simp only [] at h
        split at h
        · cases h
        simp at h
        obtain ⟨w1, hs, rfl, _⟩ := h
        exact ih.2 _ _ _ _ hs hk
    · intro w c subs w' h hk
      unfold execSubs at h
      cases subs with
      | nil => simp at h; subst h; exact ⟨hk, rfl⟩
      | cons s rest =>
        simp only [] at h
        cases hx : execMsg fuel w c s.msg with
        | error err =>
          simp only [hx] at h
          split at h
          · split at h
            · cases h
            · simp [Engine.replyErr] at h
          · cases h
        | ok r =>
          obtain ⟨w1, ev⟩ := r
          simp only [hx] at h
          have h1 := ih.1 _ _ _ _ _ hx hk
          split at h
          · split at h
            · cases h
            · split at h
              · rename_i e2 subs2 hr
                split at h
                · rename_i w3 h3
                  have h3' := ih.2 _ _ _ _ h3 h1.1
                  have h4 := ih.2 _ _ _ _ h h3'.1
                  exact ⟨h4.1, by rw [h4.2, h3'.2, h1.2]⟩
                · cases h
              · cases h
          · have h4 := ih.2 _ _ _ _ h h1.1
            exact ⟨h4.1, by rw [h4.2, h1.2]⟩

/-- every transaction of every kind conserves the total (a failed one changes nothing at all) -/
theorem applyTx_total (w w' : World) (env : Env) (s : Nat) (f : Engine.Funds) (tx : Tx)
    (hk : KeysNodup w.ledger) (h : applyTx w env s f tx = .ok w') :
    KeysNodup w'.ledger ∧ total w'.ledger = total w.ledger := by
  have hm : ∀ (w0 : World) m,
      (execMsg FUEL w0 s m).map (·.1) = .ok w' → w0.ledger = w.ledger → KeysNodup w'.ledger ∧ total w'.ledger = total w.ledger := by
    intro w0 m h' hl
    rw [exmap_ok] at h'
    obtain ⟨⟨w1, ev⟩, h', rfl⟩ := h'
    have := (exec_total FUEL).1 _ _ _ _ _ h' (hl ▸ hk)
    rw [hl] at this
    exact this
  have hs : ∀ (w0 : World) c subs,
      execSubs FUEL w0 c subs = .ok w' → w0.ledger = w.ledger → KeysNodup w'.ledger ∧ total w'.ledger = total w.ledger := by
    intro w0 c subs h' hl
    have := (exec_total FUEL).2 _ _ _ _ h' (hl ▸ hk)
    rw [hl] at this
    exact this
  unfold applyTx at h
  cases tx <;> dsimp only at h
  case engine m =>
    split at h
    · simp at h
      obtain ⟨w1, hg, e', subs, _, h⟩ := h
      obtain ⟨⟨w1', ev⟩, hg', rfl⟩ := (exmap_ok _ _ _).1 hg
      have h1 := (exec_total FUEL).1 _ _ _ _ _ hg' hk
      have := (exec_total FUEL).2 _ _ _ _ h h1.1
      exact ⟨this.1, by rw [this.2]; exact h1.2⟩
    · simp at h
      obtain ⟨e', subs, _, h⟩ := h
      exact hs _ _ _ h rfl
  case vammSwapInput v dir amt lim cgo => exact hm _ _ h rfl
  case vammSwapOutput v dir amt lim => exact hm _ _ h rfl
  case vammSettle v => exact hm _ _ h rfl
  case vammSetOpen v o => exact hm _ _ h rfl
  case vammConfig v u =>
    simp at h
    obtain ⟨_, _, _, _, rfl⟩ := h
    exact ⟨hk, rfl⟩
  case vammOwner v n =>
    simp at h
    obtain ⟨_, _, _, _, rfl⟩ := h
    exact ⟨hk, rfl⟩
  case ifAdd v =>
    simp at h
    obtain ⟨_, _, rfl⟩ := h
    exact ⟨hk, rfl⟩
  case ifRemove v =>
    simp at h
    obtain ⟨_, _, rfl⟩ := h
    exact ⟨hk, rfl⟩
  case ifShutdown =>
    split at h
    · cases h
    · split at h
      · cases h
      · exact hs _ _ _ h rfl
  case ifWithdraw amt => exact hm _ _ h rfl
  case ifOwner n =>
    simp at h
    obtain ⟨_, _, rfl⟩ := h
    exact ⟨hk, rfl⟩
  case fpAdd tok =>
    simp at h
    obtain ⟨_, _, rfl⟩ := h
    exact ⟨hk, rfl⟩
  case fpRemove tok =>
    simp at h
    obtain ⟨_, _, rfl⟩ := h
    exact ⟨hk, rfl⟩
  case fpSend tok amt to =>
    repeat' split at h
    all_goals first | exact hs _ _ _ h rfl | cases h
  case fpOwner n =>
    simp at h
    obtain ⟨_, _, rfl⟩ := h
    exact ⟨hk, rfl⟩
  case oracle price ts =>
    split at h
    · injection h with h; subst h; exact ⟨hk, rfl⟩
    · simp at h
      obtain ⟨_, _, rfl⟩ := h
      exact ⟨hk, rfl⟩
  case feedOwner n =>
    split at h
    · split at h
      · cases h
      · injection h with h; subst h; exact ⟨hk, rfl⟩
    · simp at h
      obtain ⟨_, _, rfl⟩ := h
      exact ⟨hk, rfl⟩
  case tokenApprove amt =>
    repeat' split at h
    all_goals first | (injection h with h; subst h; exact ⟨hk, rfl⟩) | cases h
  case tokenDecrease amt =>
    repeat' split at h
    all_goals first | (injection h with h; subst h; exact ⟨hk, rfl⟩) | cases h
  case tokenTransfer to amt =>
    split at h
    · cases h
    · exact hm _ _ h rfl
  case bankSend to amt =>
    split at h
    · cases h
    · exact hm _ _ h rfl

theorem step_total (w : World) (env : Env) (s : Nat) (f : Engine.Funds) (tx : Tx) (hk : KeysNodup w.ledger) :
    KeysNodup (step w env s f tx).ledger ∧ total (step w env s f tx).ledger = total w.ledger := by
  unfold step
  split
  · rename_i w' h
    exact applyTx_total w w' env s f tx hk h
  · exact ⟨hk, rfl⟩

/-! ### no failure is swallowed (C08) -/

/-- the engine's `reply` turns every reported failure into a failure -/
theorem replyErr_is_error (e : Engine.E) (id : Nat) : ∃ x, Engine.replyErr e id = .error x :=
  ⟨_, rfl⟩

/-- a failing sub-message of the engine with `ReplyOn::Always` / `ReplyOn::Error` fails the whole response -/
theorem execSubs_head_error (fuel : Nat) (w : World) (s : SubMsg) (rest : List SubMsg) (e : Err)
    (hr : s.replyOn = .always ∨ s.replyOn = .error)
    (h : execMsg fuel w ENGINE s.msg = .error e) :
    ∃ e', execSubs (fuel + 1) w ENGINE (s :: rest) = .error e' := by
  unfold execSubs
  simp [h, hr, Engine.replyErr]

/-- a failing sub-message with `ReplyOn::Never` / `Success` fails the response of any contract -/
theorem execSubs_head_error_never (fuel : Nat) (w : World) (c : Nat) (s : SubMsg) (rest : List SubMsg) (e : Err)
    (hr : s.replyOn = .never ∨ s.replyOn = .success)
    (h : execMsg fuel w c s.msg = .error e) :
    ∃ e', execSubs (fuel + 1) w c (s :: rest) = .error e' := by
  unfold execSubs
  have : ¬ (s.replyOn = .always ∨ s.replyOn = .error) := by
    rcases hr with hr | hr <;> simp [hr]
  simp [h, this]

/-- success of a response implies success of its first sub-message, of the reply to it (when one is
    due) together with everything that reply dispatched, and of the remaining sub-messages -/
theorem execSubs_cons_ok (fuel : Nat) (w w' : World) (c : Nat) (s : SubMsg) (rest : List SubMsg)
    (h : execSubs (fuel + 1) w c (s :: rest) = .ok w') :
    ∃ w1 ev, execMsg fuel w c s.msg = .ok (w1, ev) ∧
      ((s.replyOn = .always ∨ s.replyOn = .success) →
        c = ENGINE ∧ ∃ e2 subs2 w3, Engine.replyOk w1.q w1.engine w1.env s.id ev = .ok (e2, subs2)
          ∧ execSubs fuel { w1 with engine := e2 } c subs2 = .ok w3 ∧ execSubs fuel w3 c rest = .ok w')
      ∧ (¬ (s.replyOn = .always ∨ s.replyOn = .success) → execSubs fuel w1 c rest = .ok w') := by
  unfold execSubs at h
  simp only [] at h
  cases hx : execMsg fuel w c s.msg with
  | error err =>
    simp only [hx] at h
    split at h
    · split at h
      · cases h
      · simp [Engine.replyErr] at h
    · cases h
  | ok r =>
    obtain ⟨w1, ev⟩ := r
    simp only [hx] at h
    refine ⟨w1, ev, rfl, ?_, ?_⟩
    · intro hr
      rw [if_pos hr] at h
      split at h
      · cases h
      · rename_i hc
        refine ⟨Decidable.not_not.mp hc, ?_⟩
        split at h
        · rename_i e2 subs2 hr
          split at h
          · rename_i w3 h3
            exact ⟨e2, subs2, w3, hr, h3, h⟩
          · cases h
        · cases h
    · intro hr
      rw [if_neg hr] at h
      exact h

/-! ### frames -/

/-- executing a message (of any kind, by any sender) never writes the engine's state; replies do -/
theorem execMsg_engine_frame (fuel : Nat) :
    (∀ w sender m w' ev, execMsg fuel w sender m = .ok (w', ev) → w'.engine = w.engine ∧ w'.env = w.env
        ∧ w'.ifund = w.ifund ∧ w'.feePool = w.feePool ∧ w'.feed = w.feed)
    ∧ (∀ w c subs w', c ≠ ENGINE → execSubs fuel w c subs = .ok w' → w'.engine = w.engine ∧ w'.env = w.env
        ∧ w'.ifund = w.ifund ∧ w'.feePool = w.feePool ∧ w'.feed = w.feed) := by
  induction fuel with
  | zero =>
    constructor
    · intro w sender m w' ev h; unfold execMsg at h; cases h
    · intro w c subs w' _ h; unfold execSubs at h; cases h
  | succ fuel ih =>
    constructor
    · intro w sender m w' ev h
      unfold execMsg at h
      cases m with
      | vammSwapInput a d x l g =>
        simp at h
        obtain ⟨v, _, _, _, _, rfl, _⟩ := h
        simp
      | vammSwapOutput a d x l =>
        simp at h
        obtain ⟨v, _, _, _, _, rfl, _⟩ := h
        simp
      | vammSettle a =>
        simp at h
        obtain ⟨v, _, _, _, _, rfl, _⟩ := h
        simp
      | vammSetOpen a o =>
        simp at h
        obtain ⟨v, _, _, _, rfl, _⟩ := h
        simp
      | tokenTransfer to amt =>
        simp at h
        obtain ⟨g, hg, rfl, _⟩ := h
        simp
      | tokenTransferFrom owner to amt =>
        try simp only [] at h
        split at h
        · cases h
        simp at h
        obtain ⟨g, hg, rfl, _⟩ := h
        simp
      | bankSend to amt =>
        simp at h
        obtain ⟨g, hg, rfl, _⟩ := h
        simp
      | ifWithdraw amt =>
        try simp only [] at h
        split at h
        · cases h
        try simp only [] at h
        split at h
        · cases h
        simp at h
        obtain ⟨w1, hs, rfl, _⟩ := h
        exact ih.2 _ _ _ _ (by decide) hs
    · intro w c subs w' hc h
      unfold execSubs at h
      cases subs with
      | nil => simp at h; subst h; simp
      | cons s rest =>
        simp only [] at h
        cases hx : execMsg fuel w c s.msg with
        | error err =>
          simp only [hx] at h
          repeat' split at h
          all_goals cases h
        | ok r =>
          obtain ⟨w1, ev⟩ := r
          simp only [hx] at h
          have h1 := ih.1 _ _ _ _ _ hx
          by_cases hr : (s.replyOn = .always ∨ s.replyOn = .success)
          · rw [if_pos hr, if_pos hc] at h; cases h
          · rw [if_neg hr] at h
            have h4 := ih.2 _ _ _ _ hc h
            obtain ⟨a1, a2, a3, a4, a5⟩ := h1
            obtain ⟨b1, b2, b3, b4, b5⟩ := h4
            exact ⟨b1.trans a1, b2.trans a2, b3.trans a3, b4.trans a4, b5.trans a5⟩

theorem find_setVamm_ne (l : List (Nat × Vamm.V)) (a b : Nat) (v : Vamm.V) (h : a ≠ b) :
    (l.map (fun p => if p.1 == b then (b, v) else p)).find? (fun p => p.1 == a)
      = l.find? (fun p => p.1 == a) := by
  induction l with
  | nil => rfl
  | cons p l ih =>
    have e1 : ((if p.1 == b then (b, v) else p).1 == a) = (p.1 == a) := by
      by_cases hp : p.1 = b
      · simp [hp]
      · simp [hp]
    have e2 : (p.1 == a) = true → (if p.1 == b then (b, v) else p) = p := by
      intro hpa
      have : ¬ p.1 = b := by
        intro e
        have : p.1 = a := by simpa using hpa
        omega
      simp [this]
    rw [List.map_cons, List.find?_cons, List.find?_cons, e1]
    cases hpa : (p.1 == a) with
    | false => exact ih
    | true => simp only []; rw [e2 hpa]

theorem setVamm_vamm_ne (w : World) (a b : Nat) (v : Vamm.V) (h : a ≠ b) :
    (w.setVamm b v).vamm? a = w.vamm? a := by
  unfold vamm? setVamm
  simp only []
  rw [find_setVamm_ne _ _ _ _ h]

/-- a single collateral sub-message (no reply) leaves the vAMMs alone -/
theorem execSubs_coll_vamms (fuel : Nat) (w w' : World) (c : Nat) (s : SubMsg)
    (hs : (∃ to amt, s.msg = .bankSend to amt) ∨ (∃ to amt, s.msg = .tokenTransfer to amt))
    (hr : s.replyOn = .never)
    (h : execSubs fuel w c [s] = .ok w') : w'.vamms = w.vamms := by
  cases fuel with
  | zero => unfold execSubs at h; cases h
  | succ fuel =>
    unfold execSubs at h
    simp only [hr] at h
    cases hx : execMsg fuel w c s.msg with
    | error err => simp [hx] at h
    | ok r =>
      obtain ⟨w1, ev⟩ := r
      simp [hx] at h
      have h1 : w1.vamms = w.vamms := by
        cases fuel with
        | zero => unfold execMsg at hx; cases hx
        | succ fuel =>
          unfold execMsg at hx
          rcases hs with ⟨to, amt, hs⟩ | ⟨to, amt, hs⟩
          · rw [hs] at hx
            simp at hx
            obtain ⟨g, hg, rfl, _⟩ := hx
            rfl
          · rw [hs] at hx
            simp at hx
            obtain ⟨g, hg, rfl, _⟩ := hx
            rfl
      cases fuel with
      | zero => unfold execSubs at h; cases h
      | succ fuel =>
        unfold execSubs at h
        simp at h
        subst h
        exact h1

/-- collateral messages leave every vAMM untouched; a vAMM message touches only the addressed vAMM -/
theorem execMsg_vamm_frame (fuel : Nat) (w w' : World) (sender : Nat) (m : Msg) (ev : Ev) (a : Nat)
    (h : execMsg fuel w sender m = .ok (w', ev))
    (hm : ∀ d x l g, m ≠ .vammSwapInput a d x l g) (hm2 : ∀ d x l, m ≠ .vammSwapOutput a d x l)
    (hm3 : m ≠ .vammSettle a) (hm4 : ∀ o, m ≠ .vammSetOpen a o) :
    w'.vamm? a = w.vamm? a := by
  cases fuel with
  | zero => unfold execMsg at h; cases h
  | succ fuel =>
    unfold execMsg at h
    cases m with
    | vammSwapInput b d x l g =>
      simp at h
      obtain ⟨v, _, _, _, _, rfl, _⟩ := h
      apply setVamm_vamm_ne
      intro e; subst e; exact hm d x l g rfl
    | vammSwapOutput b d x l =>
      simp at h
      obtain ⟨v, _, _, _, _, rfl, _⟩ := h
      apply setVamm_vamm_ne
      intro e; subst e; exact hm2 d x l rfl
    | vammSettle b =>
      simp at h
      obtain ⟨v, _, _, _, _, rfl, _⟩ := h
      apply setVamm_vamm_ne
      intro e; subst e; exact hm3 rfl
    | vammSetOpen b o =>
      simp at h
      obtain ⟨v, _, _, _, rfl, _⟩ := h
      apply setVamm_vamm_ne
      intro e; subst e; exact hm4 o rfl
    | tokenTransfer to amt =>
      simp at h
      obtain ⟨g, hg, rfl, _⟩ := h
      rfl
    | tokenTransferFrom owner to amt =>
      try simp only [] at h
      split at h
      · cases h
      simp at h
      obtain ⟨g, hg, rfl, _⟩ := h
      rfl
    | bankSend to amt =>
      simp at h
      obtain ⟨g, hg, rfl, _⟩ := h
      rfl
    | ifWithdraw amt =>
      try simp only [] at h
      split at h
      · cases h
      split at h
      · cases h
      simp at h
      obtain ⟨w1, hs, rfl, _⟩ := h
      have := execSubs_coll_vamms _ _ _ _ _ (by split <;> simp) (by split <;> rfl) hs
      unfold vamm?
      rw [this]

/-- vAMM messages move no collateral -/
theorem execMsg_vamm_ledger (fuel : Nat) (w w' : World) (sender : Nat) (m : Msg) (ev : Ev)
    (h : execMsg fuel w sender m = .ok (w', ev))
    (hm : (∃ a d x l g, m = .vammSwapInput a d x l g) ∨ (∃ a d x l, m = .vammSwapOutput a d x l)
          ∨ (∃ a, m = .vammSettle a) ∨ (∃ a o, m = .vammSetOpen a o)) :
    w'.ledger = w.ledger ∧ w'.log = w.log := by
  cases fuel with
  | zero => unfold execMsg at h; cases h
  | succ fuel =>
    unfold execMsg at h
    rcases hm with ⟨a, d, x, l, g, rfl⟩ | ⟨a, d, x, l, rfl⟩ | ⟨a, rfl⟩ | ⟨a, o, rfl⟩
    · simp at h
      obtain ⟨v, _, _, _, _, rfl, _⟩ := h
      exact ⟨rfl, rfl⟩
    · simp at h
      obtain ⟨v, _, _, _, _, rfl, _⟩ := h
      exact ⟨rfl, rfl⟩
    · simp at h
      obtain ⟨v, _, _, _, _, rfl, _⟩ := h
      exact ⟨rfl, rfl⟩
    · simp at h
      obtain ⟨v, _, _, _, rfl, _⟩ := h
      exact ⟨rfl, rfl⟩

end Perp.Props.Dispatch
