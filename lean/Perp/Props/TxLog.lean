/-
  Transaction-level bookkeeping for the money theorems (C04, C12): the ghost log of collateral
  transfers is an exact account of the ledger (`applyTx_LL`), a run of fire-and-forget collateral
  messages of the engine appends exactly their entries (`run_CE`), the head of an engine
  transaction (`tx_decomp`), a swap with its reply (`swap_reply`), and what a swap does to the
  quote reserve (`swapOut_exec`, `swapIn_exec`).
-/
import Perp.Model.World
import Perp.Spec.World
import Perp.Lemmas.Basic
import Perp.Lemmas.Ledger
import Perp.Props.Dispatch
import Perp.Props.EngineGuards
import Perp.Props.EngineMoney
import Perp.Props.WorldInv
import Perp.Props.G9Perm
import Perp.Props.C17
import Perp.Props.Mirror.Walk
import Perp.Props.Mirror.VammSide

namespace Perp.Props.TxLog
open Perp Perp.World Perp.Engine
open Perp.Props.Dispatch Perp.Props.WorldInv
open Perp.Props.MirrorP (IsColl CE AllCE AllCE_tail)

/-! ### sums over the log -/

abbrev Xf := Nat × Nat × Nat

/-- total amount of the log entries selected by `P` (the shape `Spec.W.inflow` / `Spec.W.flow` use) -/
def tot (P : Xf → Bool) (l : List Xf) : Int :=
  ((l.filter P).map (fun x => (x.2.2 : Int))).foldl (· + ·) 0

theorem foldl_add_int (l : List Int) (acc : Int) : l.foldl (· + ·) acc = acc + l.foldl (· + ·) 0 := by
  induction l generalizing acc with
  | nil => simp
  | cons x l ih =>
    simp only [List.foldl_cons]
    rw [ih (acc + x), ih (0 + x)]
    omega

@[simp] theorem tot_nil (P : Xf → Bool) : tot P [] = 0 := rfl

theorem tot_cons (P : Xf → Bool) (x : Xf) (l : List Xf) :
    tot P (x :: l) = (if P x then (x.2.2 : Int) else 0) + tot P l := by
  unfold tot
  rw [List.filter_cons]
  split
  · simp only [List.map_cons, List.foldl_cons]
    rw [foldl_add_int]
    omega
  · omega

theorem tot_append (P : Xf → Bool) (a b : List Xf) : tot P (a ++ b) = tot P a + tot P b := by
  induction a with
  | nil => simp
  | cons x a ih =>
    rw [List.cons_append, tot_cons, tot_cons, ih]
    omega

theorem tot_single (P : Xf → Bool) (x : Xf) : tot P [x] = if P x then (x.2.2 : Int) else 0 := by
  rw [tot_cons, tot_nil]; omega

theorem tot_nonneg (P : Xf → Bool) (l : List Xf) : 0 ≤ tot P l := by
  induction l with
  | nil => simp
  | cons x l ih =>
    rw [tot_cons]
    split <;> omega

theorem inflow_eq (l : List Xf) (a : Nat) : Spec.W.inflow l a = tot (fun x => x.2.1 == a) l := rfl
theorem flow_eq (l : List Xf) (a b : Nat) : Spec.W.flow l a b = tot (fun x => x.1 == a && x.2.1 == b) l := rfl

/-- number of entries selected by `P` -/
def cnt (P : Xf → Bool) (l : List Xf) : Nat := (l.filter P).length

@[simp] theorem cnt_nil (P : Xf → Bool) : cnt P [] = 0 := rfl
theorem cnt_cons (P : Xf → Bool) (x : Xf) (l : List Xf) : cnt P (x :: l) = (if P x then 1 else 0) + cnt P l := by
  unfold cnt
  rw [List.filter_cons]
  split
  · simp only [List.length_cons]; omega
  · omega
theorem cnt_append (P : Xf → Bool) (a b : List Xf) : cnt P (a ++ b) = cnt P a + cnt P b := by
  unfold cnt
  rw [List.filter_append, List.length_append]
theorem cnt_single (P : Xf → Bool) (x : Xf) : cnt P [x] = if P x then 1 else 0 := by
  rw [cnt_cons, cnt_nil]; omega

/-! ### the log is an exact account of the ledger -/

theorem move_balance (g g' : Ledger) (src dst n a : Nat) (h : Ledger.move g src dst n = .ok g') :
    (g'.balance a : Int) = (g.balance a : Int) - (if a = src then (n : Int) else 0) + (if a = dst then (n : Int) else 0) := by
  unfold Ledger.move at h
  split at h
  · cases h
  · rename_i h1
    simp only [] at h
    split at h
    · cases h
    · injection h with h
      subst h
      simp only [Ledger.balance] at h1 ⊢
      by_cases hd : a = dst
      · subst hd
        rw [Ledger.get_set_self]
        by_cases hs : a = src
        · subst hs
          rw [Ledger.get_set_self]
          simp only [if_true]
          omega
        · rw [Ledger.get_set_ne _ _ _ _ hs]
          simp only [hs, if_false, if_true]
          omega
      · rw [Ledger.get_set_ne _ _ _ _ hd]
        by_cases hs : a = src
        · subst hs
          rw [Ledger.get_set_self]
          simp only [hd, if_true, if_false]
          omega
        · rw [Ledger.get_set_ne _ _ _ _ hs]
          simp only [hd, hs, if_false]
          omega

/-- balance = initial balance + logged inflow − logged outflow, for every account -/
def LL (bal0 : Nat → Int) (w : World) : Prop :=
  ∀ a, (w.ledger.balance a : Int)
    = bal0 a + tot (fun x => x.2.1 == a) w.log - tot (fun x => x.1 == a) w.log

theorem LL_step (bal0 : Nat → Int) (w : World) (g : Ledger) (x y n : Nat) (hw : LL bal0 w)
    (hg : ∀ a, (g.balance a : Int) = (w.ledger.balance a : Int) - (if a = x then (n : Int) else 0)
            + (if a = y then (n : Int) else 0)) :
    LL bal0 { w with ledger := g, log := w.log ++ [(x, y, n)] } := by
  intro a
  show (g.balance a : Int) = _
  rw [hg a, hw a]
  show _ = bal0 a + tot _ (w.log ++ [(x, y, n)]) - tot _ (w.log ++ [(x, y, n)])
  rw [tot_append, tot_append, tot_single, tot_single]
  simp only [beq_iff_eq]
  have e1 : (y = a) = (a = y) := propext ⟨Eq.symm, Eq.symm⟩
  have e2 : (x = a) = (a = x) := propext ⟨Eq.symm, Eq.symm⟩
  simp only [e1, e2]
  omega

theorem exec_LL (bal0 : Nat → Int) (fuel : Nat) :
    (∀ w sender m w' ev, execMsg fuel w sender m = .ok (w', ev) → LL bal0 w → LL bal0 w')
    ∧ (∀ w c subs w', execSubs fuel w c subs = .ok w' → LL bal0 w → LL bal0 w') := by
  induction fuel with
  | zero =>
    constructor
    · intro w sender m w' ev h; unfold execMsg at h; cases h
    · intro w c subs w' h; unfold execSubs at h; cases h
  | succ fuel ih =>
    constructor
    · intro w sender m w' ev h hk
      unfold execMsg at h
      cases m with
      | vammSwapInput a d x l g =>
        simp at h
        obtain ⟨v, _, _, _, _, rfl, _⟩ := h
        exact hk
      | vammSwapOutput a d x l =>
        simp at h
        obtain ⟨v, _, _, _, _, rfl, _⟩ := h
        exact hk
      | vammSettle a =>
        simp at h
        obtain ⟨v, _, _, _, _, rfl, _⟩ := h
        exact hk
      | vammSetOpen a o =>
        simp at h
        obtain ⟨v, _, _, _, rfl, _⟩ := h
        exact hk
      | tokenTransfer to n =>
        simp at h
        obtain ⟨g, hg, rfl, _⟩ := h
        refine LL_step bal0 w g sender to n hk (fun a => ?_)
        unfold Ledger.tokenTransfer at hg
        split at hg
        · cases hg
        · exact move_balance _ _ _ _ _ a hg
      | tokenTransferFrom owner to n =>
        try simp only [] at h
        split at h
        · cases h
        simp at h
        obtain ⟨g, hg, rfl, _⟩ := h
        refine LL_step bal0 w g owner to n hk (fun a => ?_)
        unfold Ledger.tokenTransferFrom at hg
        split at hg
        · cases hg
        · split at hg
          · cases hg
          · have := move_balance _ _ _ _ _ a hg
            exact this
      | bankSend to n =>
        simp at h
        obtain ⟨g, hg, rfl, _⟩ := h
        refine LL_step bal0 w g sender to n hk (fun a => ?_)
        unfold Ledger.bankSend at hg
        split at hg
        · cases hg
        · exact move_balance _ _ _ _ _ a hg
      | ifWithdraw n =>
        try simp only [] at h
        split at h
        · cases h
        try simp only [] at h
        split at h
        · cases h
        simp at h
        obtain ⟨w1, hs, rfl, _⟩ := h
        exact ih.2 _ _ _ _ hs hk
    · intro w c subs w' h hk
      unfold execSubs at h
      cases subs with
      | nil => simp at h; subst h; exact hk
      | cons s rest =>
        simp only [] at h
        cases hx : execMsg fuel w c s.msg with
        | error err =>
          simp only [hx] at h
          split at h
          · split at h
            · cases h
            · simp [Engine.replyErr] at h
          · cases h
        | ok r =>
          obtain ⟨w1, ev⟩ := r
          simp only [hx] at h
          have h1 := ih.1 _ _ _ _ _ hx hk
          split at h
          · split at h
            · cases h
            · split at h
              · rename_i e2 subs2 hr
                split at h
                · rename_i w3 h3
                  have h3' := ih.2 _ _ _ _ h3 h1
                  exact ih.2 _ _ _ _ h h3'
                · cases h
              · cases h
          · exact ih.2 _ _ _ _ h h1

/-! ### collateral messages of the engine append exactly their entry -/

/-- the ledger entry an engine-dispatched collateral message produces -/
def xf : Msg → Xf
  | .tokenTransfer to a => (ENGINE, to, a)
  | .tokenTransferFrom o to a => (o, to, a)
  | .bankSend to a => (ENGINE, to, a)
  | .ifWithdraw a => (IFUND, ENGINE, a)
  | _ => (0, 0, 0)

/-- everything but the ledger, the log (and the fee pool / feed, which engine flows never touch) is the same -/
structure Same (w w1 : World) : Prop where
  engine : w1.engine = w.engine
  vamms : w1.vamms = w.vamms
  env : w1.env = w.env
  ifund : w1.ifund = w.ifund

theorem Same.refl (w : World) : Same w w := ⟨rfl, rfl, rfl, rfl⟩
theorem Same.trans {a b c : World} (h1 : Same a b) (h2 : Same b c) : Same a c :=
  ⟨h2.engine.trans h1.engine, h2.vamms.trans h1.vamms, h2.env.trans h1.env, h2.ifund.trans h1.ifund⟩

theorem Same.vamm? {w w1 : World} (h : Same w w1) (a : Nat) : w1.vamm? a = w.vamm? a := by
  unfold World.vamm?; rw [h.vamms]

theorem execMsg_xfer_inv (fuel : Nat) (w w1 : World) (s : Nat) (m : Msg) (ev : Ev)
    (hm : (∃ to n, m = .tokenTransfer to n) ∨ (∃ to n, m = .bankSend to n))
    (h : execMsg fuel w s m = .ok (w1, ev)) :
    ∃ g to n, (m = .tokenTransfer to n ∨ m = .bankSend to n)
      ∧ w1 = { w with ledger := g, log := w.log ++ [(s, to, n)] } := by
  cases fuel with
  | zero => unfold execMsg at h; cases h
  | succ fuel =>
    unfold execMsg at h
    rcases hm with ⟨to, n, rfl⟩ | ⟨to, n, rfl⟩
    · simp at h
      obtain ⟨g, hg, rfl, _⟩ := h
      exact ⟨g, to, n, Or.inl rfl, rfl⟩
    · simp at h
      obtain ⟨g, hg, rfl, _⟩ := h
      exact ⟨g, to, n, Or.inr rfl, rfl⟩

theorem execMsg_coll_log (fuel : Nat) (w w1 : World) (m : Msg) (ev : Ev) (hm : IsColl m)
    (h : execMsg fuel w ENGINE m = .ok (w1, ev)) :
    Same w w1 ∧ w1.log = w.log ++ [xf m] := by
  cases m with
  | vammSwapInput a d x l g => cases hm
  | vammSwapOutput a d x l => cases hm
  | vammSettle a => cases hm
  | vammSetOpen a o => cases hm
  | tokenTransfer to n =>
    obtain ⟨g, to', n', hm', rfl⟩ := execMsg_xfer_inv fuel w w1 ENGINE _ ev (Or.inl ⟨_, _, rfl⟩) h
    rcases hm' with hm' | hm' <;> cases hm'
    exact ⟨⟨rfl, rfl, rfl, rfl⟩, rfl⟩
  | bankSend to n =>
    obtain ⟨g, to', n', hm', rfl⟩ := execMsg_xfer_inv fuel w w1 ENGINE _ ev (Or.inr ⟨_, _, rfl⟩) h
    rcases hm' with hm' | hm' <;> cases hm'
    exact ⟨⟨rfl, rfl, rfl, rfl⟩, rfl⟩
  | tokenTransferFrom o to n =>
    cases fuel with
    | zero => unfold execMsg at h; cases h
    | succ fuel =>
      unfold execMsg at h
      try simp only [] at h
      split at h
      · cases h
      simp at h
      obtain ⟨g, hg, rfl, _⟩ := h
      exact ⟨⟨rfl, rfl, rfl, rfl⟩, rfl⟩
  | ifWithdraw n =>
    cases fuel with
    | zero => unfold execMsg at h; cases h
    | succ fuel =>
      unfold execMsg at h
      try simp only [] at h
      split at h
      · cases h
      split at h
      · cases h
      rename_i hs
      have hs' : ENGINE = w.ifund.engine := by simpa using hs
      simp at h
      obtain ⟨w2, hsub, rfl, _⟩ := h
      obtain ⟨f', ev', hx⟩ := G9Perm.execSubs_single_never _ _ _ _ _ hsub (by split <;> rfl)
      have hmm : (∃ to n', (if w.engine.cfg.native = true then (⟨.bankSend w.ifund.engine n, 0, .never⟩ : SubMsg)
            else ⟨.tokenTransfer w.ifund.engine n, 0, .never⟩).msg = .tokenTransfer to n')
          ∨ (∃ to n', (if w.engine.cfg.native = true then (⟨.bankSend w.ifund.engine n, 0, .never⟩ : SubMsg)
            else ⟨.tokenTransfer w.ifund.engine n, 0, .never⟩).msg = .bankSend to n') := by
        split
        · exact Or.inr ⟨_, _, rfl⟩
        · exact Or.inl ⟨_, _, rfl⟩
      obtain ⟨g, to', n', hm', rfl⟩ := execMsg_xfer_inv f' w w2 IFUND _ ev' hmm hx
      have : to' = ENGINE ∧ n' = n := by
        split at hm'
        · rcases hm' with hm' | hm'
          · cases hm'
          · injection hm' with a b; exact ⟨a.symm.trans hs'.symm, b.symm⟩
        · rcases hm' with hm' | hm'
          · injection hm' with a b; exact ⟨a.symm.trans hs'.symm, b.symm⟩
          · cases hm'
      obtain ⟨rfl, rfl⟩ := this
      exact ⟨⟨rfl, rfl, rfl, rfl⟩, rfl⟩

/-- a prefix of fire-and-forget collateral messages runs to completion, appends exactly its entries,
    and hands the rest of the list on -/
theorem run_CE : ∀ (pre : List SubMsg) (fuel : Nat) (w w' : World) (rest : List SubMsg), AllCE pre →
    execSubs fuel w ENGINE (pre ++ rest) = .ok w' →
    ∃ fuel' w1, execSubs fuel' w1 ENGINE rest = .ok w' ∧ Same w w1
      ∧ w1.log = w.log ++ pre.map (fun m => xf m.msg) := by
  intro pre
  induction pre with
  | nil =>
    intro fuel w w' rest _ h
    exact ⟨fuel, w, h, Same.refl w, by simp⟩
  | cons m pre ih =>
    intro fuel w w' rest hce h
    obtain ⟨hm, hpre⟩ := AllCE_tail hce
    cases fuel with
    | zero => unfold execSubs at h; cases h
    | succ fuel =>
      rw [List.cons_append] at h
      obtain ⟨w1, ev, hx, _, hno⟩ := execSubs_cons_ok fuel w w' ENGINE m (pre ++ rest) h
      have h2 := hno (not_reply_of_err hm.1)
      obtain ⟨hs1, hl1⟩ := execMsg_coll_log fuel w w1 m.msg ev hm.2 hx
      obtain ⟨fuel', w2, h3, hs2, hl2⟩ := ih fuel w1 w' rest hpre h2
      refine ⟨fuel', w2, h3, hs1.trans hs2, ?_⟩
      rw [hl2, hl1, List.map_cons, List.append_assoc]
      rfl

theorem run_CE_all (msgs : List SubMsg) (fuel : Nat) (w w' : World) (hce : AllCE msgs)
    (h : execSubs fuel w ENGINE msgs = .ok w') :
    Same w w' ∧ w'.log = w.log ++ msgs.map (fun m => xf m.msg) := by
  have h' : execSubs fuel w ENGINE (msgs ++ []) = .ok w' := by rw [List.append_nil]; exact h
  obtain ⟨fuel', w1, h1, hs, hl⟩ := run_CE msgs fuel w w' [] hce h'
  have := execSubs_nil _ _ _ _ h1
  subst this
  exact ⟨hs, hl⟩

/-! ### head of an engine transaction, swap + reply -/

/-- the entry of the attached funds (native collateral only) -/
def fundsLog (native : Bool) (s : Nat) (f : Funds) : List Xf :=
  if native = true ∧ f.amount ≠ 0 then [(s, ENGINE, f.amount)] else []

theorem tx_decomp (w w' : World) (env : Env) (s : Nat) (f : Funds) (m : ExecMsg)
    (h : applyTx w env s f (.engine m) = .ok w') :
    ∃ (w1 : World) (e1 : E) (subs : List SubMsg), w1.engine = w.engine ∧ w1.env = env ∧ w1.vamms = w.vamms
      ∧ w1.ifund = w.ifund ∧ w1.log = fundsLog w.engine.cfg.native s f
      ∧ LL (fun a => (w.ledger.balance a : Int)) w1
      ∧ execute w1.q w1.engine env s f m = .ok (e1, subs)
      ∧ execSubs FUEL { w1 with engine := e1 } ENGINE subs = .ok w' := by
  have hLL0 : LL (fun a => (w.ledger.balance a : Int)) { w with env := env, log := [] } := by
    intro a
    show (w.ledger.balance a : Int) = (w.ledger.balance a : Int) + tot _ [] - tot _ []
    simp
  unfold applyTx at h
  dsimp only at h
  split at h
  · rename_i hc
    simp at h
    obtain ⟨w1, hg, e', subs, hex, h⟩ := h
    obtain ⟨⟨w1', ev⟩, hg', rfl⟩ := (exmap_ok _ _ _).1 hg
    have hLL := (exec_LL _ FUEL).1 _ _ _ _ _ hg' hLL0
    obtain ⟨g, to', n', hm', hw1⟩ := execMsg_xfer_inv FUEL _ w1' s _ ev (Or.inr ⟨_, _, rfl⟩) hg'
    have : to' = ENGINE ∧ n' = f.amount := by
      rcases hm' with hm' | hm'
      · cases hm'
      · injection hm' with a b; exact ⟨a.symm, b.symm⟩
    obtain ⟨rfl, rfl⟩ := this
    refine ⟨w1', e', subs, ?_, ?_, ?_, ?_, ?_, hLL, hex, h⟩
    · rw [hw1]
    · rw [hw1]
    · rw [hw1]
    · rw [hw1]
    · rw [hw1]
      unfold fundsLog
      rw [if_pos (by simpa using hc)]
      rfl
  · rename_i hc
    simp at h
    obtain ⟨e', subs, hex, h⟩ := h
    refine ⟨{ w with env := env, log := [] }, e', subs, rfl, rfl, rfl, rfl, ?_, hLL0, hex, h⟩
    unfold fundsLog
    rw [if_neg (by simpa using hc)]

/-- the ledger account of a whole engine transaction -/
theorem applyTx_LL (w w' : World) (env : Env) (s : Nat) (f : Funds) (m : ExecMsg)
    (h : applyTx w env s f (.engine m) = .ok w') : LL (fun a => (w.ledger.balance a : Int)) w' := by
  obtain ⟨w1, e1, subs, _, _, _, _, _, hLL, _, hrun⟩ := tx_decomp w w' env s f m h
  exact (exec_LL _ FUEL).2 _ _ _ _ hrun hLL

theorem swap_reply (fuel : Nat) (w w' : World) (m : SubMsg) (hm : m.replyOn = .always)
    (h : execSubs fuel w ENGINE [m] = .ok w') :
    ∃ f1 w1 ev e2 subs2, execMsg f1 w ENGINE m.msg = .ok (w1, ev)
      ∧ replyOk w1.q w1.engine w1.env m.id ev = .ok (e2, subs2)
      ∧ execSubs f1 { w1 with engine := e2 } ENGINE subs2 = .ok w' := by
  cases fuel with
  | zero => unfold execSubs at h; cases h
  | succ fuel =>
    obtain ⟨w1, ev, hx, hyes, _⟩ := execSubs_cons_ok fuel w w' ENGINE m [] h
    obtain ⟨_, e2, subs2, w3, hr, h3, h4⟩ := hyes (Or.inl hm)
    have := execSubs_nil _ _ _ _ h4
    subst this
    exact ⟨fuel, w1, ev, e2, subs2, hx, hr, h3⟩

/-! ### what a swap does to the world -/

open Perp.Props.MirrorP (execMsg_swapInput_inv execMsg_swapOutput_inv setVamm_vamm_same swapInput_net swapOutput_net)

theorem swapOut_exec (fuel : Nat) (w w1 : World) (a : Nat) (dir : Direction) (n lim : Nat) (ev : Ev)
    (h : execMsg fuel w ENGINE (.vammSwapOutput a dir n lim) = .ok (w1, ev)) :
    ∃ v v' q, w.vamm? a = some v ∧ w1 = w.setVamm a v' ∧ w1.vamm? a = some v' ∧ ev = .swap ⟨false, q, n⟩
      ∧ v'.cfg = v.cfg ∧ ((v'.st.quote : Int) - (v.st.quote : Int)).natAbs = q := by
  obtain ⟨v, v', o, hv, hsw, rfl, rfl⟩ := execMsg_swapOutput_inv _ _ _ _ _ _ _ _ _ h
  obtain ⟨_, hc, _⟩ := swapOutput_net _ _ _ _ _ _ _ _ hsw
  obtain ⟨q, _, hu, rfl, _⟩ := C17.swapOutput_inv _ _ _ _ _ _ _ _ hsw
  refine ⟨v, v', q, hv, rfl, setVamm_vamm_same _ _ _ _ hv, rfl, hc, ?_⟩
  cases dir with
  | addToAmm =>
    obtain ⟨_, h1, h2⟩ := C17.updateReserve_remove _ _ _ _ _ _ hu
    rw [h2]; omega
  | removeFromAmm =>
    obtain ⟨h1, _, _⟩ := C17.updateReserve_add _ _ _ _ _ _ hu
    rw [h1]; omega

theorem swapIn_exec (fuel : Nat) (w w1 : World) (a : Nat) (dir : Direction) (n lim : Nat) (cgo : Bool) (ev : Ev)
    (h : execMsg fuel w ENGINE (.vammSwapInput a dir n lim cgo) = .ok (w1, ev)) :
    ∃ v v' b, w.vamm? a = some v ∧ w1 = w.setVamm a v' ∧ w1.vamm? a = some v' ∧ ev = .swap ⟨true, n, b⟩
      ∧ v'.cfg = v.cfg ∧ ((v'.st.quote : Int) - (v.st.quote : Int)).natAbs = n := by
  obtain ⟨v, v', o, hv, hsw, rfl, rfl⟩ := execMsg_swapInput_inv _ _ _ _ _ _ _ _ _ _ h
  obtain ⟨_, hc, _⟩ := swapInput_net _ _ _ _ _ _ _ _ _ hsw
  obtain ⟨b, _, hu, rfl, _⟩ := C17.swapInput_inv _ _ _ _ _ _ _ _ _ hsw
  refine ⟨v, v', b, hv, rfl, setVamm_vamm_same _ _ _ _ hv, rfl, hc, ?_⟩
  cases dir with
  | addToAmm =>
    obtain ⟨h1, _, _⟩ := C17.updateReserve_add _ _ _ _ _ _ hu
    rw [h1]; omega
  | removeFromAmm =>
    obtain ⟨_, h1, h2⟩ := C17.updateReserve_remove _ _ _ _ _ _ hu
    rw [h2]; omega

end Perp.Props.TxLog
