/-
  `modelStep`: the observation record (`Spec.Step`) of one transaction of the MODEL, built exactly as the
  driver builds it from a transaction of the IMPLEMENTATION (pre-state, post-state, outcome, transfer
  list, in-flight residue).  The per-property files `Perp/Props/Sat*.lean` prove that the model's step
  satisfies the very predicates (`Spec.Cxx.check`) that every check run evaluates on the implementation's
  observations: the model refines the specification, for every state, sender, block and message.
  Import-free apart from model and spec.
-/
import Perp.Model.World
import Perp.Spec.World

namespace Perp.Props.ModelStep
open Perp Perp.World Perp.Engine Perp.Spec

/-- any of the three in-flight records present -/
def residue (e : E) : Bool := e.tmpSwap.isSome || e.sentFunds.isSome || e.tmpLiq.isSome

/-- the observation of one model transaction.  `liqsThisBlock` is left empty: `Spec.C16.restricted` then
    rests on the engine's own marker, whose relation to the history of liquidations is
    `WorldMore.liquidation_sets_restr` / `nonliquidation_keeps_restr`. -/
def modelStep (w : World) (env : Env) (s : Nat) (f : Funds) (tx : Tx) : Step :=
  match applyTx w env s f tx with
  | .ok w' => { pre := w, post := w', env := env, sender := s, funds := f, tx := tx, ok := true,
                xfers := w'.log, residue := residue w'.engine }
  | .error _ => { pre := w, post := w, env := env, sender := s, funds := f, tx := tx, ok := false,
                  xfers := [], residue := residue w.engine }

/-- well-formedness every reachable world has: no in-flight record between transactions, configuration
    within bounds, one ledger entry per account -/
structure WF (w : World) : Prop where
  noResidue : w.engine.tmpSwap = none ∧ w.engine.sentFunds = none ∧ w.engine.tmpLiq = none
  balNodup : (w.ledger.bal.map (·.1)).Nodup
  allowNodup : (w.ledger.allow.map (·.1)).Nodup

/-- the deployment's wiring (owners may change it; the properties are about correctly wired deployments) -/
structure Wired (w : World) : Prop where
  ifd : w.engine.cfg.insuranceFund = IFUND
  fp : w.engine.cfg.feePool = FEEPOOL
  ife : w.ifund.engine = ENGINE
  vamms : ∀ a x, w.vamm? a = some x →
    x.cfg.marginEngine = ENGINE ∧ x.cfg.insuranceFund = IFUND ∧ x.cfg.decimals = w.engine.cfg.decimals

/-- the sender is a user account, not one of the deployment's contracts -/
def UserSender (w : World) (s : Nat) : Prop :=
  s ≠ ENGINE ∧ s ≠ IFUND ∧ s ≠ FEEPOOL ∧ s ≠ FEED ∧ s ≠ TOKEN ∧ ∀ a x, w.vamm? a = some x → s ≠ a

end Perp.Props.ModelStep
