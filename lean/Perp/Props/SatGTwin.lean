/-
  SatG, part 1 — the dispatcher-level twin: on sub-message lists that pull nothing from anybody
  (no cw20 `TransferFrom`) and whose replies are the liquidation / funding replies, the deployment on
  native collateral does exactly what the deployment on cw20 collateral does.
-/
import Perp.Model.World
import Perp.Lemmas.Basic
import Perp.Props.Dispatch
import Perp.Props.EngineGuards
import Perp.Props.EngineMoney
import Perp.Props.WorldInv
import Perp.Props.LiqTwin
import Perp.Props.G9Perm

namespace Perp.Props.SatGTwin
open Perp Perp.World Perp.Engine Perp.Props.LiqTwin
open Perp.Props.G9Perm (All All_nil All_cons All_append)
open Perp.Props.EngineGuards (Post Post_bind Post_pure Post_ok Post_error Post_bind_pure Post_bind_error)
open Perp.Props.Dispatch (execMsg_engine_frame)

/-- the same world on native collateral -/
def natW (w : World) : World := { w with engine := setNative w.engine true }

/-- the native form of a message -/
def tnMsg : Msg → Msg
  | .tokenTransfer to amt => .bankSend to amt
  | .tokenTransferFrom _ to amt => .bankSend to amt
  | m => m

theorem toNative_eq (s : SubMsg) : toNative s = ⟨tnMsg s.msg, s.id, s.replyOn⟩ := by
  obtain ⟨m, i, r⟩ := s
  cases m <;> rfl

@[simp] theorem toNative_msg (s : SubMsg) : (toNative s).msg = tnMsg s.msg := by rw [toNative_eq]
@[simp] theorem toNative_id (s : SubMsg) : (toNative s).id = s.id := by rw [toNative_eq]
@[simp] theorem toNative_replyOn (s : SubMsg) : (toNative s).replyOn = s.replyOn := by rw [toNative_eq]

/-- nothing is pulled out of a third party's account -/
def NoPull : Msg → Prop
  | .tokenTransferFrom _ _ _ => False
  | _ => True

/-- sub-messages on which the two deployments are twins: no pull, and the reply (if one is due) is
    not one of the position replies 1..5 (those read `sentFunds` or pull fees) -/
def Good (s : SubMsg) : Prop :=
  NoPull s.msg ∧ ((s.replyOn = .always ∨ s.replyOn = .success) → ¬ (1 ≤ s.id ∧ s.id ≤ 5))

/-- fire-and-forget, pull-free -/
def Quiet (s : SubMsg) : Prop := s.replyOn = .error ∧ NoPull s.msg

theorem Quiet.good {s : SubMsg} (h : Quiet s) : Good s :=
  ⟨h.2, fun hr => by rcases hr with hr | hr <;> rw [h.1] at hr <;> cases hr⟩

theorem All_mono {P Q : SubMsg → Prop} {l : List SubMsg} (h : ∀ s, P s → Q s) (hl : All P l) : All Q l :=
  fun m hm => h m (hl m hm)

/-! ### the messages of the twin replies are quiet -/

theorem quiet_transferMsg (cfg : Config) (r a : Nat) : Quiet (transferMsg cfg r a) := by
  unfold transferMsg; split <;> exact ⟨rfl, trivial⟩

theorem quiet_ifWithdrawMsg (a : Nat) : Quiet (ifWithdrawMsg a) := ⟨rfl, trivial⟩

macro "allquiet" : tactic => `(tactic|
  repeat' first
    | exact All_nil
    | assumption
    | exact quiet_transferMsg _ _ _
    | exact quiet_ifWithdrawMsg _
    | (with_reducible apply All_append)
    | (with_reducible apply All_cons)
    | split)

theorem withdraw_quiet (q : Q) (e : E) (st : State) (r a p : Nat) (x : State × List SubMsg)
    (h : unwrap (withdraw q e st r a p) = .ok x) : All Quiet x.2 := by
  rw [EngineMoney.unwrap_ok] at h
  obtain ⟨st', msgs⟩ := x
  obtain ⟨bal, _, hm⟩ := EngineMoney.withdraw_spec q e st st' r a p msgs h
  rcases hm with ⟨_, _, _, _, rfl⟩ | ⟨_, _, rfl⟩ <;> allquiet

theorem transferToIF_quiet (q : Q) (e : E) (a : Nat) (m : SubMsg) (h : transferToInsuranceFund q e a = .ok m) :
    Quiet m := by
  unfold transferToInsuranceFund at h
  obtain ⟨bal, _, h⟩ := (bind_ok_iff _ _ _).1 h
  simp only [pure_ok_iff] at h
  subst h
  exact quiet_transferMsg _ _ _

macro "quiet_hyps" : tactic => `(tactic|
  (try (have hw__ := withdraw_quiet _ _ _ _ _ _ _ ‹unwrap (withdraw _ _ _ _ _ _) = Except.ok _›)
   try (have ht__ := transferToIF_quiet _ _ _ _ ‹transferToInsuranceFund _ _ _ = Except.ok _›)))

open Perp.Props.EngineGuards in
theorem liquidateReply_quiet (q : Q) (e : E) (env : Env) (o : Nat) :
    Post (fun r => All Quiet r.2) (liquidateReply q e env o) := by
  unfold liquidateReply realizeBadDebt
  post_walk [(quiet_hyps; allquiet)]

open Perp.Props.EngineGuards in
theorem partialLiquidationReply_quiet (q : Q) (e : E) (env : Env) (i o : Nat) :
    Post (fun r => All Quiet r.2) (partialLiquidationReply q e env i o) := by
  unfold partialLiquidationReply
  post_walk [(quiet_hyps; allquiet)]

open Perp.Props.EngineGuards in
theorem payFundingReply_quiet (q : Q) (e : E) (env : Env) (pf : Integer) (v : Nat) :
    Post (fun r => All Quiet r.2) (payFundingReply q e env pf v) := by
  unfold payFundingReply
  post_walk [(quiet_hyps; allquiet)]


/-! ### `replyOk` twins -/

theorem replyOk_twin (q : Q) (e : E) (env : Env) (id : Nat) (ev : Ev) (hid : ¬ (1 ≤ id ∧ id ≤ 5)) :
    replyOk q (setNative e true) env id ev = (replyOk q (setNative e false) env id ev).map lift := by
  by_cases h8 : id = 8
  · subst h8
    cases ev with
    | settle pf v => exact payFundingReply_twin q e env pf v
    | swap o => rfl
    | none => rfl
  · by_cases h6 : id = 6
    · subst h6
      cases ev with
      | swap o => exact liquidateReply_twin q e env _
      | settle pf v => rfl
      | none => rfl
    · by_cases h7 : id = 7
      · subst h7
        cases ev with
        | swap o => exact partialLiquidationReply_twin q e env _ _
        | settle pf v => rfl
        | none => rfl
      · have hr : ¬ (1 ≤ id ∧ id ≤ 7) := by omega
        unfold replyOk
        rw [if_neg (show ¬ id = REPLY_PAY_FUNDING from h8), if_neg hr,
          if_neg (show ¬ id = REPLY_PAY_FUNDING from h8), if_neg hr]
        rfl

theorem replyOk_good (q : Q) (e e2 : E) (env : Env) (id : Nat) (ev : Ev) (subs : List SubMsg)
    (hid : ¬ (1 ≤ id ∧ id ≤ 5)) (h : replyOk q e env id ev = .ok (e2, subs)) : All Good subs := by
  refine All_mono (fun _ => Quiet.good) ?_
  rcases WorldInv.replyOk_id q e env id ev _ h with ⟨rfl, pf, v, rfl⟩ | ⟨hid', o, rfl⟩
  · exact payFundingReply_quiet q e env pf v _ h
  · have : id = 6 ∨ id = 7 := by omega
    rcases this with rfl | rfl
    · exact liquidateReply_quiet q e env _ _ h
    · exact partialLiquidationReply_quiet q e env _ _ _ h

theorem setNative_false_self (e : E) (h : e.cfg.native = false) : setNative e false = e := by
  obtain ⟨cfg, _, _, _, _, _, _, _, _⟩ := e
  obtain ⟨_, _, _, n, _, _, _, _, _⟩ := cfg
  simp only at h
  subst h
  rfl

/-! ### the dispatcher twin -/

theorem map_ok {α β : Type} (f : α → β) (a : α) : Except.map f (.ok a : Except Err α) = .ok (f a) := rfl
theorem map_error {α β : Type} (f : α → β) (e : Err) : Except.map f (.error e : Except Err α) = .error e := rfl

theorem native_false_execSubs (fuel : Nat) (w w' : World) (subs : List SubMsg)
    (h : execSubs fuel w ENGINE subs = .ok w') (hn : w.engine.cfg.native = false) :
    w'.engine.cfg.native = false :=
  WorldInv.execSubs_engine_invariant (fun e => e.cfg.native = false)
    (fun q e e' env id ev subs hP hr => by
      have := EngineGuards.replyOk_cfg q e e' env id ev subs hr
      show e'.cfg.native = false
      rw [this]; exact hP) fuel w w' subs h hn

theorem twin_exec (fuel : Nat) :
    (∀ (w : World) (c : Nat) (m : Msg), w.engine.cfg.native = false → NoPull m →
        execMsg fuel (natW w) c (tnMsg m) = (execMsg fuel w c m).map (fun r => (natW r.1, r.2)))
    ∧ (∀ (w : World) (c : Nat) (subs : List SubMsg), w.engine.cfg.native = false → All Good subs →
        execSubs fuel (natW w) c (subs.map toNative) = (execSubs fuel w c subs).map natW) := by
  induction fuel with
  | zero =>
    constructor
    · intro w c m _ _; unfold execMsg; rfl
    · intro w c subs _ _; unfold execSubs; rfl
  | succ fuel ih =>
    constructor
    · intro w c m hn hp
      cases m with
      | vammSwapInput a d x l g =>
        unfold execMsg tnMsg
        dsimp only []
        refine tw_bind_same _ _ _ _ fun v => ?_
        refine tw_bind_same _ _ _ _ fun r => ?_
        rfl
      | vammSwapOutput a d x l =>
        unfold execMsg tnMsg
        dsimp only []
        refine tw_bind_same _ _ _ _ fun v => ?_
        refine tw_bind_same _ _ _ _ fun r => ?_
        rfl
      | vammSettle a =>
        unfold execMsg tnMsg
        dsimp only []
        refine tw_bind_same _ _ _ _ fun v => ?_
        refine tw_bind_same _ _ _ _ fun r => ?_
        rfl
      | vammSetOpen a o =>
        unfold execMsg tnMsg
        dsimp only []
        refine tw_bind_same _ _ _ _ fun v => ?_
        refine tw_bind_same _ _ _ _ fun r => ?_
        rfl
      | tokenTransfer to amt =>
        unfold execMsg tnMsg
        dsimp only []
        refine tw_bind_same _ _ _ _ fun g => ?_
        rfl
      | tokenTransferFrom owner to amt => exact absurd hp (by simp [NoPull])
      | bankSend to amt =>
        unfold execMsg tnMsg
        dsimp only []
        refine tw_bind_same _ _ _ _ fun g => ?_
        rfl
      | ifWithdraw amt =>
        unfold execMsg tnMsg
        dsimp only []
        have h1 : (natW w).engine.cfg.native = true := rfl
        rw [if_pos h1, if_neg (show ¬ w.engine.cfg.native = true by rw [hn]; decide)]
        refine tw_ite _ _ _ _ _ _ (fun _ => rfl) (fun _ => ?_)
        refine tw_ite _ _ _ _ _ _ (fun _ => rfl) (fun _ => ?_)
        have h2 := ih.2 w IFUND [⟨.tokenTransfer w.ifund.engine amt, 0, .never⟩] hn
          (All_cons ⟨trivial, fun hr => by rcases hr with hr | hr <;> cases hr⟩ All_nil)
        refine tw_bind_map _ natW _ _ _ _ h2 fun w' => rfl
    · intro w c subs hn hg
      cases subs with
      | nil => unfold execSubs; rfl
      | cons s rest =>
        have hgs : Good s := hg s (List.mem_cons_self ..)
        have hgr : All Good rest := fun m hm => hg m (List.mem_cons_of_mem _ hm)
        have hx := ih.1 w c s.msg hn hgs.1
        rw [List.map_cons]
        unfold execSubs
        dsimp only []
        rw [toNative_msg, toNative_id, toNative_replyOn, hx]
        cases hm : execMsg fuel w c s.msg with
        | error err =>
          rw [map_error]
          dsimp only []
          refine tw_ite _ _ _ _ _ _ (fun _ => ?_) (fun _ => rfl)
          refine tw_ite _ _ _ _ _ _ (fun _ => rfl) (fun _ => rfl)
        | ok r =>
          obtain ⟨w1, ev⟩ := r
          rw [map_ok]
          dsimp only []
          have hw1 : w1.engine = w.engine := ((execMsg_engine_frame fuel).1 _ _ _ _ _ hm).1
          have hn1 : w1.engine.cfg.native = false := by rw [hw1]; exact hn
          refine tw_ite _ _ _ _ _ _ (fun hr => ?_) (fun _ => ih.2 w1 c rest hn1 hgr)
          refine tw_ite _ _ _ _ _ _ (fun _ => rfl) (fun hc => ?_)
          have hc : c = ENGINE := Decidable.not_not.mp hc
          subst hc
          have hid := hgs.2 hr
          have ht : replyOk (natW w1).q (natW w1).engine (natW w1).env s.id ev
              = (replyOk w1.q w1.engine w1.env s.id ev).map lift := by
            have := replyOk_twin w1.q w1.engine w1.env s.id ev hid
            rw [setNative_false_self _ hn1] at this
            exact this
          rw [ht]
          cases hre : replyOk w1.q w1.engine w1.env s.id ev with
          | error e => rfl
          | ok r2 =>
            obtain ⟨e2, subs2⟩ := r2
            rw [map_ok]
            dsimp only [lift]
            have hn2 : e2.cfg.native = false := by
              rw [EngineGuards.replyOk_cfg _ _ _ _ _ _ _ hre]; exact hn1
            have hg2 : All Good subs2 := replyOk_good _ _ _ _ _ _ _ hid hre
            have h2 := ih.2 { w1 with engine := e2 } ENGINE subs2 hn2 hg2
            have h2' : execSubs fuel
                { env := (natW w1).env, engine := setNative e2 true, vamms := (natW w1).vamms, ifund := (natW w1).ifund,
                  feePool := (natW w1).feePool, feed := (natW w1).feed, ledger := (natW w1).ledger,
                  log := (natW w1).log } ENGINE (List.map toNative subs2)
                = Except.map natW (execSubs fuel { w1 with engine := e2 } ENGINE subs2) := h2
            rw [h2']
            cases h3 : execSubs fuel { w1 with engine := e2 } ENGINE subs2 with
            | error e => rfl
            | ok w3 =>
              rw [map_ok]
              dsimp only []
              exact ih.2 w3 ENGINE rest (native_false_execSubs _ _ _ _ h3 hn2) hgr


/-! ### whole transactions -/

/-- … and on cw20 collateral -/
def cwW (w : World) : World := { w with engine := setNative w.engine false }

theorem good_swapOut (v : Nat) (sd : Side) (n l id : Nat) (hid : ¬ (1 ≤ id ∧ id ≤ 5)) :
    Good (swapOutputMsg v sd n l id) := ⟨trivial, fun _ => hid⟩

open Perp.Props.EngineGuards in
theorem partialLiquidation_good (q : Q) (e : E) (v t l : Nat) :
    Post (fun r => Good r.2) (partialLiquidation q e v t l) := by
  unfold partialLiquidation
  post_walk [exact good_swapOut _ _ _ _ _ (by decide)]

open Perp.Props.EngineGuards in
theorem liquidate_good (q : Q) (e : E) (env : Env) (s v t l : Nat) :
    Post (fun r => All Good r.2) (liquidate q e env s v t l) := by
  unfold liquidate internalClosePosition
  post_walk [(
    first
      | exact All_cons (good_swapOut _ _ _ _ _ (by decide)) All_nil
      | exact All_cons (partialLiquidation_good _ _ _ _ _ _ ‹partialLiquidation _ _ _ _ _ = Except.ok _›) All_nil)]

open Perp.Props.EngineGuards in
theorem payFunding_good (q : Q) (e : E) (v : Nat) :
    Post (fun r => All Good r.2) (payFunding q e v) := by
  unfold payFunding
  post_walk [exact All_cons ⟨trivial, fun _ => (by decide : ¬ (1 ≤ 8 ∧ 8 ≤ 5))⟩ All_nil]

open Perp.Props.EngineGuards in
theorem withdrawMargin_good (q : Q) (e : E) (env : Env) (s v a : Nat) :
    Post (fun r => All Good r.2) (withdrawMargin q e env s v a) := by
  unfold withdrawMargin
  post_walk [(quiet_hyps; exact All_mono (fun _ => Quiet.good) ‹_›)]

theorem tw_bind_map_ok {α α' β γ : Type} (F : β → γ) (G : α → α') (x' : Except Err α') (x : Except Err α)
    (f : α' → Except Err γ) (g : α → Except Err β)
    (hx : x' = Except.map G x)
    (h : ∀ a, x = .ok a → f (G a) = Except.map F (g a)) : (x' >>= f) = Except.map F (x >>= g) := by
  subst hx
  cases x with
  | error e => rfl
  | ok a => exact h a rfl

/-- an engine transaction with nothing attached whose `execute` half is a twin and emits good
    messages is a twin -/
theorem twin_tx (w : World) (env : Env) (s : Nat) (m : ExecMsg)
    (hm : ∀ u, m ≠ .updateConfig u)
    (hex : ∀ (q : Q) (e : E), execute q (setNative e true) env s ⟨0, false⟩ m
        = (execute q (setNative e false) env s ⟨0, false⟩ m).map lift)
    (hgood : ∀ (q : Q) (e : E), Post (fun r => All Good r.2) (execute q e env s ⟨0, false⟩ m)) :
    applyTx (natW w) env s ⟨0, false⟩ (.engine m) = (applyTx (cwW w) env s ⟨0, false⟩ (.engine m)).map natW := by
  unfold applyTx
  dsimp only []
  rw [if_neg (by simp), if_neg (by simp)]
  simp only [pure_bind]
  have hq := hex ({ cwW w with env := env, log := [] } : World).q w.engine
  refine tw_bind_map_ok _ lift _ _ _ _ hq fun r hr => ?_
  obtain ⟨e1, subs⟩ := r
  have hc : e1.cfg = (setNative w.engine false).cfg := EngineGuards.execute_cfg _ _ _ _ _ _ _ _ hm hr
  have hn : e1.cfg.native = false := by rw [hc]; rfl
  have hg : All Good subs := hgood _ _ _ hr
  exact (twin_exec FUEL).2 { cwW w with env := env, log := [], engine := e1 } ENGINE subs hn hg

end Perp.Props.SatGTwin
