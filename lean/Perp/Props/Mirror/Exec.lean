/-
  G7b, part 3 — what the `execute` handlers that start a flow record and dispatch (inversions that keep
  the branch conditions), and what the margin handlers store.
-/
import Perp.Props.Mirror.Walk

namespace Perp.Props.MirrorP
open Perp Perp.Engine
open Perp.Props.EngineGuards (Post Post_bind Post_pure Post_ok Post_error Post_bind_pure Post_bind_error)

theorem isInc_iff (d : Direction) (side : Side) :
    ((d = .addToAmm ∧ side = .buy) ∨ (d = .removeFromAmm ∧ side = .sell)) ↔ d = sideToDirection side := by
  cases d <;> cases side <;> simp [sideToDirection]

theorem side_dir (d : Direction) : sideToDirection (directionToSide d) = d := by
  cases d <;> rfl

/-- the increase test of `open_position` -/
theorem isInc3_iff (z : Prop) (d : Direction) (side : Side) :
    (z ∨ (d = .addToAmm ∧ side = .buy) ∨ (d = .removeFromAmm ∧ side = .sell)) ↔ (z ∨ d = sideToDirection side) := by
  rw [← isInc_iff]

/-- `open_position`: the in-flight record names the caller's vAMM / account / side; the message is an
    increase exactly when the stored record has size zero (nothing to reverse, whatever its direction) or
    the reported direction is the side's, otherwise — size non-zero and the direction opposite — a reduce
    (position notional above the requested one) or a reversal -/
theorem openPosition_inv (q : Q) (e : E) (env : Env) (s : Nat) (f : Funds) (v : Nat) (side : Side) (m l b : Nat) :
    Post (fun r => r.1.positions = e.positions ∧ r.1.cfg = e.cfg
      ∧ ∃ tmp : TmpSwap, r.1.tmpSwap = some tmp ∧ tmp.vamm = v ∧ tmp.trader = s ∧ tmp.side = side
      ∧ ((∃ N, r.2 = [swapInputMsg v side N b false REPLY_INCREASE]
            ∧ ((getPosition env e v s side).size.isZero = true
                ∨ (getPosition env e v s side).direction = sideToDirection side))
        ∨ (∃ N, r.2 = [swapInputMsg (getPosition env e v s side).vamm side N b false REPLY_DECREASE]
            ∧ ¬ (getPosition env e v s side).size.isZero = true
            ∧ (getPosition env e v s side).direction ≠ sideToDirection side
            ∧ ∃ pn u, unwrap (positionNotionalPnl q e (getPosition env e v s side) .spot) = .ok (pn, u) ∧ pn > N)
        ∨ (r.2 = [swapOutputMsg (getPosition env e v s side).vamm
                    (directionToSide (getPosition env e v s side).direction)
                    (getPosition env e v s side).size.value 0 REPLY_REVERSE]
            ∧ ¬ (getPosition env e v s side).size.isZero = true
            ∧ (getPosition env e v s side).direction ≠ sideToDirection side)))
      (openPosition q e env s f v side m l b) := by
  unfold openPosition
  walk [(
    refine ⟨rfl, rfl, _, rfl, rfl, rfl, rfl, ?_⟩
    first
      | exact Or.inl ⟨_, rfl, (isInc3_iff _ _ _).1 (by assumption)⟩
      | (have hgt := ‹_ > _›
         have hni := fun hh => (‹¬ (_ ∨ _ ∨ _)›) ((isInc3_iff _ _ _).2 hh)
         refine Or.inr (Or.inl ⟨_, rfl, fun hz => hni (Or.inl hz), fun hh => hni (Or.inr hh), _, ?_, ?_, hgt⟩)
         rotate_left
         assumption)
      | (have hni := fun hh => (‹¬ (_ ∨ _ ∨ _)›) ((isInc3_iff _ _ _).2 hh)
         exact Or.inr (Or.inr ⟨rfl, fun hz => hni (Or.inl hz), fun hh => hni (Or.inr hh)⟩)))]

/-- `close_position`: whole close, or a partial close for the quote of `|size|·plr/D` base -/
theorem closePosition_inv (q : Q) (e : E) (env : Env) (s v l : Nat) :
    Post (fun r => r.1.positions = e.positions ∧ r.1.cfg = e.cfg
      ∧ ¬ (readPosition e v s).size.value = 0
      ∧ ∃ tmp : TmpSwap, r.1.tmpSwap = some tmp ∧ tmp.vamm = (readPosition e v s).vamm
          ∧ tmp.trader = (readPosition e v s).trader
      ∧ ((tmp.side = directionToSide (readPosition e v s).direction
            ∧ r.2 = [swapOutputMsg (readPosition e v s).vamm (directionToSide (readPosition e v s).direction)
                      (readPosition e v s).size.value l REPLY_CLOSE])
        ∨ (tmp.side = positionToSide (readPosition e v s).size
            ∧ ∃ x pa N over, r.2 = [swapInputMsg (readPosition e v s).vamm (positionToSide (readPosition e v s).size)
                                  N 0 true REPLY_PARTIAL_CLOSE]
              ∧ cmul (readPosition e v s).size.value e.cfg.plr = .ok x ∧ cdiv x e.cfg.decimals = .ok pa
              ∧ q.outputAmount v (if Integer.gt (readPosition e v s).size Integer.zero then .addToAmm else .removeFromAmm) pa = .ok N
              ∧ q.isOverFluct v (if Integer.gt (readPosition e v s).size Integer.zero then .addToAmm else .removeFromAmm)
                  (readPosition e v s).size.value = .ok over
              ∧ (over = true ∧ e.cfg.plr < e.cfg.decimals))))
      (closePosition q e env s v l) := by
  unfold closePosition internalClosePosition
  walk [(
    refine ⟨rfl, rfl, by assumption, _, rfl, rfl, rfl, ?_⟩
    first
      | exact Or.inl ⟨rfl, rfl⟩
      | exact Or.inr ⟨rfl, _, _, _, _, rfl, by assumption, by assumption, by assumption, by assumption, by assumption⟩)]

/-- `liquidate`: whole liquidation, or a partial one of `|size|·plr/D` base -/
theorem liquidate_inv (q : Q) (e : E) (env : Env) (s v t l : Nat) :
    Post (fun r => r.1.positions = e.positions ∧ r.1.cfg = e.cfg
      ∧ ¬ (readPosition e v t).size.value = 0
      ∧ ∃ tmp : TmpSwap, r.1.tmpSwap = some tmp ∧ tmp.vamm = (readPosition e v t).vamm
          ∧ tmp.trader = (readPosition e v t).trader
      ∧ (r.2 = [swapOutputMsg (readPosition e v t).vamm (directionToSide (readPosition e v t).direction)
                  (readPosition e v t).size.value l REPLY_LIQUIDATION]
        ∨ ∃ ps pl, r.2 = [swapOutputMsg v (directionToSide (readPosition e v t).direction) ps pl
                            REPLY_PARTIAL_LIQUIDATION]
            ∧ unwrap (do let x ← cmul (readPosition e v t).size.value e.cfg.plr; cdiv x e.cfg.decimals) = .ok ps))
      (liquidate q e env s v t l) := by
  unfold liquidate partialLiquidation internalClosePosition
  walk [(
    refine ⟨rfl, rfl, by assumption, _, rfl, rfl, rfl, ?_⟩
    first
      | exact Or.inl rfl
      | exact Or.inr ⟨_, _, rfl, by assumption⟩)]

/-- the margin handlers re-store the caller's record with the same size and direction -/
theorem depositMargin_inv (e : E) (env : Env) (s : Nat) (f : Funds) (v a : Nat) :
    Post (fun r => (∃ p' : Position, r.1.positions = (storePosition e p').positions
        ∧ p'.vamm = (readPosition e v s).vamm ∧ p'.trader = (readPosition e v s).trader
        ∧ p'.size = (readPosition e v s).size ∧ p'.direction = (readPosition e v s).direction)
      ∧ r.1.cfg = e.cfg ∧ AllCE r.2) (depositMargin e env s f v a) := by
  unfold depositMargin
  walk [(refine ⟨⟨_, rfl, rfl, rfl, rfl, rfl⟩, rfl, ?_⟩; allce)]

theorem withdrawMargin_inv (q : Q) (e : E) (env : Env) (s v a : Nat) :
    Post (fun r => (∃ p' : Position, r.1.positions = (storePosition e p').positions
        ∧ p'.vamm = (readPosition e v s).vamm ∧ p'.trader = (readPosition e v s).trader
        ∧ p'.size = (readPosition e v s).size ∧ p'.direction = (readPosition e v s).direction)
      ∧ r.1.cfg = e.cfg ∧ AllCE r.2) (withdrawMargin q e env s v a) := by
  unfold withdrawMargin
  walk [(ce_hyps; refine ⟨⟨_, rfl, rfl, rfl, rfl, rfl⟩, rfl, ?_⟩; allce)]

end Perp.Props.MirrorP
