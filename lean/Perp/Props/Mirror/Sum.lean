/-
  G7b, part 1 — the signed sum of stored position sizes over the engine's association list:
  how `storePosition` / `removePosition` move it (duplicate-free keys), and the sign/direction
  predicate on records.  (Own namespace `MirrorP`; `Skel/G7b.lean` states the fixed definitions and
  shows they are these.)
-/
import Perp.Model.World
import Perp.Lemmas.Basic
import Perp.Props.C19
import Perp.Props.EngineMoney

namespace Perp.Props.MirrorP
open Perp Perp.Engine

/-- signed sum of the stored position sizes of one vAMM -/
def sumS (e : E) (v : Nat) : Int :=
  ((e.positions.filter (fun p => p.vamm == v)).map (fun p => p.size.toInt)).foldl (· + ·) 0

def szsum : List Position → Nat → Int
  | [], _ => 0
  | p :: ps, v => (if p.vamm = v then p.size.toInt else 0) + szsum ps v

theorem foldl_add (l : List Int) (z : Int) : l.foldl (· + ·) z = z + l.foldl (· + ·) 0 := by
  induction l generalizing z with
  | nil => simp
  | cons a l ih =>
    simp only [List.foldl_cons]
    rw [ih (z + a), ih (0 + a)]
    omega

theorem sumS_eq (e : E) (v : Nat) : sumS e v = szsum e.positions v := by
  unfold sumS
  generalize e.positions = ps
  induction ps with
  | nil => rfl
  | cons p ps ih =>
    simp only [List.filter_cons, szsum]
    by_cases h : p.vamm = v
    · simp only [h, beq_self_eq_true, if_true, List.map_cons, List.foldl_cons]
      rw [foldl_add, ih]
      omega
    · have hb : (p.vamm == v) = false := by simpa using h
      simp only [hb, h, if_false, Bool.false_eq_true]
      rw [ih]
      omega

theorem sumS_congr {e e2 : E} (h : e2.positions = e.positions) (v : Nat) : sumS e2 v = sumS e v := by
  rw [sumS_eq, sumS_eq, h]

/-- the list-level `readPosition` -/
def rdL (ps : List Position) (v t : Nat) : Position :=
  match ps.find? (fun p => p.vamm == v && p.trader == t) with
  | some p => p
  | none => Position.default

theorem readPosition_rdL (e : E) (v t : Nat) : readPosition e v t = rdL e.positions v t := rfl

/-- no two records under the same (vamm, trader) key -/
def KeysND (ps : List Position) : Prop :=
  ps.Pairwise (fun p q => ¬ (p.vamm = q.vamm ∧ p.trader = q.trader))

theorem default_size : Position.default.size.toInt = 0 := by decide

theorem erase_noop (ps : List Position) (v t : Nat)
    (h : ∀ q ∈ ps, ¬ (q.vamm = v ∧ q.trader = t)) : erasePosition ps v t = ps := by
  unfold erasePosition
  rw [List.filter_eq_self]
  intro q hq
  have := h q hq
  simp only [Bool.not_eq_true', Bool.and_eq_false_iff, beq_eq_false_iff_ne, ne_eq]
  by_cases h1 : q.vamm = v
  · right; intro h2; exact this ⟨h1, h2⟩
  · left; exact h1

theorem szsum_erase_ne (ps : List Position) (v t a : Nat) (h : v ≠ a) :
    szsum (erasePosition ps v t) a = szsum ps a := by
  unfold erasePosition
  induction ps with
  | nil => rfl
  | cons p ps ih =>
    simp only [List.filter_cons]
    split
    · simp only [szsum, ih]
    · rename_i hc
      simp only [Bool.not_eq_true', Bool.not_eq_false, Bool.and_eq_true, beq_iff_eq] at hc
      have : ¬ p.vamm = a := by rw [hc.1]; exact h
      simp only [szsum, this, if_false, ih]
      omega

theorem szsum_erase_same (ps : List Position) (a t : Nat) (hn : KeysND ps) :
    szsum (erasePosition ps a t) a = szsum ps a - (rdL ps a t).size.toInt := by
  induction ps with
  | nil =>
    show (0 : Int) = 0 - Position.default.size.toInt
    rw [default_size]; rfl
  | cons p ps ih =>
    unfold KeysND at hn
    rw [List.pairwise_cons] at hn
    obtain ⟨hp, hps⟩ := hn
    by_cases hk : p.vamm = a ∧ p.trader = t
    · have h1 : erasePosition (p :: ps) a t = ps := by
        have : erasePosition (p :: ps) a t = erasePosition ps a t := by
          unfold erasePosition
          simp [hk.1, hk.2]
        rw [this]
        apply erase_noop
        intro q hq hqk
        exact hp q hq ⟨hk.1.trans hqk.1.symm, hk.2.trans hqk.2.symm⟩
      have h2 : rdL (p :: ps) a t = p := by
        unfold rdL
        simp [hk.1, hk.2]
      rw [h1, h2]
      simp only [szsum, hk.1, if_true]
      omega
    · have hb : (p.vamm == a && p.trader == t) = false := by
        simp only [Bool.and_eq_false_iff, beq_eq_false_iff_ne, ne_eq]
        by_cases h1 : p.vamm = a
        · right; intro h2; exact hk ⟨h1, h2⟩
        · left; exact h1
      have h1 : erasePosition (p :: ps) a t = p :: erasePosition ps a t := by
        unfold erasePosition
        rw [List.filter_cons, hb]
        rfl
      have h2 : rdL (p :: ps) a t = rdL ps a t := by
        unfold rdL
        rw [List.find?_cons, hb]
      rw [h1, h2]
      simp only [szsum]
      rw [ih hps]
      omega

theorem sumS_store (e e2 : E) (p' : Position) (hn : KeysND e.positions)
    (h : e2.positions = (storePosition e p').positions) (a : Nat) :
    sumS e2 a = if p'.vamm = a then sumS e a - (readPosition e p'.vamm p'.trader).size.toInt + p'.size.toInt
                else sumS e a := by
  rw [sumS_eq, sumS_eq, h]
  show szsum (p' :: erasePosition e.positions p'.vamm p'.trader) a = _
  simp only [szsum]
  split
  · rename_i hv
    subst hv
    rw [szsum_erase_same _ _ _ hn, readPosition_rdL]
    omega
  · rename_i hv
    rw [szsum_erase_ne _ _ _ _ hv]
    omega

theorem sumS_remove (e e2 : E) (p : Position) (hn : KeysND e.positions)
    (h : e2.positions = (removePosition e p).positions) (a : Nat) :
    sumS e2 a = if p.vamm = a then sumS e a - (readPosition e p.vamm p.trader).size.toInt else sumS e a := by
  rw [sumS_eq, sumS_eq, h]
  show szsum (erasePosition e.positions p.vamm p.trader) a = _
  split
  · rename_i hv
    subst hv
    rw [szsum_erase_same _ _ _ hn, readPosition_rdL]
  · rename_i hv
    rw [szsum_erase_ne _ _ _ _ hv]

theorem mem_erase {ps : List Position} {v t : Nat} {q : Position} (h : q ∈ erasePosition ps v t) :
    q ∈ ps ∧ ¬ (q.vamm = v ∧ q.trader = t) := by
  unfold erasePosition at h
  rw [List.mem_filter] at h
  refine ⟨h.1, ?_⟩
  have := h.2
  simp only [Bool.not_eq_true', Bool.and_eq_false_iff, beq_eq_false_iff_ne, ne_eq] at this
  intro hk
  rcases this with h1 | h1
  · exact h1 hk.1
  · exact h1 hk.2

theorem KeysND_erase (ps : List Position) (v t : Nat) (hn : KeysND ps) : KeysND (erasePosition ps v t) := by
  unfold KeysND erasePosition
  exact List.Pairwise.filter _ hn

theorem KeysND_store (e e2 : E) (p' : Position) (hn : KeysND e.positions)
    (h : e2.positions = (storePosition e p').positions) : KeysND e2.positions := by
  rw [h]
  show KeysND (p' :: erasePosition e.positions p'.vamm p'.trader)
  unfold KeysND
  rw [List.pairwise_cons]
  refine ⟨?_, KeysND_erase _ _ _ hn⟩
  intro q hq hk
  exact (mem_erase hq).2 ⟨hk.1.symm, hk.2.symm⟩

theorem KeysND_remove (e e2 : E) (p : Position) (hn : KeysND e.positions)
    (h : e2.positions = (removePosition e p).positions) : KeysND e2.positions := by
  rw [h]
  exact KeysND_erase _ _ _ hn

/-! ### sign / direction -/

/-- a record's sign agrees with its direction -/
def SD (p : Position) : Prop :=
  (0 < p.size.toInt → p.direction = .addToAmm) ∧ (p.size.toInt < 0 → p.direction = .removeFromAmm)

def SignDirE (e : E) : Prop := ∀ p ∈ e.positions, SD p

theorem SD_default : SD Position.default := by
  constructor <;> intro h <;> rw [default_size] at h <;> omega

theorem SD_of_zero (p : Position) (h : p.size.toInt = 0) : SD p := by
  constructor <;> intro h' <;> omega

theorem rdL_mem (ps : List Position) (v t : Nat) : rdL ps v t ∈ ps ∨ rdL ps v t = Position.default := by
  unfold rdL
  split
  · rename_i p hp
    exact Or.inl (List.mem_of_find?_eq_some hp)
  · exact Or.inr rfl

theorem SD_read (e : E) (v t : Nat) (h : SignDirE e) : SD (readPosition e v t) := by
  rw [readPosition_rdL]
  rcases rdL_mem e.positions v t with hm | hd
  · exact h _ hm
  · rw [hd]; exact SD_default

theorem SignDirE_store (e e2 : E) (p' : Position) (hs : SignDirE e) (hp : SD p')
    (h : e2.positions = (storePosition e p').positions) : SignDirE e2 := by
  intro q hq
  rw [h] at hq
  have hq' : q ∈ p' :: erasePosition e.positions p'.vamm p'.trader := hq
  rcases List.mem_cons.1 hq' with rfl | hq'
  · exact hp
  · exact hs q (mem_erase hq').1

theorem SignDirE_remove (e e2 : E) (p : Position) (hs : SignDirE e)
    (h : e2.positions = (removePosition e p).positions) : SignDirE e2 := by
  intro q hq
  rw [h] at hq
  exact hs q (mem_erase hq).1

theorem SignDirE_congr {e e2 : E} (h : e2.positions = e.positions) (hs : SignDirE e) : SignDirE e2 := by
  intro q hq
  rw [h] at hq
  exact hs q hq

/-! ### `getPosition` in terms of `readPosition` -/

/-- the direction `get_position` reports -/
def gdir (e : E) (v t : Nat) (side : Side) : Direction :=
  if (readPosition e v t).vamm = 0 then sideToDirection side else (readPosition e v t).direction

theorem getPosition_size (env : Env) (e : E) (v t : Nat) (side : Side) :
    (getPosition env e v t side).size = (readPosition e v t).size := by
  unfold getPosition
  simp only []
  split <;> rfl

theorem getPosition_direction (env : Env) (e : E) (v t : Nat) (side : Side) :
    (getPosition env e v t side).direction = gdir e v t side := by
  unfold getPosition gdir
  simp only []
  split <;> rfl

/-- for a real vAMM address, a record read under it is either a stored record of that vAMM or the
    default (no record) -/
theorem read_vamm_zero (e : E) (v t : Nat) (hv : v ≠ 0) (h : (readPosition e v t).vamm = 0) :
    readPosition e v t = Position.default := by
  rcases EngineMoney.readPosition_key e v t with hk | hk
  · rw [hk.1] at h; exact absurd h hv
  · exact hk

theorem SD_get (env : Env) (e : E) (v t : Nat) (side : Side) (hv : v ≠ 0) (h : SignDirE e) :
    SD (getPosition env e v t side) := by
  have hsz := getPosition_size env e v t side
  by_cases hz : (readPosition e v t).vamm = 0
  · apply SD_of_zero
    rw [hsz, read_vamm_zero e v t hv hz]
    exact default_size
  · have : getPosition env e v t side = readPosition e v t := by
      unfold getPosition
      simp only []
      rw [if_neg hz]
    rw [this]
    exact SD_read e v t h

theorem read_found (e : E) (v t : Nat) (h : ¬ (readPosition e v t).size.value = 0) :
    (readPosition e v t).vamm = v ∧ (readPosition e v t).trader = t := by
  rcases EngineMoney.readPosition_key e v t with hk | hk
  · exact hk
  · rw [hk] at h; exact absurd rfl h

end Perp.Props.MirrorP
