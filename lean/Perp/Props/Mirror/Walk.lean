/-
  G7b, part 2 — what every reply handler does to the position list (which record it stores or
  removes, with which size and direction) and the shape of the messages it emits: only collateral
  messages (never replied to on success), except the second leg of a reversal.
-/
import Perp.Model.World
import Perp.Lemmas.Basic
import Perp.Props.C19
import Perp.Props.EngineGuards
import Perp.Props.EngineMoney
import Perp.Props.WorldInv
import Perp.Props.Mirror.Sum

namespace Perp.Props.MirrorP
open Perp Perp.Engine
open Perp.Props.EngineGuards (Post Post_bind Post_pure Post_ok Post_error Post_bind_pure Post_bind_error
  transferFees_spec)
open Perp.Props.EngineMoney (withdraw_spec)
open Perp.Props.C19 (add_ok toInt_newPositive toInt_newNegative)

/-! ### a normalising walk over `do`-blocks -/

theorem Post_bind_assoc {α β γ : Type} {P : γ → Prop} {x : Except Err α} {g : α → Except Err β}
    {f : β → Except Err γ} (h : Post P (x >>= fun a => g a >>= f)) : Post P ((x >>= g) >>= f) := by
  cases x <;> exact h

theorem Post_bind_ite {α β : Type} {P : β → Prop} {c : Prop} [Decidable c] {A B : Except Err α}
    {f : α → Except Err β} (hc : c → Post P (A >>= f)) (hn : ¬ c → Post P (B >>= f)) :
    Post P ((if c then A else B) >>= f) := by
  by_cases h : c
  · rw [if_pos h]; exact hc h
  · rw [if_neg h]; exact hn h

/-- like `post_walk`, but binds are re-associated and conditionals in bound position are split, so
    that every leaf sees the concrete values computed on its path -/
macro "walk" "[" leaf:tactic "]" : tactic => `(tactic|
  repeat' first
    | (with_reducible exact Post_error)
    | (with_reducible exact Post_bind_error)
    | (with_reducible apply Post_bind_assoc)
    | ((with_reducible apply Post_bind_ite) <;> intro _)
    | ((with_reducible apply Post_pure); $leaf)
    | ((with_reducible apply Post_ok); $leaf)
    | (with_reducible apply Post_bind_pure)
    | (with_reducible apply Post_bind; intro _ _)
    | split
    | (dsimp only []))

/-! ### collateral messages -/

def IsColl : Msg → Prop
  | .tokenTransfer _ _ => True
  | .tokenTransferFrom _ _ _ => True
  | .bankSend _ _ => True
  | .ifWithdraw _ => True
  | _ => False

/-- a fire-and-forget collateral message -/
def CE (m : SubMsg) : Prop := m.replyOn = .error ∧ IsColl m.msg

def AllCE (l : List SubMsg) : Prop := ∀ m ∈ l, CE m

theorem AllCE_nil : AllCE [] := by intro m hm; cases hm
theorem AllCE_cons {m : SubMsg} {l : List SubMsg} (h1 : CE m) (h2 : AllCE l) : AllCE (m :: l) := by
  intro x hx
  rcases List.mem_cons.1 hx with rfl | hx
  · exact h1
  · exact h2 x hx
theorem AllCE_append {a b : List SubMsg} (h1 : AllCE a) (h2 : AllCE b) : AllCE (a ++ b) := by
  intro x hx
  rcases List.mem_append.1 hx with hx | hx
  · exact h1 x hx
  · exact h2 x hx
theorem AllCE_tail {m : SubMsg} {l : List SubMsg} (h : AllCE (m :: l)) : CE m ∧ AllCE l :=
  ⟨h m (List.mem_cons_self), fun x hx => h x (List.mem_cons_of_mem _ hx)⟩

theorem CE_transferMsg (c : Config) (r a : Nat) : CE (transferMsg c r a) := by
  unfold transferMsg; split <;> exact ⟨rfl, trivial⟩
theorem CE_transferFromMsg (c : Config) (o r a : Nat) : CE (transferFromMsg c o r a) := by
  unfold transferFromMsg; split <;> exact ⟨rfl, trivial⟩
theorem CE_ifWithdrawMsg (a : Nat) : CE (ifWithdrawMsg a) := ⟨rfl, trivial⟩

macro "allce" : tactic => `(tactic|
  repeat' first
    | exact AllCE_nil
    | assumption
    | exact CE_transferMsg _ _ _
    | exact CE_transferFromMsg _ _ _ _
    | exact CE_ifWithdrawMsg _
    | (with_reducible apply AllCE_append)
    | (with_reducible apply AllCE_cons)
    | split)

theorem withdraw_allCE (q : Q) (e : E) (st : State) (r a p : Nat) (x : State × List SubMsg)
    (h : unwrap (withdraw q e st r a p) = .ok x) : AllCE x.2 := by
  rw [EngineMoney.unwrap_ok] at h
  obtain ⟨st', msgs⟩ := x
  obtain ⟨bal, _, hm⟩ := withdraw_spec q e st st' r a p msgs h
  rcases hm with ⟨_, _, _, _, rfl⟩ | ⟨_, _, rfl⟩ <;> allce

theorem transferFees_allCE' (q : Q) (e : E) (src v N : Nat) (x : List SubMsg × Nat × Nat)
    (h : transferFees q e src v N = .ok x) : AllCE x.1 := by
  obtain ⟨msgs, sp, tl⟩ := x
  obtain ⟨_, rfl⟩ := transferFees_spec q e src v N msgs sp tl h
  allce

theorem transferFees_allCE (q : Q) (e : E) (src v N : Nat) (x : List SubMsg × Nat × Nat)
    (h : unwrap (transferFees q e src v N) = .ok x) : AllCE x.1 := by
  rw [EngineMoney.unwrap_ok] at h
  exact transferFees_allCE' q e src v N x h

theorem transferToIF_CE (q : Q) (e : E) (a : Nat) (m : SubMsg) (h : transferToInsuranceFund q e a = .ok m) :
    CE m := by
  unfold transferToInsuranceFund at h
  obtain ⟨bal, _, h⟩ := EngineMoney.bind_ok h
  simp only [pure_ok_iff] at h
  subst h
  exact CE_transferMsg _ _ _

/-- register the shape facts of the money helpers that ran on this path -/
macro "ce_hyps" : tactic => `(tactic|
  (try (have hw__ := withdraw_allCE _ _ _ _ _ _ _ ‹unwrap (withdraw _ _ _ _ _ _) = Except.ok _›)
   try (have hf__ := transferFees_allCE _ _ _ _ _ _ ‹unwrap (transferFees _ _ _ _ _) = Except.ok _›)
   try (have ht__ := transferToIF_CE _ _ _ _ ‹transferToInsuranceFund _ _ _ = Except.ok _›)))

/-! ### reply handlers: effect on the position list, shape of the messages -/

set_option maxHeartbeats 1600000 in
theorem updatePositionReply_eff (q : Q) (e : E) (env : Env) (i o id : Nat) (sw : TmpSwap)
    (hs : e.tmpSwap = some sw) :
    Post (fun r => (∃ p' : Position, r.1.positions = (storePosition e p').positions
        ∧ p'.vamm = (getPosition env e sw.vamm sw.trader sw.side).vamm
        ∧ p'.trader = (getPosition env e sw.vamm sw.trader sw.side).trader
        ∧ p'.size.toInt = (getPosition env e sw.vamm sw.trader sw.side).size.toInt + (signedOutput sw.side o).toInt
        ∧ p'.direction = (if id = REPLY_INCREASE then sideToDirection sw.side
                          else (getPosition env e sw.vamm sw.trader sw.side).direction))
      ∧ AllCE r.2) (updatePositionReply q e env i o id) := by
  unfold updatePositionReply
  rw [hs]
  walk [(
    ce_hyps
    refine ⟨⟨_, rfl, rfl, rfl, ?_, ?_⟩, ?_⟩
    · exact (add_ok _ _ _ ‹Integer.add _ _ = Except.ok _›).1
    · first | rfl | (split <;> first | rfl | contradiction)
    · allce)]

theorem reversePositionReply_eff (q : Q) (e : E) (env : Env) (o : Nat) (sw : TmpSwap)
    (hs : e.tmpSwap = some sw) :
    Post (fun r => ∃ p' : Position, r.1.positions = (storePosition e p').positions
        ∧ p'.vamm = (getPosition env e sw.vamm sw.trader sw.side).vamm
        ∧ p'.trader = (getPosition env e sw.vamm sw.trader sw.side).trader
        ∧ p'.size.toInt = 0
        ∧ p'.direction = (getPosition env e sw.vamm sw.trader sw.side).direction)
      (reversePositionReply q e env o) := by
  unfold reversePositionReply
  rw [hs]
  walk [exact ⟨_, rfl, rfl, rfl, rfl, rfl⟩]

theorem closePositionReply_eff (q : Q) (e : E) (env : Env) (o : Nat) (sw : TmpSwap)
    (hs : e.tmpSwap = some sw) :
    Post (fun r => r.1.positions = (removePosition e (getPosition env e sw.vamm sw.trader sw.side)).positions
        ∧ AllCE r.2) (closePositionReply q e env o) := by
  unfold closePositionReply
  rw [hs]
  walk [(ce_hyps; refine ⟨rfl, ?_⟩; allce)]

theorem partialClosePositionReply_eff (q : Q) (e : E) (env : Env) (i o : Nat) (sw : TmpSwap)
    (hs : e.tmpSwap = some sw) :
    Post (fun r => (∃ p' : Position, r.1.positions = (storePosition e p').positions
        ∧ p'.vamm = (getPosition env e sw.vamm sw.trader sw.side).vamm
        ∧ p'.trader = (getPosition env e sw.vamm sw.trader sw.side).trader
        ∧ p'.size.toInt = (getPosition env e sw.vamm sw.trader sw.side).size.toInt + (signedOutput sw.side o).toInt
        ∧ p'.direction = (getPosition env e sw.vamm sw.trader sw.side).direction)
      ∧ AllCE r.2) (partialClosePositionReply q e env i o) := by
  unfold partialClosePositionReply
  rw [hs]
  walk [(
    ce_hyps
    refine ⟨⟨_, rfl, rfl, rfl, ?_, rfl⟩, ?_⟩
    · exact (add_ok _ _ _ ‹Integer.add _ _ = Except.ok _›).1
    · allce)]

theorem liquidateReply_eff (q : Q) (e : E) (env : Env) (o : Nat) (sw : TmpSwap)
    (hs : e.tmpSwap = some sw) :
    Post (fun r => r.1.positions = (removePosition e (getPosition env e sw.vamm sw.trader sw.side)).positions
        ∧ AllCE r.2) (liquidateReply q e env o) := by
  unfold liquidateReply realizeBadDebt
  rw [hs]
  walk [(ce_hyps; refine ⟨rfl, ?_⟩; allce)]

theorem partialLiquidationReply_eff (q : Q) (e : E) (env : Env) (i o : Nat) (sw : TmpSwap)
    (hs : e.tmpSwap = some sw) :
    Post (fun r => (∃ p' : Position, r.1.positions = (storePosition e p').positions
        ∧ p'.vamm = (getPosition env e sw.vamm sw.trader sw.side).vamm
        ∧ p'.trader = (getPosition env e sw.vamm sw.trader sw.side).trader
        ∧ p'.size.toInt = (if (getPosition env e sw.vamm sw.trader sw.side).size.toInt < 0
                            then (getPosition env e sw.vamm sw.trader sw.side).size.toInt + i
                            else (getPosition env e sw.vamm sw.trader sw.side).size.toInt - i)
        ∧ p'.direction = (getPosition env e sw.vamm sw.trader sw.side).direction)
      ∧ AllCE r.2) (partialLiquidationReply q e env i o) := by
  unfold partialLiquidationReply
  rw [hs]
  walk [(
    ce_hyps
    refine ⟨⟨_, rfl, rfl, rfl, ?_, rfl⟩, ?_⟩
    · have e1 := (add_ok _ _ _ ‹Integer.add _ _ = Except.ok _›).1
      try dsimp only []
      first
        | (have hc := ‹Integer.lt _ Integer.zero = true›
           rw [EngineMoney.lt_zero_iff] at hc
           rw [toInt_newPositive] at e1
           first | omega | (split <;> omega))
        | (have hc := ‹¬ (Integer.lt _ Integer.zero = true)›
           rw [EngineMoney.lt_zero_iff] at hc
           rw [toInt_newNegative] at e1
           first | omega | (split <;> omega))
    · allce)]

theorem payFundingReply_eff (q : Q) (e : E) (env : Env) (pf : Integer) (v : Nat) :
    Post (fun r => r.1.positions = e.positions ∧ AllCE r.2) (payFundingReply q e env pf v) := by
  unfold payFundingReply
  walk [(
    ce_hyps
    have ha := WorldInv.appendCum_frame _ _ _ _ ‹appendCum _ _ _ = Except.ok _›
    refine ⟨ha.1, ?_⟩
    allce)]

end Perp.Props.MirrorP
