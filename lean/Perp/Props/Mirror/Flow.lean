/-
  G7b, part 5 — the flow invariant: while the engine's sub-messages run, the mirror equation, the
  sign/direction agreement and the key discipline hold at every point where no swap is in flight, and
  while one is in flight the in-flight record describes exactly the swap that is pending.
-/
import Perp.Props.Mirror.Exec
import Perp.Props.Mirror.VammSide
import Perp.Props.CurveNoFlip

namespace Perp.Props.MirrorP
open Perp Perp.World Perp.Engine
open Perp.Props.Dispatch
open Perp.Props.EngineGuards (ConfigOK)

/-- the vAMM table as a lookup function -/
abbrev VM := Nat → Option Vamm.V

def MirrorF (e : E) (vm : VM) : Prop :=
  ∀ a x, vm a = some x → x.cfg.marginEngine = ENGINE → sumS e a = x.st.net.toInt

/-- the part of the invariant that holds between any two steps of a flow -/
def BaseI (e : E) (vm : VM) : Prop :=
  MirrorF e vm ∧ SignDirE e ∧ KeysND e.positions ∧ ConfigOK e.cfg ∧ vm 0 = none

/-- one vAMM's record replaced: same configuration, net moved by `δ` -/
def VStep (vm vm' : VM) (a : Nat) (δ : Int) : Prop :=
  ∃ x x', vm a = some x ∧ vm' a = some x' ∧ x'.cfg = x.cfg ∧ x'.st.net.toInt = x.st.net.toInt + δ
    ∧ ∀ b, b ≠ a → vm' b = vm b

theorem VStep_ne_zero {vm vm' : VM} {a : Nat} {δ : Int} (hZ : vm 0 = none) (hV : VStep vm vm' a δ) : a ≠ 0 := by
  obtain ⟨x, _, hx, _⟩ := hV
  intro h
  rw [h, hZ] at hx
  cases hx

theorem base_store {e e2 : E} {vm vm' : VM} {a t : Nat} {p' : Position} {δ : Int}
    (hB : BaseI e vm) (hV : VStep vm vm' a δ)
    (hpos : e2.positions = (storePosition e p').positions) (hcfg : e2.cfg = e.cfg)
    (hv : p'.vamm = a) (ht : p'.trader = t)
    (hsz : p'.size.toInt = (readPosition e a t).size.toInt + δ) (hsd : SD p') : BaseI e2 vm' := by
  have ha := VStep_ne_zero hB.2.2.2.2 hV
  obtain ⟨hM, hS, hK, hC, hZ⟩ := hB
  obtain ⟨x, x', hx, hx', hc, hn, hoth⟩ := hV
  refine ⟨?_, SignDirE_store e e2 p' hS hsd hpos, KeysND_store e e2 p' hK hpos, by rw [hcfg]; exact hC, ?_⟩
  · intro b y hy hw
    rw [sumS_store e e2 p' hK hpos b]
    by_cases hb : b = a
    · rw [hb] at hy ⊢
      rw [hx'] at hy
      cases hy
      rw [if_pos hv, hv, ht, hsz, hn]
      have := hM a x hx (by rw [← hc]; exact hw)
      omega
    · rw [if_neg (by rw [hv]; exact fun h => hb h.symm)]
      rw [hoth b hb] at hy
      exact hM b y hy hw
  · rw [hoth 0 (fun h => ha h.symm)]; exact hZ

theorem base_remove {e e2 : E} {vm vm' : VM} {a t : Nat} {p : Position} {δ : Int}
    (hB : BaseI e vm) (hV : VStep vm vm' a δ)
    (hpos : e2.positions = (removePosition e p).positions) (hcfg : e2.cfg = e.cfg)
    (hv : p.vamm = a) (ht : p.trader = t)
    (hsz : δ = - (readPosition e a t).size.toInt) : BaseI e2 vm' := by
  have ha := VStep_ne_zero hB.2.2.2.2 hV
  obtain ⟨hM, hS, hK, hC, hZ⟩ := hB
  obtain ⟨x, x', hx, hx', hc, hn, hoth⟩ := hV
  refine ⟨?_, SignDirE_remove e e2 p hS hpos, KeysND_remove e e2 p hK hpos, by rw [hcfg]; exact hC, ?_⟩
  · intro b y hy hw
    rw [sumS_remove e e2 p hK hpos b]
    by_cases hb : b = a
    · rw [hb] at hy ⊢
      rw [hx'] at hy
      cases hy
      rw [if_pos hv, hv, ht, hn]
      have := hM a x hx (by rw [← hc]; exact hw)
      omega
    · rw [if_neg (by rw [hv]; exact fun h => hb h.symm)]
      rw [hoth b hb] at hy
      exact hM b y hy hw
  · rw [hoth 0 (fun h => ha h.symm)]; exact hZ

/-- positions untouched, one vAMM record replaced without moving its net -/
theorem base_frame {e e2 : E} {vm vm' : VM} {a : Nat}
    (hB : BaseI e vm) (hV : VStep vm vm' a 0)
    (hpos : e2.positions = e.positions) (hcfg : e2.cfg = e.cfg) : BaseI e2 vm' := by
  have ha := VStep_ne_zero hB.2.2.2.2 hV
  obtain ⟨hM, hS, hK, hC, hZ⟩ := hB
  obtain ⟨x, x', hx, hx', hc, hn, hoth⟩ := hV
  refine ⟨?_, SignDirE_congr hpos hS, by rw [hpos]; exact hK, by rw [hcfg]; exact hC, ?_⟩
  · intro b y hy hw
    rw [sumS_congr hpos b]
    by_cases hb : b = a
    · rw [hb] at hy ⊢
      rw [hx'] at hy
      cases hy
      have := hM a x hx (by rw [← hc]; exact hw)
      omega
    · rw [hoth b hb] at hy
      exact hM b y hy hw
  · rw [hoth 0 (fun h => ha h.symm)]; exact hZ

/-- positions untouched (or only the configuration moved, staying valid), vAMMs untouched -/
theorem base_congr {e e2 : E} {vm : VM} (hB : BaseI e vm)
    (hpos : e2.positions = e.positions) (hcfg : ConfigOK e2.cfg) : BaseI e2 vm := by
  obtain ⟨hM, hS, hK, hC, hZ⟩ := hB
  refine ⟨?_, SignDirE_congr hpos hS, by rw [hpos]; exact hK, hcfg, hZ⟩
  intro b y hy hw
  rw [sumS_congr hpos b]
  exact hM b y hy hw

/-- a record re-stored under its own key with the same size and direction -/
theorem base_same_size {e e2 : E} {vm : VM} {v t : Nat} {p' : Position}
    (hB : BaseI e vm) (hpos : e2.positions = (storePosition e p').positions) (hcfg : e2.cfg = e.cfg)
    (hv : p'.vamm = (readPosition e v t).vamm) (ht : p'.trader = (readPosition e v t).trader)
    (hsz : p'.size = (readPosition e v t).size) (hd : p'.direction = (readPosition e v t).direction) :
    BaseI e2 vm := by
  obtain ⟨hM, hS, hK, hC, hZ⟩ := hB
  have hsd : SD p' := by
    have := SD_read e v t hS
    unfold SD at this ⊢
    rw [hsz, hd]
    exact this
  refine ⟨?_, SignDirE_store e e2 p' hS hsd hpos, KeysND_store e e2 p' hK hpos, by rw [hcfg]; exact hC, hZ⟩
  intro b y hy hw
  rw [sumS_store e e2 p' hK hpos b]
  split
  · rename_i hb
    have hread : readPosition e p'.vamm p'.trader = readPosition e v t := by
      rcases EngineMoney.readPosition_key e v t with hk | hk
      · rw [hv, ht, hk.1, hk.2]
      · exfalso
        rw [hk] at hv
        have : b = 0 := by rw [← hb, hv]; rfl
        rw [this, hZ] at hy
        cases hy
    rw [hread, hsz]
    have := hM b y hy hw
    omega
  · exact hM b y hy hw

/-! ### sign bookkeeping -/

theorem gt_zero_iff (a : Integer) : Integer.gt a Integer.zero = true ↔ 0 < a.toInt := by
  unfold Integer.gt
  rw [beq_iff_eq, C19.cmp_gt_iff]
  rfl

theorem SD_shrink {P p' : Position} (hP : SD P) (hd : p'.direction = P.direction)
    (h1 : 0 < p'.size.toInt → 0 < P.size.toInt) (h2 : p'.size.toInt < 0 → P.size.toInt < 0) : SD p' :=
  ⟨fun h => by rw [hd]; exact hP.1 (h1 h), fun h => by rw [hd]; exact hP.2 (h2 h)⟩

theorem SD_increase {P p' : Position} {side : Side} {b : Nat} (hP : SD P)
    (h : P.size.toInt = 0 ∨ P.direction = sideToDirection side)
    (hsz : p'.size.toInt = P.size.toInt + (signedOutput side b).toInt)
    (hd : p'.direction = sideToDirection side) : SD p' := by
  rw [signedOutput_toInt] at hsz
  constructor
  · intro hpos
    rw [hd]
    cases side with
    | buy => rfl
    | sell =>
      exfalso
      simp only [] at hsz
      rcases h with h | h
      · omega
      · have : ¬ 0 < P.size.toInt := fun hh => by
          have := hP.1 hh
          rw [h] at this
          cases this
        omega
  · intro hneg
    rw [hd]
    cases side with
    | sell => rfl
    | buy =>
      exfalso
      simp only [] at hsz
      rcases h with h | h
      · omega
      · have : ¬ P.size.toInt < 0 := fun hh => by
          have := hP.2 hh
          rw [h] at this
          cases this
        omega

/-- a reducing trade of at most `|size|` base keeps the sign (or reaches zero) -/
theorem reduce_signs {P : Position} {side : Side} {b : Nat} (hP : SD P)
    (hne : P.direction ≠ sideToDirection side) (hb : b ≤ P.size.value) :
    (0 < P.size.toInt + (signedOutput side b).toInt → 0 < P.size.toInt)
    ∧ (P.size.toInt + (signedOutput side b).toInt < 0 → P.size.toInt < 0) := by
  have hv := C19.toInt_natAbs P.size
  rw [signedOutput_toInt]
  cases side with
  | buy =>
    simp only []
    have : ¬ 0 < P.size.toInt := fun hh => hne (hP.1 hh)
    constructor <;> intro _ <;> omega
  | sell =>
    simp only []
    have : ¬ P.size.toInt < 0 := fun hh => hne (hP.2 hh)
    constructor <;> intro _ <;> omega

theorem partial_signs {P : Position} {side : Side} {b : Nat}
    (hside : side = positionToSide P.size) (hb : b ≤ P.size.value) :
    (0 < P.size.toInt + (signedOutput side b).toInt → 0 < P.size.toInt)
    ∧ (P.size.toInt + (signedOutput side b).toInt < 0 → P.size.toInt < 0) := by
  have hv := C19.toInt_natAbs P.size
  rw [signedOutput_toInt, hside]
  unfold positionToSide
  by_cases hg : Integer.gt P.size Integer.zero = true
  · rw [if_pos hg]
    rw [gt_zero_iff] at hg
    simp only []
    constructor <;> intro _ <;> omega
  · rw [if_neg hg]
    rw [gt_zero_iff] at hg
    simp only []
    constructor <;> intro _ <;> omega

/-- closing `|size|` in the stored direction moves the vAMM's net by exactly `-size` -/
theorem close_delta {p : Position} (hp : SD p) :
    (signedOutput (directionToSide p.direction) p.size.value).toInt = p.size.toInt := by
  have hv := C19.toInt_natAbs p.size
  rw [signedOutput_toInt]
  by_cases h1 : 0 < p.size.toInt
  · rw [hp.1 h1]
    simp only [directionToSide]
    omega
  · by_cases h2 : p.size.toInt < 0
    · rw [hp.2 h2]
      simp only [directionToSide]
      omega
    · have h0 : p.size.value = 0 := by omega
      rw [h0]
      cases p.direction <;> simp only [directionToSide] <;> omega

/-- partial liquidation: the engine's own sign test agrees with the stored direction -/
theorem pliq_delta {p : Position} {ps : Nat} (hp : SD p) (hps : ps ≤ p.size.value) :
    (if p.size.toInt < 0 then p.size.toInt + ps else p.size.toInt - ps)
      = p.size.toInt + - (signedOutput (directionToSide p.direction) ps).toInt := by
  have hv := C19.toInt_natAbs p.size
  rw [signedOutput_toInt]
  by_cases h1 : 0 < p.size.toInt
  · rw [hp.1 h1, if_neg (by omega)]
    simp only [directionToSide]
    omega
  · by_cases h2 : p.size.toInt < 0
    · rw [hp.2 h2, if_pos h2]
      simp only [directionToSide]
      omega
    · have h0 : ps = 0 := by omega
      rw [h0, if_neg h2]
      cases p.direction <;> simp only [directionToSide] <;> omega

theorem pliq_signs {s : Int} {v ps : Nat} (hv : s.natAbs = v) (hps : ps ≤ v) :
    (0 < (if s < 0 then s + ps else s - ps) → 0 < s) ∧ ((if s < 0 then s + ps else s - ps) < 0 → s < 0) := by
  split <;> constructor <;> intro _ <;> omega

/-! ### executing the pending swap -/

theorem dir_side (s : Side) : directionToSide (sideToDirection s) = s := by cases s <;> rfl

theorem exec_swapIn (fuel : Nat) (w w1 : World) (a : Nat) (side : Side) (N lim : Nat) (cgo : Bool) (id : Nat) (ev : Ev)
    (h : execMsg fuel w ENGINE (swapInputMsg a side N lim cgo id).msg = .ok (w1, ev)) :
    w1.engine = w.engine ∧ w1.env = w.env
    ∧ ∃ x b, w.vamm? a = some x ∧ Vamm.queryInputAmount x (sideToDirection side) N = .ok b
        ∧ ev = .swap ⟨true, N, b⟩ ∧ VStep w.vamm? w1.vamm? a (signedOutput side b).toInt := by
  have hf := (execMsg_engine_frame fuel).1 _ _ _ _ _ h
  have h' : execMsg fuel w ENGINE (.vammSwapInput a (sideToDirection side) N lim cgo) = .ok (w1, ev) := h
  obtain ⟨v, v', o, hv, hsw, rfl, rfl⟩ := execMsg_swapInput_inv _ _ _ _ _ _ _ _ _ _ h'
  obtain ⟨_, hc, b, rfl, hq, hn⟩ := swapInput_net _ _ _ _ _ _ _ _ _ hsw
  rw [dir_side] at hn
  exact ⟨hf.1, hf.2.1, v, b, hv, hq, rfl,
    v, v', hv, setVamm_vamm_same _ _ _ _ hv, hc, hn, fun b hb => setVamm_vamm_ne _ _ _ _ hb⟩

theorem exec_swapOut (fuel : Nat) (w w1 : World) (a : Nat) (side : Side) (amt lim : Nat) (id : Nat) (ev : Ev)
    (h : execMsg fuel w ENGINE (swapOutputMsg a side amt lim id).msg = .ok (w1, ev)) :
    w1.engine = w.engine ∧ w1.env = w.env
    ∧ ∃ q, ev = .swap ⟨false, q, amt⟩ ∧ VStep w.vamm? w1.vamm? a (- (signedOutput side amt).toInt) := by
  have hf := (execMsg_engine_frame fuel).1 _ _ _ _ _ h
  have h' : execMsg fuel w ENGINE (.vammSwapOutput a (sideToDirection side) amt lim) = .ok (w1, ev) := h
  obtain ⟨v, v', o, hv, hsw, rfl, rfl⟩ := execMsg_swapOutput_inv _ _ _ _ _ _ _ _ _ h'
  obtain ⟨_, hc, q, rfl, hn⟩ := swapOutput_net _ _ _ _ _ _ _ _ hsw
  rw [dir_side] at hn
  refine ⟨hf.1, hf.2.1, q, rfl, v, v', hv, setVamm_vamm_same _ _ _ _ hv, hc, ?_, fun b hb => setVamm_vamm_ne _ _ _ _ hb⟩
  rw [hn]
  omega

theorem exec_settle (fuel : Nat) (w w1 : World) (a : Nat) (ev : Ev)
    (h : execMsg fuel w ENGINE (.vammSettle a) = .ok (w1, ev)) :
    w1.engine = w.engine ∧ w1.env = w.env
    ∧ ∃ pf, ev = .settle pf a ∧ VStep w.vamm? w1.vamm? a 0 := by
  have hf := (execMsg_engine_frame fuel).1 _ _ _ _ _ h
  obtain ⟨v, v', pf, hv, hsw, rfl, rfl⟩ := execMsg_settle_inv _ _ _ _ _ _ h
  obtain ⟨_, _, h3, h4⟩ := C01.settle_keep _ _ _ _ _ _ hsw
  refine ⟨hf.1, hf.2.1, pf, rfl, v, v', hv, setVamm_vamm_same _ _ _ _ hv, h4, ?_, fun b hb => setVamm_vamm_ne _ _ _ _ hb⟩
  rw [h3]
  omega

/-! ### the flow invariant -/

/-- a reducing swap for quote notional `N` returns at most `|size|` base, at the vAMM's current state -/
def NoFlip (e : E) (vm : VM) (sw : TmpSwap) (N : Nat) : Prop :=
  ∀ x b, vm sw.vamm = some x → Vamm.queryInputAmount x (sideToDirection sw.side) N = .ok b →
    b ≤ (readPosition e sw.vamm sw.trader).size.value

/-- the pending sub-message with a reply, and what the in-flight record says about it -/
def PendW (e : E) (vm : VM) (m : SubMsg) : Prop :=
  (∃ v, m = ⟨.vammSettle v, REPLY_PAY_FUNDING, .always⟩)
  ∨ ∃ sw, e.tmpSwap = some sw ∧
     ((∃ N lim, m = swapInputMsg sw.vamm sw.side N lim false REPLY_INCREASE
          ∧ ((readPosition e sw.vamm sw.trader).size.toInt = 0
              ∨ gdir e sw.vamm sw.trader sw.side = sideToDirection sw.side))
     ∨ (∃ N lim, m = swapInputMsg sw.vamm sw.side N lim false REPLY_DECREASE
          ∧ gdir e sw.vamm sw.trader sw.side ≠ sideToDirection sw.side ∧ NoFlip e vm sw N)
     ∨ (∃ N, m = swapInputMsg sw.vamm sw.side N 0 true REPLY_PARTIAL_CLOSE
          ∧ sw.side = positionToSide (readPosition e sw.vamm sw.trader).size ∧ NoFlip e vm sw N)
     ∨ (∃ lim id, (id = REPLY_REVERSE ∨ id = REPLY_CLOSE ∨ id = REPLY_LIQUIDATION)
          ∧ m = swapOutputMsg sw.vamm (directionToSide (readPosition e sw.vamm sw.trader).direction)
                  (readPosition e sw.vamm sw.trader).size.value lim id)
     ∨ (∃ ps lim, m = swapOutputMsg sw.vamm (directionToSide (readPosition e sw.vamm sw.trader).direction)
                        ps lim REPLY_PARTIAL_LIQUIDATION
          ∧ ps ≤ (readPosition e sw.vamm sw.trader).size.value))

theorem PendW_always {e : E} {vm : VM} {m : SubMsg} (h : PendW e vm m) : m.replyOn = .always := by
  rcases h with ⟨v, rfl⟩ | ⟨sw, _, h⟩
  · rfl
  · rcases h with ⟨_, _, rfl, _⟩ | ⟨_, _, rfl, _⟩ | ⟨_, rfl, _⟩ | ⟨_, _, _, rfl⟩ | ⟨_, _, rfl, _⟩ <;> rfl

/-- the engine's pending sub-messages: all fire-and-forget collateral messages, or such messages
    followed by exactly one swap / settle whose reply is described by `PendW` -/
def FI (e : E) (vm : VM) (subs : List SubMsg) : Prop :=
  (AllCE subs ∧ BaseI e vm) ∨ ∃ pre last, subs = pre ++ [last] ∧ AllCE pre ∧ BaseI e vm ∧ PendW e vm last

/-- **per-flow accounting**: executing the pending swap / settle and running its reply re-establishes
    the flow invariant (the vAMM's net and the stored sizes move together) -/
theorem reply_step (fuel : Nat) (w w1 : World) (m : SubMsg) (ev : Ev) (e2 : E) (subs2 : List SubMsg)
    (hB : BaseI w.engine w.vamm?) (hP : PendW w.engine w.vamm? m)
    (hx : execMsg fuel w ENGINE m.msg = .ok (w1, ev))
    (hr : replyOk w1.q w1.engine w1.env m.id ev = .ok (e2, subs2)) :
    FI e2 w1.vamm? subs2 := by
  have hcfg := EngineGuards.replyOk_cfg _ _ _ _ _ _ _ hr
  rcases hP with ⟨v, rfl⟩ | ⟨sw, hs, hP⟩
  · -- funding settlement
    obtain ⟨he, _, pf, rfl, hV⟩ := exec_settle _ _ _ _ _ hx
    rw [he] at hr hcfg
    have h' : payFundingReply w1.q w.engine w1.env pf v = .ok (e2, subs2) := hr
    obtain ⟨hpos, hce⟩ := payFundingReply_eff _ _ _ _ _ _ h'
    exact Or.inl ⟨hce, base_frame hB hV hpos hcfg⟩
  · have hk := EngineMoney.getPosition_key w1.env w.engine sw.vamm sw.trader sw.side
    rcases hP with ⟨N, lim, rfl, hinc⟩ | ⟨N, lim, rfl, hne, hnf⟩ | ⟨N, rfl, hside, hnf⟩
        | ⟨lim, id, hid, rfl⟩ | ⟨ps, lim, rfl, hps⟩
    · -- open / increase (also the second leg of a reversal)
      obtain ⟨he, _, x, b, hxa, hq, rfl, hV⟩ := exec_swapIn _ _ _ _ _ _ _ _ _ _ hx
      rw [he] at hr hcfg
      have h' : updatePositionReply w1.q w.engine w1.env N b REPLY_INCREASE = .ok (e2, subs2) := hr
      obtain ⟨⟨p', hpos, hv, ht, hsz, hd⟩, hce⟩ := updatePositionReply_eff _ _ _ _ _ _ sw hs _ h'
      have hvz := VStep_ne_zero hB.2.2.2.2 hV
      have hsdP := SD_get w1.env w.engine sw.vamm sw.trader sw.side hvz hB.2.1
      rw [if_pos rfl] at hd
      have hsz' := hsz
      rw [getPosition_size] at hsz'
      refine Or.inl ⟨hce, base_store hB hV hpos hcfg (hv.trans hk.1) (ht.trans hk.2) hsz' ?_⟩
      refine SD_increase hsdP ?_ hsz hd
      rw [getPosition_size, getPosition_direction]
      exact hinc
    · -- reduce
      obtain ⟨he, _, x, b, hxa, hq, rfl, hV⟩ := exec_swapIn _ _ _ _ _ _ _ _ _ _ hx
      rw [he] at hr hcfg
      have h' : updatePositionReply w1.q w.engine w1.env N b REPLY_DECREASE = .ok (e2, subs2) := hr
      obtain ⟨⟨p', hpos, hv, ht, hsz, hd⟩, hce⟩ := updatePositionReply_eff _ _ _ _ _ _ sw hs _ h'
      have hvz := VStep_ne_zero hB.2.2.2.2 hV
      have hsdP := SD_get w1.env w.engine sw.vamm sw.trader sw.side hvz hB.2.1
      rw [if_neg (by decide)] at hd
      have hb := hnf x b hxa hq
      have hsz' := hsz
      rw [getPosition_size] at hsz'
      refine Or.inl ⟨hce, base_store hB hV hpos hcfg (hv.trans hk.1) (ht.trans hk.2) hsz' ?_⟩
      have hsg := reduce_signs (P := getPosition w1.env w.engine sw.vamm sw.trader sw.side) (side := sw.side) (b := b)
        hsdP (by rw [getPosition_direction]; exact hne) (by rw [getPosition_size]; exact hb)
      exact SD_shrink hsdP hd (by rw [hsz]; exact hsg.1) (by rw [hsz]; exact hsg.2)
    · -- partial close
      obtain ⟨he, _, x, b, hxa, hq, rfl, hV⟩ := exec_swapIn _ _ _ _ _ _ _ _ _ _ hx
      rw [he] at hr hcfg
      have h' : partialClosePositionReply w1.q w.engine w1.env N b = .ok (e2, subs2) := hr
      obtain ⟨⟨p', hpos, hv, ht, hsz, hd⟩, hce⟩ := partialClosePositionReply_eff _ _ _ _ _ sw hs _ h'
      have hvz := VStep_ne_zero hB.2.2.2.2 hV
      have hsdP := SD_get w1.env w.engine sw.vamm sw.trader sw.side hvz hB.2.1
      have hb := hnf x b hxa hq
      have hsz' := hsz
      rw [getPosition_size] at hsz'
      refine Or.inl ⟨hce, base_store hB hV hpos hcfg (hv.trans hk.1) (ht.trans hk.2) hsz' ?_⟩
      have hsg := partial_signs (P := getPosition w1.env w.engine sw.vamm sw.trader sw.side) (side := sw.side) (b := b)
        (by rw [getPosition_size]; exact hside) (by rw [getPosition_size]; exact hb)
      exact SD_shrink hsdP hd (by rw [hsz]; exact hsg.1) (by rw [hsz]; exact hsg.2)
    · -- the whole position goes back to the vAMM: reversal (first leg), close, liquidation
      obtain ⟨he, _, q, rfl, hV⟩ := exec_swapOut _ _ _ _ _ _ _ _ _ hx
      rw [he] at hr hcfg
      have hsdR := SD_read w.engine sw.vamm sw.trader hB.2.1
      rw [close_delta hsdR] at hV
      rcases hid with rfl | rfl | rfl
      · have h' : reversePositionReply w1.q w.engine w1.env q = .ok (e2, subs2) := hr
        obtain ⟨p', hpos, hv, ht, hsz, hd⟩ := reversePositionReply_eff _ _ _ _ sw hs _ h'
        have hB2 : BaseI e2 w1.vamm? :=
          base_store hB hV hpos hcfg (hv.trans hk.1) (ht.trans hk.2) (by rw [hsz]; omega) (SD_of_zero _ hsz)
        obtain ⟨fm, sp, tl, last, hfm, hmsgs, hlast, hsize0, _⟩ :=
          EngineMoney.reversePositionReply_fees _ _ _ _ _ _ sw hs h'
        have hfce : AllCE fm := transferFees_allCE' _ _ _ _ _ _ hfm
        rcases hlast with ⟨_, _, amt, rfl⟩ | ⟨sw', hs', _, htr, hvm, hsd', _, rfl⟩
        · left
          refine ⟨?_, hB2⟩
          rw [hmsgs]
          exact AllCE_append hfce (AllCE_cons (CE_transferMsg _ _ _) AllCE_nil)
        · right
          refine ⟨fm, _, hmsgs, hfce, hB2, Or.inr ⟨sw', hs', Or.inl ⟨sw'.openNotional, 0, ?_, Or.inl ?_⟩⟩⟩
          · rw [hvm, hsd']
          · rw [hvm, htr, hsize0]; rfl
      · have h' : closePositionReply w1.q w.engine w1.env q = .ok (e2, subs2) := hr
        obtain ⟨hpos, hce⟩ := closePositionReply_eff _ _ _ _ sw hs _ h'
        exact Or.inl ⟨hce, base_remove hB hV hpos hcfg hk.1 hk.2 rfl⟩
      · have h' : liquidateReply w1.q w.engine w1.env q = .ok (e2, subs2) := hr
        obtain ⟨hpos, hce⟩ := liquidateReply_eff _ _ _ _ sw hs _ h'
        exact Or.inl ⟨hce, base_remove hB hV hpos hcfg hk.1 hk.2 rfl⟩
    · -- partial liquidation
      obtain ⟨he, _, q, rfl, hV⟩ := exec_swapOut _ _ _ _ _ _ _ _ _ hx
      rw [he] at hr hcfg
      have h' : partialLiquidationReply w1.q w.engine w1.env ps q = .ok (e2, subs2) := hr
      obtain ⟨⟨p', hpos, hv, ht, hsz, hd⟩, hce⟩ := partialLiquidationReply_eff _ _ _ _ _ sw hs _ h'
      have hvz := VStep_ne_zero hB.2.2.2.2 hV
      have hsdP := SD_get w1.env w.engine sw.vamm sw.trader sw.side hvz hB.2.1
      have hsdR := SD_read w.engine sw.vamm sw.trader hB.2.1
      rw [getPosition_size] at hsz
      have hsz' := hsz
      rw [pliq_delta hsdR hps] at hsz'
      refine Or.inl ⟨hce, base_store hB hV hpos hcfg (hv.trans hk.1) (ht.trans hk.2) hsz' ?_⟩
      have hsg := pliq_signs (C19.toInt_natAbs (readPosition w.engine sw.vamm sw.trader).size) hps
      refine SD_shrink hsdP hd ?_ ?_
      · rw [hsz, getPosition_size]; exact hsg.1
      · rw [hsz, getPosition_size]; exact hsg.2

end Perp.Props.MirrorP
