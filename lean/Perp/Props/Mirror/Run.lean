/-
  G7b, part 6 — every `execute` starts a well-formed flow (this is where the curve lemmas enter:
  a reduce / partial close never takes more base than the position holds), and running a well-formed
  flow to its end re-establishes the invariant.
-/
import Perp.Props.Mirror.Flow

namespace Perp.Props.MirrorP
open Perp Perp.World Perp.Engine
open Perp.Props.Dispatch
open Perp.Props.EngineGuards (ConfigOK)

/-- regular regime of every curve (lookup-function form of `CurveRegular`) -/
def CurveRegF (vm : VM) : Prop :=
  ∀ a x, vm a = some x →
    x.cfg.decimals ≤ x.st.quote ∧ x.cfg.decimals ≤ x.st.base ∧ (x.cfg.fluct ≠ 0 → x.st.base ≤ x.st.quote)

/-! ### the engine's queriers -/

theorem q_outputAmount (w : World) (v : Nat) (d : Direction) (a N : Nat) (h : w.q.outputAmount v d a = .ok N) :
    ∃ x, w.vamm? v = some x ∧ Vamm.queryOutputAmount x d a = .ok N := by
  have h' : (do let x ← w.vammE v; Vamm.queryOutputAmount x d a) = .ok N := h
  obtain ⟨x, hx, hq⟩ := EngineMoney.bind_ok h'
  exact ⟨x, (vammE_ok _ _ _).1 hx, hq⟩

theorem q_isOverFluct (w : World) (v : Nat) (d : Direction) (a : Nat) (h : w.q.isOverFluct v d a = .ok true) :
    ∃ x, w.vamm? v = some x ∧ x.cfg.fluct ≠ 0 := by
  have h' : (do let x ← w.vammE v; Vamm.queryIsOverFluctuationLimit x w.env d a) = .ok true := h
  obtain ⟨x, hx, hq⟩ := EngineMoney.bind_ok h'
  refine ⟨x, (vammE_ok _ _ _).1 hx, fun hf => ?_⟩
  unfold Vamm.queryIsOverFluctuationLimit at hq
  rw [if_pos hf] at hq
  cases hq

theorem pnl_spot_pos (q : Q) (e : E) (p : Position) (pn N : Nat) (u : Integer)
    (h : unwrap (positionNotionalPnl q e p .spot) = .ok (pn, u)) (hgt : pn > N) :
    q.outputAmount p.vamm p.direction p.size.value = .ok pn := by
  rw [EngineMoney.unwrap_ok] at h
  unfold positionNotionalPnl at h
  split at h
  · cases h
    omega
  · simp only [] at h
    obtain ⟨out, hout, h⟩ := EngineMoney.bind_ok h
    split at h <;>
      (obtain ⟨pnl, _, h⟩ := EngineMoney.bind_ok h
       simp only [pure_ok_iff] at h
       cases h
       exact hout)

/-! ### the curve lemmas, at the engine's call sites -/

theorem noflip_reduce (w : World) (P : Position) (side : Side) (N pn v : Nat)
    (hCR : CurveRegF w.vamm?) (hne : P.direction ≠ sideToDirection side)
    (hout : w.q.outputAmount v P.direction P.size.value = .ok pn) (hgt : pn > N) :
    ∀ x b, w.vamm? v = some x → Vamm.queryInputAmount x (sideToDirection side) N = .ok b → b ≤ P.size.value := by
  obtain ⟨x0, hx0, hq0⟩ := q_outputAmount _ _ _ _ _ hout
  intro x b hx hb
  rw [hx0] at hx
  cases hx
  obtain ⟨c1, c2, _⟩ := hCR v x0 hx0
  cases hd : P.direction with
  | addToAmm =>
    rw [hd] at hq0 hne
    cases side with
    | buy => exact absurd rfl hne
    | sell => exact CurveNoFlip.reduce_long_no_flip _ _ _ _ _ _ _ c1 c2 hq0 hgt hb
  | removeFromAmm =>
    rw [hd] at hq0 hne
    cases side with
    | sell => exact absurd rfl hne
    | buy => exact CurveNoFlip.reduce_short_no_flip _ _ _ _ _ _ _ c1 c2 hq0 hgt hb

theorem noflip_partial (w : World) (size : Integer) (plr D y pa N v : Nat)
    (hCR : CurveRegF w.vamm?) (hy : cmul size.value plr = .ok y) (hpa : cdiv y D = .ok pa) (hplr : plr < D)
    (hout : w.q.outputAmount v (if Integer.gt size Integer.zero then .addToAmm else .removeFromAmm) pa = .ok N)
    (hover : w.q.isOverFluct v (if Integer.gt size Integer.zero then .addToAmm else .removeFromAmm) size.value
              = .ok true) :
    ∀ x b, w.vamm? v = some x → Vamm.queryInputAmount x (sideToDirection (positionToSide size)) N = .ok b →
      b ≤ size.value := by
  obtain ⟨x0, hx0, hq0⟩ := q_outputAmount _ _ _ _ _ hout
  obtain ⟨x1, hx1, hfl⟩ := q_isOverFluct _ _ _ _ hover
  rw [hx0] at hx1
  cases hx1
  simp only [cmul_ok] at hy
  obtain ⟨_, rfl⟩ := hy
  simp only [cdiv_ok] at hpa
  obtain ⟨hD, rfl⟩ := hpa
  have hle : size.value * plr / D ≤ size.value := by
    apply Nat.div_le_of_le_mul
    rw [Nat.mul_comm D]
    exact Nat.mul_le_mul_left _ (Nat.le_of_lt hplr)
  intro x b hx hb
  rw [hx0] at hx
  cases hx
  obtain ⟨c1, c2, c3⟩ := hCR v x0 hx0
  unfold positionToSide at hb
  by_cases hg : Integer.gt size Integer.zero = true
  · rw [if_pos hg] at hq0 hb
    exact Nat.le_trans (CurveNoFlip.partial_long_no_overshoot _ _ _ _ _ _ c1 c2 hq0 hb) hle
  · rw [if_neg hg] at hq0 hb
    exact Nat.le_trans (CurveNoFlip.partial_short_no_overshoot _ _ _ _ _ _ c1 c2 (c3 hfl) hq0 hb) hle

theorem gdir_ne {e : E} {v t : Nat} {side : Side} (h : gdir e v t side ≠ sideToDirection side) :
    gdir e v t side = (readPosition e v t).direction := by
  unfold gdir at h ⊢
  split
  · rename_i hz
    rw [if_pos hz] at h
    exact absurd rfl h
  · rfl

/-! ### every `execute` starts a well-formed flow -/

theorem exec_step (w : World) (env : Env) (s : Nat) (f : Funds) (m : ExecMsg) (e1 : E) (subs : List SubMsg)
    (hB : BaseI w.engine w.vamm?) (hCR : CurveRegF w.vamm?)
    (h : execute w.q w.engine env s f m = .ok (e1, subs)) : FI e1 w.vamm? subs := by
  have hadm : ∀ e', WorldInv.Frame w.engine e' → e'.cfg = w.engine.cfg → FI e' w.vamm? [] := fun e' hf hc =>
    Or.inl ⟨AllCE_nil, base_congr hB hf.1 (by rw [hc]; exact hB.2.2.2.1)⟩
  cases m with
  | updateConfig u =>
    have h' : (updateConfig w.engine s u).map (fun e' => (e', ([] : List SubMsg))) = .ok (e1, subs) := h
    obtain ⟨e1', h1, h2⟩ := (EngineGuards.exmap_ok _ _ _).1 h'
    cases h2
    have hf := WorldInv.updateConfig_frame _ _ _ _ h1
    exact Or.inl ⟨AllCE_nil, base_congr hB hf.1 (EngineGuards.updateConfig_configOK _ _ _ _ hB.2.2.2.1 h1).1⟩
  | updatePauser p =>
    have h' : (updatePauser w.engine s p).map (fun e' => (e', ([] : List SubMsg))) = .ok (e1, subs) := h
    obtain ⟨e1', h1, h2⟩ := (EngineGuards.exmap_ok _ _ _).1 h'
    cases h2
    exact hadm _ (WorldInv.updatePauser_frame _ _ _ _ h1) (EngineGuards.updatePauser_cfg _ _ _ _ h1)
  | addWhitelist a =>
    have h' : (addWhitelist w.engine s a).map (fun e' => (e', ([] : List SubMsg))) = .ok (e1, subs) := h
    obtain ⟨e1', h1, h2⟩ := (EngineGuards.exmap_ok _ _ _).1 h'
    cases h2
    exact hadm _ (WorldInv.addWhitelist_frame _ _ _ _ h1) (EngineGuards.addWhitelist_cfg _ _ _ _ h1)
  | removeWhitelist a =>
    have h' : (removeWhitelist w.engine s a).map (fun e' => (e', ([] : List SubMsg))) = .ok (e1, subs) := h
    obtain ⟨e1', h1, h2⟩ := (EngineGuards.exmap_ok _ _ _).1 h'
    cases h2
    exact hadm _ (WorldInv.removeWhitelist_frame _ _ _ _ h1) (EngineGuards.removeWhitelist_cfg _ _ _ _ h1)
  | setPause p =>
    have h' : (setPause w.engine s p).map (fun e' => (e', ([] : List SubMsg))) = .ok (e1, subs) := h
    obtain ⟨e1', h1, h2⟩ := (EngineGuards.exmap_ok _ _ _).1 h'
    cases h2
    exact hadm _ (WorldInv.setPause_frame _ _ _ _ h1) (EngineGuards.setPause_cfg _ _ _ _ h1)
  | openPosition v side mg l b =>
    have h' : openPosition w.q w.engine env s f v side mg l b = .ok (e1, subs) := h
    obtain ⟨hpos, hcfg, tmp, htmp, tv, tt, ts, hcase⟩ := openPosition_inv _ _ _ _ _ _ _ _ _ _ _ h'
    have hpos' : e1.positions = w.engine.positions := hpos
    have hB1 : BaseI e1 w.vamm? := base_congr hB hpos' (by rw [show e1.cfg = w.engine.cfg from hcfg]; exact hB.2.2.2.1)
    have hrp : readPosition e1 tmp.vamm tmp.trader = readPosition w.engine v s := by
      rw [tv, tt]; exact WorldInv.rp_same v s hpos'
    have hgd : gdir e1 tmp.vamm tmp.trader tmp.side = gdir w.engine v s side := by
      unfold gdir; rw [hrp, ts]
    have hk := EngineMoney.getPosition_key env w.engine v s side
    rcases hcase with ⟨N, hm, hdir⟩ | ⟨N, hm, _, hdir, pn, u, hpnl, hgt⟩ | ⟨hm, _, hdir⟩
    · refine Or.inr ⟨[], _, hm, AllCE_nil, hB1, Or.inr ⟨tmp, htmp, Or.inl ⟨N, b, ?_, ?_⟩⟩⟩
      · rw [tv, ts]
      · rcases hdir with hz | hdir
        · left
          rw [hrp, ← getPosition_size env w.engine v s side]
          exact (C19.isZero_iff _).1 hz
        · right
          rw [hgd, ts, ← getPosition_direction env]; exact hdir
    · rw [hk.1] at hm
      refine Or.inr ⟨[], _, hm, AllCE_nil, hB1, Or.inr ⟨tmp, htmp, Or.inr (Or.inl ⟨N, b, ?_, ?_, ?_⟩)⟩⟩
      · rw [tv, ts]
      · rw [hgd, ts, ← getPosition_direction env]; exact hdir
      · unfold NoFlip
        rw [hrp, tv, ts, ← getPosition_size env w.engine v s side]
        have hout := pnl_spot_pos _ _ _ _ _ _ hpnl hgt
        rw [hk.1] at hout
        exact noflip_reduce w _ side N pn v hCR hdir hout hgt
    · rw [hk.1] at hm
      have hdir' : gdir w.engine v s side ≠ sideToDirection side := by
        rw [← getPosition_direction env]; exact hdir
      rw [getPosition_direction, gdir_ne hdir', getPosition_size] at hm
      refine Or.inr ⟨[], _, hm, AllCE_nil, hB1, Or.inr ⟨tmp, htmp,
        Or.inr (Or.inr (Or.inr (Or.inl ⟨0, REPLY_REVERSE, Or.inl rfl, ?_⟩)))⟩⟩
      rw [hrp, tv]
  | closePosition v l =>
    have h' : closePosition w.q w.engine env s v l = .ok (e1, subs) := h
    obtain ⟨hpos, hcfg, hnz, tmp, htmp, tv, tt, hcase⟩ := closePosition_inv _ _ _ _ _ _ _ h'
    have hpos' : e1.positions = w.engine.positions := hpos
    have hB1 : BaseI e1 w.vamm? := base_congr hB hpos' (by rw [show e1.cfg = w.engine.cfg from hcfg]; exact hB.2.2.2.1)
    obtain ⟨pv, pt⟩ := read_found w.engine v s hnz
    have tv' : tmp.vamm = v := tv.trans pv
    have tt' : tmp.trader = s := tt.trans pt
    have hrp : readPosition e1 tmp.vamm tmp.trader = readPosition w.engine v s := by
      rw [tv', tt']; exact WorldInv.rp_same v s hpos'
    rcases hcase with ⟨_, hm⟩ | ⟨tside, y, pa, N, over, hm, hcm, hcd, hout, hover, ho, hplr⟩
    · rw [pv] at hm
      refine Or.inr ⟨[], _, hm, AllCE_nil, hB1, Or.inr ⟨tmp, htmp,
        Or.inr (Or.inr (Or.inr (Or.inl ⟨l, REPLY_CLOSE, Or.inr (Or.inl rfl), ?_⟩)))⟩⟩
      rw [hrp, tv']
    · rw [pv] at hm
      rw [ho] at hover
      refine Or.inr ⟨[], _, hm, AllCE_nil, hB1, Or.inr ⟨tmp, htmp, Or.inr (Or.inr (Or.inl ⟨N, ?_, ?_, ?_⟩))⟩⟩
      · rw [tv', tside]
      · rw [hrp, tside]
      · unfold NoFlip
        rw [hrp, tv', tside]
        exact noflip_partial w _ _ _ _ _ _ v hCR hcm hcd hplr hout hover
  | liquidate v t l =>
    have h' : liquidate w.q w.engine env s v t l = .ok (e1, subs) := h
    obtain ⟨hpos, hcfg, hnz, tmp, htmp, tv, tt, hcase⟩ := liquidate_inv _ _ _ _ _ _ _ _ h'
    have hpos' : e1.positions = w.engine.positions := hpos
    have hB1 : BaseI e1 w.vamm? := base_congr hB hpos' (by rw [show e1.cfg = w.engine.cfg from hcfg]; exact hB.2.2.2.1)
    obtain ⟨pv, pt⟩ := read_found w.engine v t hnz
    have tv' : tmp.vamm = v := tv.trans pv
    have tt' : tmp.trader = t := tt.trans pt
    have hrp : readPosition e1 tmp.vamm tmp.trader = readPosition w.engine v t := by
      rw [tv', tt']; exact WorldInv.rp_same v t hpos'
    rcases hcase with hm | ⟨ps, pl, hm, hps⟩
    · rw [pv] at hm
      refine Or.inr ⟨[], _, hm, AllCE_nil, hB1, Or.inr ⟨tmp, htmp,
        Or.inr (Or.inr (Or.inr (Or.inl ⟨l, REPLY_LIQUIDATION, Or.inr (Or.inr rfl), ?_⟩)))⟩⟩
      rw [hrp, tv']
    · refine Or.inr ⟨[], _, hm, AllCE_nil, hB1, Or.inr ⟨tmp, htmp,
        Or.inr (Or.inr (Or.inr (Or.inr ⟨ps, pl, ?_, ?_⟩)))⟩⟩
      · rw [hrp, tv']
      · rw [hrp]
        rw [EngineMoney.unwrap_ok] at hps
        obtain ⟨y, hy, hps⟩ := EngineMoney.bind_ok hps
        simp only [cmul_ok] at hy
        obtain ⟨_, rfl⟩ := hy
        simp only [cdiv_ok] at hps
        obtain ⟨hD, rfl⟩ := hps
        apply Nat.div_le_of_le_mul
        rw [Nat.mul_comm w.engine.cfg.decimals]
        exact Nat.mul_le_mul_left _ hB.2.2.2.1.2.2.1
  | payFunding v =>
    have h' : payFunding w.q w.engine v = .ok (e1, subs) := h
    obtain ⟨h1, h2⟩ := WorldInv.payFunding_frame _ _ _ _ h'
    dsimp only at h1 h2
    subst h1 h2
    exact Or.inr ⟨[], _, rfl, AllCE_nil, hB, Or.inl ⟨v, rfl⟩⟩
  | depositMargin v a =>
    have h' : depositMargin w.engine env s f v a = .ok (e1, subs) := h
    obtain ⟨⟨p', hpos, hv, ht, hsz, hd⟩, hcfg, hce⟩ := depositMargin_inv _ _ _ _ _ _ _ h'
    exact Or.inl ⟨hce, base_same_size hB hpos hcfg hv ht hsz hd⟩
  | withdrawMargin v a =>
    have h' : withdrawMargin w.q w.engine env s v a = .ok (e1, subs) := h
    obtain ⟨⟨p', hpos, hv, ht, hsz, hd⟩, hcfg, hce⟩ := withdrawMargin_inv _ _ _ _ _ _ _ h'
    exact Or.inl ⟨hce, base_same_size hB hpos hcfg hv ht hsz hd⟩

/-! ### running a flow -/

theorem vamm_ext {w w1 : World} (h : ∀ a, w1.vamm? a = w.vamm? a) : w1.vamm? = w.vamm? := funext h

/-- running the sub-messages of a well-formed flow re-establishes the invariant -/
theorem flow_run' : ∀ (fuel : Nat) (w w' : World) (subs : List SubMsg),
    execSubs fuel w ENGINE subs = .ok w' → FI w.engine w.vamm? subs → BaseI w'.engine w'.vamm? := by
  intro fuel
  induction fuel with
  | zero => intro w w' subs h; unfold execSubs at h; cases h
  | succ fuel ih =>
    intro w w' subs h hF
    cases subs with
    | nil =>
      rw [WorldInv.execSubs_nil _ _ _ _ h]
      rcases hF with ⟨_, hB⟩ | ⟨pre, last, hl, _⟩
      · exact hB
      · cases pre <;> cases hl
    | cons s rest =>
      obtain ⟨w1, ev, hx, hyes, hno⟩ := execSubs_cons_ok fuel w w' ENGINE s rest h
      rcases hF with ⟨ha, hB⟩ | ⟨pre, last, hl, hpre, hB, hP⟩
      · obtain ⟨h1, h2⟩ := AllCE_tail ha
        obtain ⟨he, hv⟩ := execMsg_coll_frame _ _ _ _ _ _ h1.2 hx
        refine ih _ _ _ (hno (WorldInv.not_reply_of_err h1.1)) (Or.inl ⟨h2, ?_⟩)
        rw [he, vamm_ext hv]
        exact hB
      · cases pre with
        | nil =>
          simp only [List.nil_append, List.cons.injEq] at hl
          obtain ⟨rfl, rfl⟩ := hl
          obtain ⟨_, e2, subs2, w3, hrep, hs2, hrest⟩ := hyes (Or.inl (PendW_always hP))
          have hF2 := reply_step _ _ _ _ _ _ _ hB hP hx hrep
          have h3 := ih { w1 with engine := e2 } w3 subs2 hs2 hF2
          rw [WorldInv.execSubs_nil _ _ _ _ hrest]
          exact h3
        | cons p pre' =>
          simp only [List.cons_append, List.cons.injEq] at hl
          obtain ⟨rfl, rfl⟩ := hl
          obtain ⟨h1, h2⟩ := AllCE_tail hpre
          obtain ⟨he, hv⟩ := execMsg_coll_frame _ _ _ _ _ _ h1.2 hx
          refine ih _ _ _ (hno (WorldInv.not_reply_of_err h1.1)) (Or.inr ⟨pre', last, rfl, h2, ?_, ?_⟩)
          · rw [he, vamm_ext hv]; exact hB
          · rw [he, vamm_ext hv]; exact hP

end Perp.Props.MirrorP
