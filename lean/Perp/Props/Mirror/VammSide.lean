/-
  G7b, part 4 — the vAMM side: what a dispatched message does to the vAMMs' reported net positions
  (swaps move the addressed vAMM's `net` by the signed base amount; nothing else moves any `net`),
  and who may swap.
-/
import Perp.Props.Mirror.Walk
import Perp.Props.Dispatch
import Perp.Props.C01
import Perp.Props.C17
import Perp.Props.VammGuards

namespace Perp.Props.MirrorP
open Perp Perp.World Perp.Engine
open Perp.Props.Dispatch

/-! ### the vAMM table -/

theorem vammE_ok (w : World) (a : Nat) (v : Vamm.V) : w.vammE a = .ok v ↔ w.vamm? a = some v := by
  unfold vammE
  cases h : w.vamm? a <;> simp

def look (l : List (Nat × Vamm.V)) (a : Nat) : Option Vamm.V :=
  match l.find? (fun p => p.1 == a) with
  | some p => some p.2
  | none => none

theorem vamm?_look (w : World) (a : Nat) : w.vamm? a = look w.vamms a := rfl

theorem look_setVamm_same (l : List (Nat × Vamm.V)) (a : Nat) (v' : Vamm.V) :
    look (l.map (fun p => if p.1 == a then (a, v') else p)) a = (look l a).map (fun _ => v') := by
  induction l with
  | nil => rfl
  | cons p l ih =>
    unfold look at ih ⊢
    rw [List.map_cons, List.find?_cons, List.find?_cons]
    by_cases hp : p.1 = a
    · simp [hp]
    · have hb : (p.1 == a) = false := by simpa using hp
      simp only [hb, Bool.false_eq_true, if_false]
      exact ih

theorem setVamm_vamm_same (w : World) (a : Nat) (v v' : Vamm.V) (h : w.vamm? a = some v) :
    (w.setVamm a v').vamm? a = some v' := by
  rw [vamm?_look] at h ⊢
  show look (w.vamms.map (fun p => if p.1 == a then (a, v') else p)) a = some v'
  rw [look_setVamm_same, h]
  rfl

theorem setVamm_vamm_none (w : World) (a b : Nat) (v' : Vamm.V) (h : w.vamm? b = none) :
    (w.setVamm a v').vamm? b = none := by
  by_cases hab : b = a
  · subst hab
    rw [vamm?_look] at h ⊢
    show look (w.vamms.map (fun p => if p.1 == b then (b, v') else p)) b = none
    rw [look_setVamm_same, h]
    rfl
  · rw [setVamm_vamm_ne _ _ _ _ hab]; exact h

/-! ### inversion of the dispatcher on vAMM messages -/

theorem execMsg_swapInput_inv (fuel : Nat) (w w' : World) (s a : Nat) (dir : Direction) (amt lim : Nat) (cgo : Bool)
    (ev : Ev) (h : execMsg fuel w s (.vammSwapInput a dir amt lim cgo) = .ok (w', ev)) :
    ∃ v v' o, w.vamm? a = some v ∧ Vamm.swapInput v w.env s dir amt lim cgo = .ok (v', o)
      ∧ w' = w.setVamm a v' ∧ ev = .swap o := by
  cases fuel with
  | zero => unfold execMsg at h; cases h
  | succ fuel =>
    unfold execMsg at h
    simp at h
    obtain ⟨v, hv, v', o, hs, rfl, rfl⟩ := h
    exact ⟨v, v', o, (vammE_ok _ _ _).1 hv, hs, rfl, rfl⟩

theorem execMsg_swapOutput_inv (fuel : Nat) (w w' : World) (s a : Nat) (dir : Direction) (amt lim : Nat)
    (ev : Ev) (h : execMsg fuel w s (.vammSwapOutput a dir amt lim) = .ok (w', ev)) :
    ∃ v v' o, w.vamm? a = some v ∧ Vamm.swapOutput v w.env s dir amt lim = .ok (v', o)
      ∧ w' = w.setVamm a v' ∧ ev = .swap o := by
  cases fuel with
  | zero => unfold execMsg at h; cases h
  | succ fuel =>
    unfold execMsg at h
    simp at h
    obtain ⟨v, hv, v', o, hs, rfl, rfl⟩ := h
    exact ⟨v, v', o, (vammE_ok _ _ _).1 hv, hs, rfl, rfl⟩

theorem execMsg_settle_inv (fuel : Nat) (w w' : World) (s a : Nat)
    (ev : Ev) (h : execMsg fuel w s (.vammSettle a) = .ok (w', ev)) :
    ∃ v v' pf, w.vamm? a = some v
      ∧ Vamm.settleFunding v w.env s (w.oracleTwap v.cfg.pricefeed v.cfg.twapInterval) = .ok (v', pf)
      ∧ w' = w.setVamm a v' ∧ ev = .settle pf a := by
  cases fuel with
  | zero => unfold execMsg at h; cases h
  | succ fuel =>
    unfold execMsg at h
    simp at h
    obtain ⟨v, hv, v', pf, hs, rfl, rfl⟩ := h
    exact ⟨v, v', pf, (vammE_ok _ _ _).1 hv, hs, rfl, rfl⟩

theorem execMsg_setOpen_inv (fuel : Nat) (w w' : World) (s a : Nat) (o : Bool)
    (ev : Ev) (h : execMsg fuel w s (.vammSetOpen a o) = .ok (w', ev)) :
    ∃ v v', w.vamm? a = some v ∧ Vamm.setOpen v w.env s o = .ok v' ∧ w' = w.setVamm a v' := by
  cases fuel with
  | zero => unfold execMsg at h; cases h
  | succ fuel =>
    unfold execMsg at h
    simp at h
    obtain ⟨v, hv, v', hs, rfl, _⟩ := h
    exact ⟨v, v', (vammE_ok _ _ _).1 hv, hs, rfl⟩

/-! ### what a swap does to `net` -/

theorem signedOutput_toInt (side : Side) (b : Nat) :
    (signedOutput side b).toInt = match side with | .buy => (b : Int) | .sell => -(b : Int) := by
  cases side
  · exact C19.toInt_newPositive b
  · exact C19.toInt_newNegative b

theorem swapInput_net (v v' : Vamm.V) (env : Env) (s : Nat) (dir : Direction) (amt lim : Nat) (cgo : Bool)
    (o : Vamm.SwapOut) (h : Vamm.swapInput v env s dir amt lim cgo = .ok (v', o)) :
    s = v.cfg.marginEngine ∧ v'.cfg = v.cfg
    ∧ ∃ b, o = ⟨true, amt, b⟩ ∧ Vamm.queryInputAmount v dir amt = .ok b
        ∧ v'.st.net.toInt = v.st.net.toInt + (signedOutput (directionToSide dir) b).toInt := by
  have hrole := VammGuards.swapInput_role _ _ _ _ _ _ _ _ h
  obtain ⟨b, hq, hu, ho, _⟩ := C17.swapInput_inv _ _ _ _ _ _ _ _ _ h
  cases dir with
  | addToAmm =>
    obtain ⟨h1, _, _, _, h5⟩ := C01.ur_add _ _ _ _ _ _ hu
    exact ⟨hrole, h1, b, ho, hq, by rw [h5]; rfl⟩
  | removeFromAmm =>
    obtain ⟨h1, _, _, _, h5⟩ := C01.ur_rem _ _ _ _ _ _ hu
    refine ⟨hrole, h1, b, ho, hq, ?_⟩
    rw [h5]
    show _ = _ + (Integer.newNegative b).toInt
    rw [C19.toInt_newNegative]
    omega

theorem swapOutput_net (v v' : Vamm.V) (env : Env) (s : Nat) (dir : Direction) (amt lim : Nat)
    (o : Vamm.SwapOut) (h : Vamm.swapOutput v env s dir amt lim = .ok (v', o)) :
    s = v.cfg.marginEngine ∧ v'.cfg = v.cfg
    ∧ ∃ q, o = ⟨false, q, amt⟩
        ∧ v'.st.net.toInt = v.st.net.toInt - (signedOutput (directionToSide dir) amt).toInt := by
  have hrole := VammGuards.swapOutput_role _ _ _ _ _ _ _ h
  obtain ⟨q, _, hu, ho, _⟩ := C17.swapOutput_inv _ _ _ _ _ _ _ _ h
  cases dir with
  | addToAmm =>
    obtain ⟨h1, _, _, _, h5⟩ := C01.ur_rem _ _ _ _ _ _ hu
    refine ⟨hrole, h1, q, ho, ?_⟩
    rw [h5]
    show _ = _ - (Integer.newPositive amt).toInt
    rw [C19.toInt_newPositive]
  | removeFromAmm =>
    obtain ⟨h1, _, _, _, h5⟩ := C01.ur_add _ _ _ _ _ _ hu
    refine ⟨hrole, h1, q, ho, ?_⟩
    rw [h5]
    show _ = _ - (Integer.newNegative amt).toInt
    rw [C19.toInt_newNegative]
    omega

/-! ### `update_config` without a margin-engine change keeps the wiring -/

theorem updateConfig_engine_keep (v v' : Vamm.V) (s : Nat) (u : Vamm.ConfigUpdate)
    (hu : u.marginEngine = none) (h : Vamm.updateConfig v s u = .ok v') :
    v'.cfg.marginEngine = v.cfg.marginEngine ∧ v'.st = v.st := by
  unfold Vamm.updateConfig at h
  split at h
  · simp at h
  · extract_lets c0 c1 c2 c3 c4 j3 j2 j1 j0 at h
    have e4 : c4.marginEngine = v.cfg.marginEngine := by
      simp only [c4, c3, c2, c1, c0, hu]
      cases u.holdingCap <;> cases u.oiCap <;> cases u.insuranceFund <;> rfl
    clear_value c4
    have p3 : ∀ c w, j3 c = .ok w → w.st = v.st ∧ w.cfg.marginEngine = c.marginEngine := by
      intro c w hw
      simp [j3] at hw
      subst hw
      exact ⟨rfl, rfl⟩
    clear_value j3
    have p2 : ∀ c w, j2 c = .ok w → w.st = v.st ∧ w.cfg.marginEngine = c.marginEngine := by
      intro c w hw
      simp only [j2] at hw
      revert hw
      cases u.pricefeed <;> cases u.twapInterval <;> intro hw <;> simp only [] at hw <;>
        (try split at hw) <;> (try simp at hw) <;> (have := p3 _ _ hw; exact this)
    clear_value j2
    have p1 : ∀ c w, j1 c = .ok w → w.st = v.st ∧ w.cfg.marginEngine = c.marginEngine := by
      intro c w hw
      simp only [j1] at hw
      split at hw <;> simp at hw
      · (have := p2 _ _ hw.2; exact this)
      · exact p2 _ _ hw
    clear_value j1
    have p0 : ∀ c w, j0 c = .ok w → w.st = v.st ∧ w.cfg.marginEngine = c.marginEngine := by
      intro c w hw
      simp only [j0] at hw
      split at hw <;> simp at hw
      · (have := p1 _ _ hw.2; exact this)
      · exact p1 _ _ hw
    clear_value j0
    split at h <;> simp at h
    · have := p0 _ _ h.2
      exact ⟨this.2.trans e4, this.1⟩
    · have := p0 _ _ h
      exact ⟨this.2.trans e4, this.1⟩

/-! ### frames -/

/-- a collateral message leaves the engine and every vAMM alone -/
theorem execMsg_coll_frame (fuel : Nat) (w w' : World) (s : Nat) (m : Msg) (ev : Ev) (hm : IsColl m)
    (h : execMsg fuel w s m = .ok (w', ev)) : w'.engine = w.engine ∧ ∀ a, w'.vamm? a = w.vamm? a := by
  refine ⟨((execMsg_engine_frame fuel).1 _ _ _ _ _ h).1, fun a => ?_⟩
  apply execMsg_vamm_frame fuel w w' s m ev a h
  · intro d x l g hh; rw [hh] at hm; exact hm
  · intro d x l hh; rw [hh] at hm; exact hm
  · intro hh; rw [hh] at hm; exact hm
  · intro o hh; rw [hh] at hm; exact hm

/-- between two worlds: no vAMM appeared, and every vAMM wired to the engine afterwards was wired
    before and reports the same net position -/
def WK (w w' : World) : Prop :=
  ∀ a, (w.vamm? a = none → w'.vamm? a = none)
    ∧ ∀ x', w'.vamm? a = some x' → x'.cfg.marginEngine = ENGINE →
        ∃ x, w.vamm? a = some x ∧ x.cfg.marginEngine = ENGINE ∧ x'.st.net = x.st.net

theorem WK.refl (w : World) : WK w w := fun _ => ⟨id, fun x' h1 h2 => ⟨x', h1, h2, rfl⟩⟩

theorem WK.trans {a b c : World} (h1 : WK a b) (h2 : WK b c) : WK a c := by
  intro v
  refine ⟨fun h => (h2 v).1 ((h1 v).1 h), fun x'' hx'' hw'' => ?_⟩
  obtain ⟨x', hx', hw', hn'⟩ := (h2 v).2 x'' hx'' hw''
  obtain ⟨x, hx, hw, hn⟩ := (h1 v).2 x' hx' hw'
  exact ⟨x, hx, hw, hn'.trans hn⟩

theorem WK_of_vamms {w w' : World} (h : ∀ a, w'.vamm? a = w.vamm? a) : WK w w' := by
  intro a
  rw [h a]
  exact ⟨id, fun x' h1 h2 => ⟨x', h1, h2, rfl⟩⟩

/-- replacing one vAMM's record by one that is not wired to the engine, or that keeps wiring and net -/
theorem WK_setVamm (w : World) (a : Nat) (v v' : Vamm.V) (hv : w.vamm? a = some v)
    (h : v'.cfg.marginEngine = ENGINE → v.cfg.marginEngine = ENGINE ∧ v'.st.net = v.st.net) :
    WK w (w.setVamm a v') := by
  intro b
  refine ⟨fun hn => setVamm_vamm_none _ _ _ _ hn, fun x' hx' hw' => ?_⟩
  by_cases hab : b = a
  · subst hab
    rw [setVamm_vamm_same _ _ _ _ hv] at hx'
    cases hx'
    exact ⟨v, hv, (h hw').1, (h hw').2⟩
  · rw [setVamm_vamm_ne _ _ _ _ hab] at hx'
    exact ⟨x', hx', hw', rfl⟩

/-- nothing dispatched by anyone but the engine moves the net position of a vAMM wired to the engine -/
theorem exec_WK (fuel : Nat) :
    (∀ w s m w' ev, s ≠ ENGINE → execMsg fuel w s m = .ok (w', ev) → WK w w')
    ∧ (∀ w c subs w', c ≠ ENGINE → execSubs fuel w c subs = .ok w' → WK w w') := by
  induction fuel with
  | zero =>
    constructor
    · intro w s m w' ev _ h; unfold execMsg at h; cases h
    · intro w c subs w' _ h; unfold execSubs at h; cases h
  | succ fuel ih =>
    constructor
    · intro w s m w' ev hs h
      cases m with
      | vammSwapInput a d x l g =>
        obtain ⟨v, v', o, hv, hsw, rfl, _⟩ := execMsg_swapInput_inv _ _ _ _ _ _ _ _ _ _ h
        obtain ⟨hr, hc, _⟩ := swapInput_net _ _ _ _ _ _ _ _ _ hsw
        refine WK_setVamm _ _ _ _ hv (fun hw => ?_)
        rw [hc, ← hr] at hw
        exact absurd hw hs
      | vammSwapOutput a d x l =>
        obtain ⟨v, v', o, hv, hsw, rfl, _⟩ := execMsg_swapOutput_inv _ _ _ _ _ _ _ _ _ h
        obtain ⟨hr, hc, _⟩ := swapOutput_net _ _ _ _ _ _ _ _ hsw
        refine WK_setVamm _ _ _ _ hv (fun hw => ?_)
        rw [hc, ← hr] at hw
        exact absurd hw hs
      | vammSettle a =>
        obtain ⟨v, v', pf, hv, hsw, rfl, _⟩ := execMsg_settle_inv _ _ _ _ _ _ h
        obtain ⟨_, _, h3, h4⟩ := C01.settle_keep _ _ _ _ _ _ hsw
        refine WK_setVamm _ _ _ _ hv (fun hw => ?_)
        rw [h4] at hw
        exact ⟨hw, h3⟩
      | vammSetOpen a o =>
        obtain ⟨v, v', hv, hsw, rfl⟩ := execMsg_setOpen_inv _ _ _ _ _ _ _ h
        obtain ⟨_, _, h3, h4⟩ := C01.setOpen_keep _ _ _ _ _ hsw
        refine WK_setVamm _ _ _ _ hv (fun hw => ?_)
        rw [h4] at hw
        exact ⟨hw, h3⟩
      | tokenTransfer to amt =>
        exact WK_of_vamms (execMsg_coll_frame _ _ _ _ (.tokenTransfer to amt) _ trivial h).2
      | tokenTransferFrom owner to amt =>
        exact WK_of_vamms (execMsg_coll_frame _ _ _ _ (.tokenTransferFrom owner to amt) _ trivial h).2
      | bankSend to amt => exact WK_of_vamms (execMsg_coll_frame _ _ _ _ (.bankSend to amt) _ trivial h).2
      | ifWithdraw amt => exact WK_of_vamms (execMsg_coll_frame _ _ _ _ (.ifWithdraw amt) _ trivial h).2
    · intro w c subs w' hc h
      cases subs with
      | nil =>
        unfold execSubs at h
        simp at h
        subst h
        exact WK.refl _
      | cons sm rest =>
        obtain ⟨w1, ev, hx, hyes, hno⟩ := execSubs_cons_ok fuel w w' c sm rest h
        by_cases hr : sm.replyOn = .always ∨ sm.replyOn = .success
        · exact absurd (hyes hr).1 hc
        · exact WK.trans (ih.1 _ _ _ _ _ hc hx) (ih.2 _ _ _ _ hc (hno hr))

end Perp.Props.MirrorP
