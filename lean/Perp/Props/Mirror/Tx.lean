/-
  G7b, part 7 — transactions: the inductive invariant, preserved by every successful transaction of
  every kind by a user account.
-/
import Perp.Props.Mirror.Run

namespace Perp.Props.MirrorP
open Perp Perp.World Perp.Engine
open Perp.Props.Dispatch
open Perp.Props.EngineGuards (ConfigOK)

/-- no vAMM is deployed at address 0 — the engine's "no record" sentinel (`get_position` treats a
    stored record whose vamm field is 0 as absent) -/
def NoZeroVamm (w : World) : Prop := w.vamm? 0 = none

/-- **the inductive invariant**: for every vAMM wired to the engine the signed sum of the stored sizes
    equals the reported net position; stored signs agree with stored directions; no two records share a
    (vamm, trader) key; the engine's ratios are within bounds (so a partial liquidation never exceeds the
    position); no vAMM lives at the sentinel address 0; nothing is in flight -/
def Inv (w : World) : Prop := BaseI w.engine w.vamm? ∧ WorldInv.NoResidue w.engine

def NotRewireP (tx : Tx) : Prop :=
  match tx with
  | .vammConfig _ u => u.marginEngine = none
  | _ => True

theorem vamm?_of_vamms {w w1 : World} (h : w1.vamms = w.vamms) : w1.vamm? = w.vamm? := by
  funext a
  unfold vamm?
  rw [h]

theorem base_WK {w w' : World} (hB : BaseI w.engine w.vamm?) (he : w'.engine = w.engine) (hk : WK w w') :
    BaseI w'.engine w'.vamm? := by
  obtain ⟨hM, hS, hK, hC, hZ⟩ := hB
  rw [he]
  refine ⟨?_, hS, hK, hC, (hk 0).1 hZ⟩
  intro a x' hx' hw'
  obtain ⟨x, hx, hw, hn⟩ := (hk a).2 x' hx' hw'
  rw [hn]
  exact hM a x hx hw

/-- a transaction that is not an engine call, by anyone but the engine, never moves the net position
    of a vAMM wired to the engine (and never wires one that was not) -/
theorem applyTx_WK (w w' : World) (env : Env) (s : Nat) (f : Funds) (tx : Tx)
    (hne : ∀ m, tx ≠ .engine m) (hs : s ≠ ENGINE) (hnr : NotRewireP tx)
    (h : applyTx w env s f tx = .ok w') : WK w w' := by
  have hm : ∀ (w0 : World) m, (execMsg FUEL w0 s m).map (·.1) = .ok w' → WK w0 w' := by
    intro w0 m h'
    rw [exmap_ok] at h'
    obtain ⟨⟨w1, ev⟩, h', rfl⟩ := h'
    exact (exec_WK FUEL).1 _ _ _ _ _ hs h'
  have hsub : ∀ (w0 : World) c subs, c ≠ ENGINE → execSubs FUEL w0 c subs = .ok w' → WK w0 w' := by
    intro w0 c subs hc h'
    exact (exec_WK FUEL).2 _ _ _ _ hc h'
  have hsame : ∀ w0 : World, w0.vamms = w.vamms → WK w w0 := by
    intro w0 h0
    apply WK_of_vamms
    intro a
    rw [vamm?_of_vamms h0]
  have hleft : ∀ w0 : World, WK w0 w' → w0.vamms = w.vamms → WK w w' := by
    intro w0 hk h0
    exact WK.trans (hsame w0 h0) hk
  unfold applyTx at h
  cases tx <;> dsimp only at h
  case engine m => exact absurd rfl (hne m)
  case vammSwapInput v dir amt lim cgo => exact hleft _ (hm _ _ h) rfl
  case vammSwapOutput v dir amt lim => exact hleft _ (hm _ _ h) rfl
  case vammSettle v => exact hleft _ (hm _ _ h) rfl
  case vammSetOpen v o => exact hleft _ (hm _ _ h) rfl
  case vammConfig v u =>
    simp at h
    obtain ⟨x, hx, x', hx', rfl⟩ := h
    obtain ⟨k1, k2⟩ := updateConfig_engine_keep _ _ _ _ hnr hx'
    refine hleft _ (WK_setVamm _ _ _ _ ((vammE_ok _ _ _).1 hx) (fun hw => ?_)) rfl
    rw [k1] at hw
    exact ⟨hw, by rw [k2]⟩
  case vammOwner v n =>
    simp at h
    obtain ⟨x, hx, x', hx', rfl⟩ := h
    obtain ⟨_, rfl⟩ := VammGuards.updateOwner_inv _ _ _ _ hx'
    exact hleft _ (WK_setVamm _ _ _ _ ((vammE_ok _ _ _).1 hx) (fun hw => ⟨hw, rfl⟩)) rfl
  case ifAdd v =>
    simp at h
    obtain ⟨_, _, rfl⟩ := h
    exact hsame _ rfl
  case ifRemove v =>
    simp at h
    obtain ⟨_, _, rfl⟩ := h
    exact hsame _ rfl
  case ifShutdown =>
    split at h
    · cases h
    · split at h
      · cases h
      · exact hleft _ (hsub _ _ _ (by decide) h) rfl
  case ifWithdraw amt => exact hleft _ (hm _ _ h) rfl
  case ifOwner n =>
    simp at h
    obtain ⟨_, _, rfl⟩ := h
    exact hsame _ rfl
  case fpAdd tok =>
    simp at h
    obtain ⟨_, _, rfl⟩ := h
    exact hsame _ rfl
  case fpRemove tok =>
    simp at h
    obtain ⟨_, _, rfl⟩ := h
    exact hsame _ rfl
  case fpSend tok amt to =>
    repeat' split at h
    all_goals first | exact hleft _ (hsub _ _ _ (by decide) h) rfl | cases h
  case fpOwner n =>
    simp at h
    obtain ⟨_, _, rfl⟩ := h
    exact hsame _ rfl
  case oracle price ts =>
    split at h
    · injection h with h; subst h; exact hsame _ rfl
    · simp at h
      obtain ⟨_, _, rfl⟩ := h
      exact hsame _ rfl
  case feedOwner n =>
    split at h
    · split at h
      · cases h
      · injection h with h; subst h; exact hsame _ rfl
    · simp at h
      obtain ⟨_, _, rfl⟩ := h
      exact hsame _ rfl
  case tokenApprove amt =>
    repeat' split at h
    all_goals first | (injection h with h; subst h; exact hsame _ rfl) | cases h
  case tokenDecrease amt =>
    repeat' split at h
    all_goals first | (injection h with h; subst h; exact hsame _ rfl) | cases h
  case tokenTransfer to amt =>
    split at h
    · cases h
    · exact hleft _ (hm _ _ h) rfl
  case bankSend to amt =>
    split at h
    · cases h
    · exact hleft _ (hm _ _ h) rfl

/-- **preservation**: every successful transaction by an account other than the engine's own address,
    which does not re-wire a vAMM, from a state with regular curves, preserves the invariant -/
theorem inv_step (w w' : World) (env : Env) (s : Nat) (f : Funds) (tx : Tx)
    (hI : Inv w) (hs : s ≠ ENGINE) (hnr : NotRewireP tx) (hCR : CurveRegF w.vamm?)
    (h : applyTx w env s f tx = .ok w') : Inv w' := by
  refine ⟨?_, WorldInv.noResidue_step w w' env s f tx hI.2 h⟩
  by_cases hne : ∃ m, tx = .engine m
  · obtain ⟨m, rfl⟩ := hne
    obtain ⟨w1, e1, subs, a1, _, a3, _, _, _, hex, hrun⟩ := WorldInv.applyTx_engine_inv w w' env s f m h
    have hv : w1.vamm? = w.vamm? := vamm?_of_vamms a3
    have hB1 : BaseI w1.engine w1.vamm? := by rw [a1, hv]; exact hI.1
    have hF := exec_step w1 env s f m e1 subs hB1 (by rw [hv]; exact hCR) hex
    exact flow_run' FUEL { w1 with engine := e1 } w' subs hrun hF
  · have he := WorldInv.applyTx_nonengine_frame w w' env s f tx (fun m hm => hne ⟨m, hm⟩) h
    exact base_WK hI.1 he (applyTx_WK w w' env s f tx (fun m hm => hne ⟨m, hm⟩) hs hnr h)

/-- a failed transaction changes nothing the invariant reads -/
theorem inv_failed (w : World) (env : Env) (hI : Inv w) : Inv { w with env := env, log := [] } := hI

theorem inv_run (w : World) (env : Env) (s : Nat) (f : Funds) (tx : Tx)
    (hI : Inv w) (hs : s ≠ ENGINE) (hnr : NotRewireP tx) (hCR : CurveRegF w.vamm?) :
    Inv (step w env s f tx) := by
  unfold step
  split
  · rename_i w' h
    exact inv_step w w' env s f tx hI hs hnr hCR h
  · exact inv_failed w env hI

end Perp.Props.MirrorP
