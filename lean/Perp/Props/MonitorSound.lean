/-
  The monitors of `Perp/Spec/Monitor.lean` decide the hypotheses of the capstone
  (`Perp/Props/Capstone.lean`): for EVERY world (no side hypothesis)

    deployedFails w = []          ↔ Capstone.Deployed w
    allInvFails w = []            ↔ Capstone.AllInv w
    presFails w env s tx = []     ↔ Capstone.PresOK w env s tx
    sideFails w env s f tx = []   ↔ Capstone.SideOK w env s f tx

  with one `…B_iff` lemma per component.  Both directions hold for every component: a non-empty verdict
  means the `Prop` is false.
-/
import Perp.Spec.Monitor
import Perp.Props.Capstone

namespace Perp.Props.MonitorSound
open Perp Perp.World Perp.Engine Perp.Spec Perp.Props.ModelStep

/-! ### generic -/

theorem tagIf_nil (c : Bool) (t : String) : Monitor.tagIf c t = [] ↔ c = true := by
  unfold Monitor.tagIf
  cases c <;> simp

/-- the lookup answers a stored pair -/
theorem vamm?_mem {w : World} {a : Nat} {x : Vamm.V} (h : w.vamm? a = some x) : (a, x) ∈ w.vamms :=
  Mirror.Cex.vamm?_mem w a x h

/-- `allVamm` is the quantifier over the lookup -/
theorem allVamm_iff (w : World) (f : Nat → Vamm.V → Bool) :
    Monitor.allVamm w f = true ↔ ∀ a x, w.vamm? a = some x → f a x = true := by
  unfold Monitor.allVamm
  rw [List.all_eq_true]
  constructor
  · intro h a x hx
    have h1 := h (a, x) (vamm?_mem hx)
    simp only [hx] at h1
    exact h1
  · intro h p hp
    cases hx : w.vamm? p.1 with
    | none => rfl
    | some x => exact h p.1 x hx

/-! ### shared pieces -/

theorem noResidueB_iff (e : E) : Monitor.noResidueB e = true ↔ WorldInv.NoResidue e := by
  unfold Monitor.noResidueB WorldInv.NoResidue
  simp only [Bool.and_eq_true, decide_eq_true_eq, and_assoc]

theorem balNodupB_iff (w : World) : Monitor.balNodupB w = true ↔ (w.ledger.bal.map (·.1)).Nodup := by
  unfold Monitor.balNodupB
  simp only [decide_eq_true_eq]

theorem allowNodupB_iff (w : World) : Monitor.allowNodupB w = true ↔ (w.ledger.allow.map (·.1)).Nodup := by
  unfold Monitor.allowNodupB
  simp only [decide_eq_true_eq]

theorem engineConfigB_iff (c : Engine.Config) : Monitor.engineConfigB c = true ↔ EngineGuards.ConfigOK c := by
  unfold Monitor.engineConfigB EngineGuards.ConfigOK
  simp only [Bool.and_eq_true, decide_eq_true_eq, and_assoc]

theorem vammConfigB_iff (c : Vamm.Config) : Monitor.vammConfigB c = true ↔ VammGuards.ConfigOK c := by
  unfold Monitor.vammConfigB VammGuards.ConfigOK
  simp only [Bool.and_eq_true, decide_eq_true_eq, and_assoc]

theorem vammConfigsB_iff (w : World) : Monitor.vammConfigsB w = true ↔ SatC.VAll VammGuards.ConfigOK w := by
  unfold Monitor.vammConfigsB SatC.VAll
  rw [List.all_eq_true]
  constructor
  · intro h p hp; exact (vammConfigB_iff _).1 (h p hp)
  · intro h p hp; exact (vammConfigB_iff _).2 (h p hp)

/-! ### the eleven invariants -/

theorem wfB_iff (w : World) : Monitor.wfB w = true ↔ WF w := by
  unfold Monitor.wfB
  simp only [Bool.and_eq_true, noResidueB_iff, balNodupB_iff, allowNodupB_iff]
  constructor
  · rintro ⟨⟨h1, h2⟩, h3⟩; exact ⟨h1, h2, h3⟩
  · intro h; exact ⟨⟨h.noResidue, h.balNodup⟩, h.allowNodup⟩

theorem vammKeysB_iff (w : World) : Monitor.vammKeysB w = true ↔ SatA.VammKeysNodup w := by
  unfold Monitor.vammKeysB SatA.VammKeysNodup
  simp only [decide_eq_true_eq]

theorem sumSizes_eq (e : E) (v : Nat) : Monitor.sumSizes e v = Mirror.sumSizes e v := rfl

theorem mirrorSumB_iff (w : World) : Monitor.mirrorSumB w = true ↔ Mirror.MirrorOK w := by
  unfold Monitor.mirrorSumB Mirror.MirrorOK
  rw [allVamm_iff]
  constructor
  · intro h a x hx; exact of_decide_eq_true (h a x hx)
  · intro h a x hx; exact decide_eq_true (h a x hx)

theorem signDirB_iff (e : E) : Monitor.signDirB e = true ↔ Mirror.SignDir e := by
  unfold Monitor.signDirB Mirror.SignDir
  rw [List.all_eq_true]
  simp only [Bool.and_eq_true, decide_eq_true_eq]

theorem keyClash_iff (p : Position) (l : List Position) :
    Monitor.keyClash p l = true ↔ ∃ q ∈ l, p.vamm = q.vamm ∧ p.trader = q.trader := by
  unfold Monitor.keyClash
  rw [List.any_eq_true]
  simp only [Bool.and_eq_true, beq_iff_eq]

theorem keysNDB_iff (l : List Position) : Monitor.keysNDB l = true ↔ MirrorP.KeysND l := by
  induction l with
  | nil =>
    unfold Monitor.keysNDB MirrorP.KeysND
    exact ⟨fun _ => List.Pairwise.nil, fun _ => rfl⟩
  | cons p l ih =>
    unfold MirrorP.KeysND at ih ⊢
    unfold Monitor.keysNDB
    rw [List.pairwise_cons, ← ih, Bool.and_eq_true]
    constructor
    · rintro ⟨h1, h2⟩
      refine ⟨?_, h2⟩
      intro q hq hk
      have hc : Monitor.keyClash p l = true := (keyClash_iff p l).2 ⟨q, hq, hk⟩
      rw [hc] at h1
      cases h1
    · rintro ⟨h1, h2⟩
      refine ⟨?_, h2⟩
      cases hc : Monitor.keyClash p l with
      | false => rfl
      | true =>
        obtain ⟨q, hq, hk⟩ := (keyClash_iff p l).1 hc
        exact absurd hk (h1 q hq)

theorem noZeroVammB_iff (w : World) : Monitor.noZeroVammB w = true ↔ Mirror.NoZeroVamm w := by
  unfold Monitor.noZeroVammB Mirror.NoZeroVamm
  cases w.vamm? 0 <;> simp

theorem mirrorB_iff (w : World) : Monitor.mirrorB w = true ↔ Mirror.Inv w := by
  unfold Monitor.mirrorB Mirror.Inv
  simp only [Bool.and_eq_true, mirrorSumB_iff, signDirB_iff, keysNDB_iff, engineConfigB_iff, noZeroVammB_iff,
    noResidueB_iff, and_assoc]

theorem tradersB_iff (w : World) : Monitor.tradersB w = true ↔ SatA.TradersAreUsers w := by
  unfold Monitor.tradersB SatA.TradersAreUsers
  rw [List.all_eq_true]
  simp only [Bool.and_eq_true, bne_iff_ne, ne_eq, and_assoc]

theorem snapB_iff (w : World) : Monitor.snapB w = true ↔ SatA.SnapInvW w := by
  unfold Monitor.snapB SatA.SnapInvW
  rw [List.all_eq_true]

theorem marginRepB_iff (e : E) : Monitor.marginRepB e = true ↔ SatC.MarginRep e := by
  unfold Monitor.marginRepB SatC.MarginRep
  rw [List.all_eq_true]
  simp only [decide_eq_true_eq]

theorem configB_iff (w : World) : Monitor.configB w = true ↔ SatC.AllConfigOK w := by
  unfold Monitor.configB SatC.AllConfigOK
  simp only [Bool.and_eq_true, engineConfigB_iff, vammConfigsB_iff]

/-- a lookup under a key whose trader is not 0 answers the default record exactly when no stored record
    has that key (a found record carries the key's trader, the default record carries trader 0) -/
theorem readPosition_default_iff (e : E) (v t : Nat) (ht : t ≠ 0) :
    readPosition e v t = Position.default ↔ ∀ p ∈ e.positions, ¬ (p.vamm = v ∧ p.trader = t) := by
  unfold readPosition
  constructor
  · intro h p hp hk
    split at h
    · rename_i q hq
      have h1 := List.find?_some hq
      simp only [Bool.and_eq_true, beq_iff_eq] at h1
      have h2 : q.trader = 0 := by rw [h]; rfl
      exact ht (h1.2.symm.trans h2)
    · rename_i hn
      rw [List.find?_eq_none] at hn
      have h1 := hn p hp
      simp only [Bool.and_eq_true, beq_iff_eq] at h1
      exact h1 hk
  · intro h
    have hn : e.positions.find? (fun p => p.vamm == v && p.trader == t) = none := by
      rw [List.find?_eq_none]
      intro p hp
      simp only [Bool.and_eq_true, beq_iff_eq]
      exact h p hp
    rw [hn]

theorem noContractB_iff (w : World) : Monitor.noContractB w = true ↔ SatD.NoContractPositions w := by
  unfold Monitor.noContractB SatD.NoContractPositions
  rw [List.all_eq_true]
  simp only [Bool.and_eq_true, bne_iff_ne, ne_eq]
  constructor
  · intro h v
    refine ⟨(readPosition_default_iff _ _ _ (by decide)).2 ?_, (readPosition_default_iff _ _ _ (by decide)).2 ?_⟩
    · intro p hp hk; exact (h p hp).1 hk.2
    · intro p hp hk; exact (h p hp).2 hk.2
  · intro h p hp
    have h1 := (readPosition_default_iff _ _ _ (by decide)).1 (h p.vamm).1 p hp
    have h2 := (readPosition_default_iff _ _ _ (by decide)).1 (h p.vamm).2 p hp
    exact ⟨fun e => h1 ⟨rfl, e⟩, fun e => h2 ⟨rfl, e⟩⟩

theorem total_eq (g : Ledger) : Monitor.total g = Dispatch.total g := rfl

theorem totalB_iff (w : World) : Monitor.totalB w = true ↔ SatD.TotalBounded w := by
  unfold Monitor.totalB SatD.TotalBounded
  exact ⟨of_decide_eq_true, decide_eq_true⟩

theorem registryB_iff (s : Insurance.S) : Monitor.registryB s = true ↔ SatF14.RegInv s := by
  unfold Monitor.registryB
  simp only [Bool.and_eq_true, Bool.or_eq_true, decide_eq_true_eq, List.isEmpty_iff]
  constructor
  · rintro ⟨⟨h1, h2⟩, h3⟩
    exact ⟨h1, h2, fun hne => h3.resolve_left hne⟩
  · intro h
    refine ⟨⟨h.nodup, h.cap⟩, ?_⟩
    by_cases he : s.vamms = []
    · exact Or.inl he
    · exact Or.inr (h.stored he)

theorem bufferB_iff (w : World) : Monitor.bufferB w = true ↔ SatC11.BufferHalf w := by
  unfold Monitor.bufferB SatC11.BufferHalf
  rw [allVamm_iff]
  simp only [decide_eq_true_eq]

/-! ### the list-level components of `Deployed` -/

theorem noPositionsB_iff (w : World) : Monitor.noPositionsB w = true ↔ w.engine.positions = [] := by
  unfold Monitor.noPositionsB
  exact List.isEmpty_iff

theorem noZeroVammListB_iff (w : World) : Monitor.noZeroVammListB w = true ↔ ∀ p ∈ w.vamms, p.1 ≠ 0 := by
  unfold Monitor.noZeroVammListB
  rw [List.all_eq_true]
  simp only [bne_iff_ne, ne_eq]

theorem flatB_iff (w : World) : Monitor.flatB w = true ↔ ∀ p ∈ w.vamms, p.2.st.net.toInt = 0 := by
  unfold Monitor.flatB
  rw [List.all_eq_true]
  simp only [decide_eq_true_eq]

theorem bufferListB_iff (w : World) :
    Monitor.bufferListB w = true ↔ ∀ p ∈ w.vamms, p.2.cfg.fundingBuffer = p.2.cfg.fundingPeriod / 2 := by
  unfold Monitor.bufferListB
  rw [List.all_eq_true]
  simp only [decide_eq_true_eq]

/-! ### the per-step side conditions -/

theorem userB_iff (w : World) (s : Nat) : Monitor.userB w s = true ↔ UserSender w s := by
  unfold Monitor.userB UserSender
  simp only [Bool.and_eq_true, allVamm_iff, bne_iff_ne, ne_eq, and_assoc]

theorem notRewireB_iff (tx : Tx) : Monitor.notRewireB tx = true ↔ Mirror.NotRewire tx := by
  cases tx <;> simp [Monitor.notRewireB, Mirror.NotRewire, Option.isNone_iff_eq_none]

theorem curveB_iff (w : World) : Monitor.curveB w = true ↔ Mirror.CurveRegular w := by
  unfold Monitor.curveB Mirror.CurveRegular
  rw [allVamm_iff]
  simp only [Bool.and_eq_true, decide_eq_true_eq, and_assoc]

theorem clockB_iff (w : World) (env : Env) : Monitor.clockB w env = true ↔ SatA.ClockMono w env := by
  unfold Monitor.clockB SatA.ClockMono
  simp only [Bool.and_eq_true, decide_eq_true_eq]

theorem wiredB_iff (w : World) : Monitor.wiredB w = true ↔ SatA.WiredPools w := by
  unfold Monitor.wiredB
  simp only [Bool.and_eq_true, beq_iff_eq]
  constructor
  · rintro ⟨⟨h1, h2⟩, h3⟩; exact ⟨h1, h2, h3⟩
  · intro h; exact ⟨⟨h.ifd, h.fp⟩, h.ife⟩

theorem nonZeroB_iff (s : Nat) : Monitor.nonZeroB s = true ↔ SatC.NonZeroSender s := by
  unfold Monitor.nonZeroB SatC.NonZeroSender
  simp only [bne_iff_ne, ne_eq]

/-! ### the four monitors -/

theorem deployed_iff (w : World) : Monitor.deployedFails w = [] ↔ Capstone.Deployed w := by
  unfold Monitor.deployedFails
  simp only [List.append_eq_nil_iff, tagIf_nil, noPositionsB_iff, noResidueB_iff, engineConfigB_iff, vammConfigsB_iff,
    vammKeysB_iff, noZeroVammListB_iff, flatB_iff, snapB_iff, bufferListB_iff, registryB_iff, balNodupB_iff,
    allowNodupB_iff, totalB_iff, and_assoc]
  constructor
  · rintro ⟨h1, h2, h3, h4, h5, h6, h7, h8, h9, h10, h11, h12, h13⟩
    exact ⟨h1, h2, ⟨h3, h4⟩, h5, h6, h7, h8, h9, h10, h11, h12, h13⟩
  · intro h
    exact ⟨h.noPositions, h.noResidue, h.config.1, h.config.2, h.vammKeys, h.noZeroVamm, h.flat, h.snaps, h.buffer,
      h.registry, h.balNodup, h.allowNodup, h.total⟩

theorem allInv_iff (w : World) : Monitor.allInvFails w = [] ↔ Capstone.AllInv w := by
  unfold Monitor.allInvFails
  simp only [List.append_eq_nil_iff, tagIf_nil, noResidueB_iff, balNodupB_iff, allowNodupB_iff, vammKeysB_iff,
    mirrorSumB_iff, signDirB_iff, keysNDB_iff, engineConfigB_iff, noZeroVammB_iff, tradersB_iff, snapB_iff,
    marginRepB_iff, vammConfigsB_iff, noContractB_iff, totalB_iff, registryB_iff, bufferB_iff, and_assoc]
  constructor
  · rintro ⟨h1, h2, h3, h4, h5, h6, h7, h8, h9, h10, h11, h12, h13, h14, h15, h16, h17, h18, h19⟩
    exact ⟨⟨h1, h2, h3⟩, h4, ⟨⟨h5, h6, h7, h8, h9⟩, h10⟩, h11, h12, h13, ⟨h14, h15⟩, h16, h17, h18, h19⟩
  · intro h
    exact ⟨h.wf.noResidue, h.wf.balNodup, h.wf.allowNodup, h.vammKeys, h.mirror.1.1, h.mirror.1.2.1, h.mirror.1.2.2.1,
      h.mirror.1.2.2.2.1, h.mirror.1.2.2.2.2, h.mirror.2, h.traders, h.snap, h.marginRep, h.config.1, h.config.2,
      h.noContract, h.total, h.registry, h.buffer⟩

theorem pres_iff (w : World) (env : Env) (s : Nat) (tx : Tx) :
    Monitor.presFails w env s tx = [] ↔ Capstone.PresOK w env s tx := by
  unfold Monitor.presFails
  simp only [List.append_eq_nil_iff, tagIf_nil, userB_iff, notRewireB_iff, curveB_iff, clockB_iff, and_assoc]
  constructor
  · rintro ⟨h1, h2, h3, h4⟩; exact ⟨h1, h2, h3, h4⟩
  · intro h; exact ⟨h.user, h.notRewire, h.curve, h.clock⟩

theorem side_iff (w : World) (env : Env) (s : Nat) (f : Funds) (tx : Tx) :
    Monitor.sideFails w env s f tx = [] ↔ Capstone.SideOK w env s f tx := by
  unfold Monitor.sideFails
  simp only [List.append_eq_nil_iff, pres_iff, tagIf_nil, wiredB_iff, nonZeroB_iff, and_assoc]
  constructor
  · rintro ⟨h1, h2, h3⟩; exact ⟨h1, h2, h3⟩
  · intro h; exact ⟨h.toPresOK, h.wired, h.nonZero⟩

/-! ### the Boolean bundles agree with the tag lists -/

theorem allInvFails_wf (w : World) (h : Monitor.allInvFails w = []) : Monitor.wfB w = true :=
  (wfB_iff w).2 ((allInv_iff w).1 h).wf

theorem allInvFails_mirror (w : World) (h : Monitor.allInvFails w = []) : Monitor.mirrorB w = true :=
  (mirrorB_iff w).2 ((allInv_iff w).1 h).mirror

theorem allInvFails_config (w : World) (h : Monitor.allInvFails w = []) : Monitor.configB w = true :=
  (configB_iff w).2 ((allInv_iff w).1 h).config

/-! ### evaluation on concrete worlds -/

section Examples
open Perp.Props.SatEWitness (a0 a1 a2 D)

/-- the witness deployment `Capstone.Witness.a0_deployed` (`SatEWitness.a0`), by evaluation -/
example : Monitor.deployedFails a0 = [] := by decide +kernel

example : Monitor.allInvFails a0 = [] := by decide +kernel

/-- … and `Deployed a0` back from the monitor -/
example : Capstone.Deployed a0 := (deployed_iff a0).1 (by decide +kernel)

/-- the first transaction of the witness history satisfies the side conditions, by evaluation -/
example : Monitor.sideFails a0 ⟨2, 1000⟩ 100 ⟨0, false⟩ Capstone.Witness.open1 = [] := by decide +kernel

/-- the engine as sender is flagged, as is address 0 -/
example : Monitor.sideFails a0 ⟨2, 1000⟩ ENGINE ⟨0, false⟩ Capstone.Witness.open1 = ["user"] := by decide +kernel
example : Monitor.sideFails a0 ⟨2, 1000⟩ 0 ⟨0, false⟩ Capstone.Witness.open1 = ["nonZero"] := by decide +kernel
/-- a clock running backwards is flagged -/
example : Monitor.sideFails a0 ⟨0, 0⟩ 100 ⟨0, false⟩ Capstone.Witness.open1 = ["clock"] := by decide +kernel

set_option maxRecDepth 100000 in
/-- `a1` (after one OpenPosition) is NOT a deployment: a position exists, the vAMM is no longer flat —
    but it satisfies every invariant -/
example : Monitor.deployedFails a1 = ["noPositions", "flat"] := by decide +kernel

set_option maxRecDepth 100000 in
example : Monitor.allInvFails a1 = [] := by decide +kernel

set_option maxRecDepth 100000 in
example : ¬ Capstone.Deployed a1 := fun h => by
  have h1 := (deployed_iff a1).2 h
  have h2 : Monitor.deployedFails a1 = ["noPositions", "flat"] := by decide +kernel
  rw [h2] at h1
  cases h1

/-- a world with an in-flight record and a duplicated ledger account: neither deployed nor invariant -/
def bad : World :=
  { a0 with engine := { a0.engine with tmpLiq := some 7 },
            ledger := { a0.ledger with bal := (100, 1) :: (100, 2) :: a0.ledger.bal } }

example : Monitor.deployedFails bad = ["noResidue", "balNodup"] := by decide +kernel
example : Monitor.allInvFails bad = ["wf:noResidue", "wf:balNodup", "mirror:noResidue"] := by decide +kernel

end Examples

end Perp.Props.MonitorSound
