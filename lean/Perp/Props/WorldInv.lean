/-
  G6 — world-level invariants by induction over the dispatcher: no in-flight residue (C08), one
  account's transaction never alters another trader's position (C10), and the guard corollaries
  that lift handler-level rejections to whole transactions (C05, C14, C16).  Statements were fixed before the proofs were written.
  You may import and use Perp.Props.Dispatch (G3), Perp.Props.EngineGuards (G2), Perp.Props.EngineMoney (G4).
-/
import Perp.Model.World
import Perp.Lemmas.Basic
import Perp.Props.Dispatch
import Perp.Props.EngineGuards
import Perp.Props.EngineMoney

namespace Perp.Props.WorldInv
open Perp Perp.World Perp.Engine
open Perp.Props.Dispatch Perp.Props.EngineMoney
open Perp.Props.EngineGuards (Post openPosition_msgs closePosition_msgs transferFees_spec)

/-- no in-flight swap, sent-funds or liquidator record -/
def NoResidue (e : E) : Prop := e.tmpSwap = none ∧ e.sentFunds = none ∧ e.tmpLiq = none

theorem execSubs_nil (fuel : Nat) (w w' : World) (c : Nat) (h : execSubs fuel w c [] = .ok w') : w' = w := by
  cases fuel with
  | zero => unfold execSubs at h; cases h
  | succ fuel => unfold execSubs at h; simp at h; exact h.symm

/-- generic: a property of the engine's state that every successful `reply` preserves is preserved
    by running any list of the engine's sub-messages (sub-calls themselves never write engine state) -/
theorem execSubs_engine_invariant (P : E → Prop)
    (hreply : ∀ (q : Q) (e e' : E) (env : Env) (id : Nat) (ev : Ev) (subs : List SubMsg),
        P e → replyOk q e env id ev = .ok (e', subs) → P e') :
    ∀ (fuel : Nat) (w w' : World) (subs : List SubMsg),
      execSubs fuel w ENGINE subs = .ok w' → P w.engine → P w'.engine := by
  intro fuel
  induction fuel with
  | zero => intro w w' subs h; unfold execSubs at h; cases h
  | succ fuel ih =>
    intro w w' subs h hP
    cases subs with
    | nil => rw [execSubs_nil _ _ _ _ h]; exact hP
    | cons s rest =>
      obtain ⟨w1, ev, hx, hyes, hno⟩ := execSubs_cons_ok fuel w w' ENGINE s rest h
      have hf := ((execMsg_engine_frame fuel).1 _ _ _ _ _ hx).1
      by_cases hr : s.replyOn = .always ∨ s.replyOn = .success
      · obtain ⟨_, e2, subs2, w3, hrep, hs2, hrest⟩ := hyes hr
        have h2 : P e2 := hreply _ _ _ _ _ _ _ (hf ▸ hP) hrep
        have h3 := ih _ _ _ hs2 h2
        exact ih _ _ _ hrest h3
      · exact ih _ _ _ (hno hr) (hf ▸ hP)

theorem execMsg_bankSend_vamms (fuel : Nat) (w w' : World) (s to amt : Nat) (ev : Ev)
    (h : execMsg fuel w s (.bankSend to amt) = .ok (w', ev)) : w'.vamms = w.vamms := by
  cases fuel with
  | zero => unfold execMsg at h; cases h
  | succ fuel =>
    unfold execMsg at h
    simp at h
    obtain ⟨g, hg, rfl, _⟩ := h
    rfl

/-- a successful engine transaction is a successful `execute` followed by a successful run of its sub-messages -/
theorem applyTx_engine_inv (w w' : World) (env : Env) (s : Nat) (f : Funds) (m : ExecMsg)
    (h : applyTx w env s f (.engine m) = .ok w') :
    ∃ (w1 : World) (e1 : E) (subs : List SubMsg), w1.engine = w.engine ∧ w1.env = env ∧ w1.vamms = w.vamms ∧ w1.ifund = w.ifund
      ∧ w1.feePool = w.feePool ∧ w1.feed = w.feed
      ∧ execute w1.q w1.engine env s f m = .ok (e1, subs)
      ∧ execSubs FUEL { w1 with engine := e1 } ENGINE subs = .ok w' := by
  unfold applyTx at h
  dsimp only at h
  split at h
  · simp at h
    obtain ⟨w1, hg, e', subs, hex, h⟩ := h
    obtain ⟨⟨w1', ev⟩, hg', rfl⟩ := (exmap_ok _ _ _).1 hg
    obtain ⟨a1, a2, a3, a4, a5⟩ := (execMsg_engine_frame FUEL).1 _ _ _ _ _ hg'
    have a6 := execMsg_bankSend_vamms _ _ _ _ _ _ _ hg'
    exact ⟨w1', e', subs, a1, a2, a6, a3, a4, a5, hex, h⟩
  · simp at h
    obtain ⟨e', subs, hex, h⟩ := h
    exact ⟨{ w with env := env, log := [] }, e', subs, rfl, rfl, rfl, rfl, rfl, rfl, hex, h⟩

/-- transactions that are not engine calls never write the engine's state -/
theorem applyTx_nonengine_frame (w w' : World) (env : Env) (s : Nat) (f : Funds) (tx : Tx)
    (hne : ∀ m, tx ≠ .engine m) (h : applyTx w env s f tx = .ok w') : w'.engine = w.engine := by
  have hm : ∀ (w0 : World) m,
      (execMsg FUEL w0 s m).map (·.1) = .ok w' → w0.engine = w.engine → w'.engine = w.engine := by
    intro w0 m h' hl
    rw [exmap_ok] at h'
    obtain ⟨⟨w1, ev⟩, h', rfl⟩ := h'
    exact (((execMsg_engine_frame FUEL).1 _ _ _ _ _ h').1).trans hl
  have hs : ∀ (w0 : World) c subs, c ≠ ENGINE →
      execSubs FUEL w0 c subs = .ok w' → w0.engine = w.engine → w'.engine = w.engine := by
    intro w0 c subs hc h' hl
    exact (((execMsg_engine_frame FUEL).2 _ _ _ _ hc h').1).trans hl
  unfold applyTx at h
  cases tx <;> dsimp only at h
  case engine m => exact absurd rfl (hne m)
  case vammSwapInput v dir amt lim cgo => exact hm _ _ h rfl
  case vammSwapOutput v dir amt lim => exact hm _ _ h rfl
  case vammSettle v => exact hm _ _ h rfl
  case vammSetOpen v o => exact hm _ _ h rfl
  case vammConfig v u =>
    simp at h
    obtain ⟨_, _, _, _, rfl⟩ := h
    rfl
  case vammOwner v n =>
    simp at h
    obtain ⟨_, _, _, _, rfl⟩ := h
    rfl
  case ifAdd v =>
    simp at h
    obtain ⟨_, _, rfl⟩ := h
    rfl
  case ifRemove v =>
    simp at h
    obtain ⟨_, _, rfl⟩ := h
    rfl
  case ifShutdown =>
    split at h
    · cases h
    · split at h
      · cases h
      · exact hs _ _ _ (by decide) h rfl
  case ifWithdraw amt => exact hm _ _ h rfl
  case ifOwner n =>
    simp at h
    obtain ⟨_, _, rfl⟩ := h
    rfl
  case fpAdd tok =>
    simp at h
    obtain ⟨_, _, rfl⟩ := h
    rfl
  case fpRemove tok =>
    simp at h
    obtain ⟨_, _, rfl⟩ := h
    rfl
  case fpSend tok amt to =>
    repeat' split at h
    all_goals first | exact hs _ _ _ (by decide) h rfl | cases h
  case fpOwner n =>
    simp at h
    obtain ⟨_, _, rfl⟩ := h
    rfl
  case oracle price ts =>
    split at h
    · injection h with h; subst h; rfl
    · simp at h
      obtain ⟨_, _, rfl⟩ := h
      rfl
  case feedOwner n =>
    split at h
    · split at h
      · cases h
      · injection h with h; subst h; rfl
    · simp at h
      obtain ⟨_, _, rfl⟩ := h
      rfl
  case tokenApprove amt =>
    repeat' split at h
    all_goals first | (injection h with h; subst h; rfl) | cases h
  case tokenDecrease amt =>
    repeat' split at h
    all_goals first | (injection h with h; subst h; rfl) | cases h
  case tokenTransfer to amt =>
    split at h
    · cases h
    · exact hm _ _ h rfl
  case bankSend to amt =>
    split at h
    · cases h
    · exact hm _ _ h rfl

/-! ### handler-level facts (positions of other traders, in-flight records, message shapes) -/

theorem rp_same {e e' : E} (v t : Nat) (h : e'.positions = e.positions) :
    readPosition e' v t = readPosition e v t := by unfold readPosition; rw [h]

theorem rp_store (e e' : E) (p : Position) (v t : Nat) (h : e'.positions = (storePosition e p).positions)
    (hne : t ≠ p.trader) : readPosition e' v t = readPosition e v t :=
  (rp_same v t h).trans (readPosition_store_ne e p v t (fun hh => hne hh.2))

theorem rp_remove (e e' : E) (p : Position) (v t : Nat) (h : e'.positions = (removePosition e p).positions)
    (hne : t ≠ p.trader) : readPosition e' v t = readPosition e v t :=
  (rp_same v t h).trans (readPosition_remove_ne e p v t (fun hh => hne hh.2))

def ROthers (e e' : E) : Prop :=
  (∀ v t, (∀ sw, e.tmpSwap = some sw → sw.trader ≠ t) → readPosition e' v t = readPosition e v t)
  ∧ (∀ sw', e'.tmpSwap = some sw' → ∃ sw, e.tmpSwap = some sw ∧ sw'.trader = sw.trader)

macro "others_leaf " hs:ident : tactic => `(tactic|
  (refine ⟨fun v t ht => ?_, fun sw' h' => ?_⟩
   · first
      | exact rp_same v t rfl
      | exact rp_store _ _ _ v t rfl (fun hh => ht _ $hs ((getPosition_key _ _ _ _ _).2.symm.trans hh.symm))
      | exact rp_remove _ _ _ v t rfl (fun hh => ht _ $hs ((getPosition_key _ _ _ _ _).2.symm.trans hh.symm))
   · dsimp only [enterRestrictionMode, storeVammMap, storePosition, removePosition] at h'
     cases h' <;> exact ⟨_, $hs, rfl⟩))

set_option maxHeartbeats 800000 in
theorem updatePositionReply_others (q : Q) (e : E) (env : Env) (i o id : Nat) :
    Post (fun r => ROthers e r.1) (updatePositionReply q e env i o id) := by
  cases hs : e.tmpSwap with
  | none => unfold updatePositionReply; rw [hs]; post_walk [skip]
  | some sw =>
    unfold updatePositionReply
    rw [hs]
    post_walk [others_leaf hs]


theorem reversePositionReply_others (q : Q) (e : E) (env : Env) (o : Nat) :
    Post (fun r => ROthers e r.1) (reversePositionReply q e env o) := by
  cases hs : e.tmpSwap with
  | none => unfold reversePositionReply; rw [hs]; post_walk [skip]
  | some sw =>
    unfold reversePositionReply
    rw [hs]
    post_walk [others_leaf hs]

theorem closePositionReply_others (q : Q) (e : E) (env : Env) (o : Nat) :
    Post (fun r => ROthers e r.1) (closePositionReply q e env o) := by
  cases hs : e.tmpSwap with
  | none => unfold closePositionReply; rw [hs]; post_walk [skip]
  | some sw =>
    unfold closePositionReply
    rw [hs]
    post_walk [others_leaf hs]

theorem partialClosePositionReply_others (q : Q) (e : E) (env : Env) (i o : Nat) :
    Post (fun r => ROthers e r.1) (partialClosePositionReply q e env i o) := by
  cases hs : e.tmpSwap with
  | none => unfold partialClosePositionReply; rw [hs]; post_walk [skip]
  | some sw =>
    unfold partialClosePositionReply
    rw [hs]
    post_walk [others_leaf hs]

theorem liquidateReply_others (q : Q) (e : E) (env : Env) (o : Nat) :
    Post (fun r => ROthers e r.1) (liquidateReply q e env o) := by
  cases hs : e.tmpSwap with
  | none => unfold liquidateReply; rw [hs]; post_walk [skip]
  | some sw =>
    unfold liquidateReply
    rw [hs]
    post_walk [others_leaf hs]

theorem partialLiquidationReply_others (q : Q) (e : E) (env : Env) (i o : Nat) :
    Post (fun r => ROthers e r.1) (partialLiquidationReply q e env i o) := by
  cases hs : e.tmpSwap with
  | none => unfold partialLiquidationReply; rw [hs]; post_walk [skip]
  | some sw =>
    unfold partialLiquidationReply
    rw [hs]
    post_walk [others_leaf hs]

theorem appendCum_frame (e e1 : E) (v : Nat) (pf : Integer) (h : appendCum e v pf = .ok e1) :
    e1.positions = e.positions ∧ e1.tmpSwap = e.tmpSwap ∧ e1.sentFunds = e.sentFunds ∧ e1.tmpLiq = e.tmpLiq := by
  have : Post (fun r => r.positions = e.positions ∧ r.tmpSwap = e.tmpSwap ∧ r.sentFunds = e.sentFunds
      ∧ r.tmpLiq = e.tmpLiq) (appendCum e v pf) := by
    unfold appendCum
    post_walk [exact ⟨rfl, rfl, rfl, rfl⟩]
  exact this _ h

theorem payFundingReply_others (q : Q) (e : E) (env : Env) (pf : Integer) (v : Nat) :
    Post (fun r => ROthers e r.1) (payFundingReply q e env pf v) := by
  unfold payFundingReply
  post_walk [(
    have ha := appendCum_frame _ _ _ _ ‹appendCum _ _ _ = Except.ok _›
    exact ⟨fun v t _ => rp_same v t ha.1, fun sw' h' => ⟨sw', by rw [← ha.2.1]; exact h', rfl⟩⟩)]

/-! ### message shapes -/

def AllErr (l : List SubMsg) : Prop := ∀ m ∈ l, m.replyOn = .error

theorem AllErr_nil : AllErr [] := by intro m hm; cases hm
theorem AllErr_cons {m : SubMsg} {l : List SubMsg} (h1 : m.replyOn = .error) (h2 : AllErr l) : AllErr (m :: l) := by
  intro x hx
  rcases List.mem_cons.1 hx with rfl | hx
  · exact h1
  · exact h2 x hx
theorem AllErr_append {a b : List SubMsg} (h1 : AllErr a) (h2 : AllErr b) : AllErr (a ++ b) := by
  intro x hx
  rcases List.mem_append.1 hx with hx | hx
  · exact h1 x hx
  · exact h2 x hx

theorem transferMsg_err (c : Config) (r a : Nat) : (transferMsg c r a).replyOn = .error := by
  unfold transferMsg; split <;> rfl
theorem transferFromMsg_err (c : Config) (o r a : Nat) : (transferFromMsg c o r a).replyOn = .error := by
  unfold transferFromMsg; split <;> rfl

macro "allerr" : tactic => `(tactic|
  repeat' first
    | exact AllErr_nil
    | assumption
    | exact transferMsg_err _ _ _
    | exact transferFromMsg_err _ _ _ _
    | rfl
    | (with_reducible apply AllErr_append)
    | (with_reducible apply AllErr_cons)
    | split)

theorem withdraw_allErr (q : Q) (e : E) (st : State) (r a p : Nat) (x : State × List SubMsg)
    (h : unwrap (withdraw q e st r a p) = .ok x) : AllErr x.2 := by
  rw [EngineMoney.unwrap_ok] at h
  obtain ⟨st', msgs⟩ := x
  obtain ⟨bal, _, hm⟩ := withdraw_spec q e st st' r a p msgs h
  rcases hm with ⟨_, _, _, _, rfl⟩ | ⟨_, _, rfl⟩ <;> allerr

theorem transferFees_allErr (q : Q) (e : E) (src v N : Nat) (x : List SubMsg × Nat × Nat)
    (h : unwrap (transferFees q e src v N) = .ok x) : AllErr x.1 := by
  rw [EngineMoney.unwrap_ok] at h
  obtain ⟨msgs, sp, tl⟩ := x
  obtain ⟨_, rfl⟩ := transferFees_spec q e src v N msgs sp tl h
  allerr

theorem transferToIF_err (q : Q) (e : E) (a : Nat) (m : SubMsg) (h : transferToInsuranceFund q e a = .ok m) :
    m.replyOn = .error := by
  unfold transferToInsuranceFund at h
  peel h as bal, hb
  simp only [pure_ok_iff] at h
  subst h
  exact transferMsg_err _ _ _

/-- register the shape facts of the money helpers that ran on this path -/
macro "shape_hyps" : tactic => `(tactic|
  (try (have hw__ := withdraw_allErr _ _ _ _ _ _ _ ‹unwrap (withdraw _ _ _ _ _ _) = Except.ok _›)
   try (have hf__ := transferFees_allErr _ _ _ _ _ _ ‹unwrap (transferFees _ _ _ _ _) = Except.ok _›)
   try (have ht__ := transferToIF_err _ _ _ _ ‹transferToInsuranceFund _ _ _ = Except.ok _›)))

/-- nothing but configuration / state / whitelist / pauser / vAMM map moved -/
def Frame (e e' : E) : Prop :=
  e'.positions = e.positions ∧ e'.tmpSwap = e.tmpSwap ∧ e'.sentFunds = e.sentFunds ∧ e'.tmpLiq = e.tmpLiq

theorem updateConfig_frame (e : E) (s : Nat) (u : ConfigUpdate) : Post (Frame e) (updateConfig e s u) := by
  unfold updateConfig
  post_walk [exact ⟨rfl, rfl, rfl, rfl⟩]

theorem updatePauser_frame (e : E) (s n : Nat) : Post (Frame e) (updatePauser e s n) := by
  unfold updatePauser
  post_walk [exact ⟨rfl, rfl, rfl, rfl⟩]

theorem addWhitelist_frame (e : E) (s n : Nat) : Post (Frame e) (addWhitelist e s n) := by
  unfold addWhitelist
  post_walk [exact ⟨rfl, rfl, rfl, rfl⟩]

theorem removeWhitelist_frame (e : E) (s n : Nat) : Post (Frame e) (removeWhitelist e s n) := by
  unfold removeWhitelist
  post_walk [exact ⟨rfl, rfl, rfl, rfl⟩]

theorem setPause_frame (e : E) (s : Nat) (p : Bool) : Post (Frame e) (setPause e s p) := by
  unfold setPause
  post_walk [exact ⟨rfl, rfl, rfl, rfl⟩]

theorem readPosition_trader (e : E) (v t : Nat) (h : ¬ (readPosition e v t).size.value = 0) :
    (readPosition e v t).trader = t := by
  rcases readPosition_key e v t with hk | hk
  · exact hk.2
  · rw [hk] at h; exact absurd rfl h

theorem openPosition_frame (q : Q) (e : E) (env : Env) (s : Nat) (f : Funds) (v : Nat) (side : Side) (m l b : Nat) :
    Post (fun r => r.1.positions = e.positions ∧ (∃ tmp, r.1.tmpSwap = some tmp ∧ tmp.trader = s)
      ∧ r.1.tmpLiq = e.tmpLiq) (openPosition q e env s f v side m l b) := by
  unfold openPosition
  post_walk [exact ⟨rfl, ⟨_, rfl, rfl⟩, rfl⟩]

theorem closePosition_frame (q : Q) (e : E) (env : Env) (s v l : Nat) :
    Post (fun r => r.1.positions = e.positions ∧ (∃ tmp, r.1.tmpSwap = some tmp ∧ tmp.trader = s)
      ∧ r.1.sentFunds = e.sentFunds ∧ r.1.tmpLiq = e.tmpLiq) (closePosition q e env s v l) := by
  unfold closePosition internalClosePosition
  post_walk [exact ⟨rfl, ⟨_, rfl, readPosition_trader _ _ _ ‹¬ (readPosition _ _ _).size.value = 0›⟩, rfl, rfl⟩]

theorem partialLiquidation_frame (q : Q) (e : E) (v t l : Nat) :
    Post (fun r => r.1.positions = e.positions ∧ (∃ tmp, r.1.tmpSwap = some tmp ∧ tmp.trader = (readPosition e v t).trader)
      ∧ r.1.sentFunds = e.sentFunds ∧ r.1.tmpLiq = e.tmpLiq
      ∧ r.2.replyOn = .always ∧ r.2.id = REPLY_PARTIAL_LIQUIDATION) (partialLiquidation q e v t l) := by
  unfold partialLiquidation
  post_walk [exact ⟨rfl, ⟨_, rfl, rfl⟩, rfl, rfl, rfl, rfl⟩]

theorem liquidate_frame (q : Q) (e : E) (env : Env) (s v t l : Nat) :
    Post (fun r => r.1.positions = e.positions ∧ (∃ tmp, r.1.tmpSwap = some tmp ∧ tmp.trader = t)
      ∧ r.1.sentFunds = e.sentFunds ∧ r.1.tmpLiq = some s
      ∧ ∃ m, r.2 = [m] ∧ m.replyOn = .always ∧ (m.id = REPLY_LIQUIDATION ∨ m.id = REPLY_PARTIAL_LIQUIDATION))
      (liquidate q e env s v t l) := by
  unfold liquidate internalClosePosition
  post_walk [(
    have ht := readPosition_trader _ _ _ ‹¬ (readPosition _ _ _).size.value = 0›
    first
      | exact ⟨rfl, ⟨_, rfl, ht⟩, rfl, rfl, _, rfl, rfl, Or.inl rfl⟩
      | (have hp := partialLiquidation_frame _ _ _ _ _ _ ‹partialLiquidation _ _ _ _ _ = Except.ok _›
         obtain ⟨h1, ⟨tmp, h2, h3⟩, h4, h5, h6, h7⟩ := hp
         exact ⟨h1, ⟨tmp, h2, h3.trans ht⟩, h4, h5, _, rfl, h6, Or.inr h7⟩))]

theorem payFunding_frame (q : Q) (e : E) (v : Nat) :
    Post (fun r => r.1 = e ∧ r.2 = [⟨.vammSettle v, REPLY_PAY_FUNDING, .always⟩]) (payFunding q e v) := by
  unfold payFunding
  post_walk [exact ⟨rfl, rfl⟩]

theorem depositMargin_frame (e : E) (env : Env) (s : Nat) (f : Funds) (v a : Nat) :
    Post (fun r => (∀ v' t, t ≠ s → readPosition r.1 v' t = readPosition e v' t)
      ∧ r.1.tmpSwap = e.tmpSwap ∧ r.1.sentFunds = e.sentFunds ∧ r.1.tmpLiq = e.tmpLiq ∧ AllErr r.2)
      (depositMargin e env s f v a) := by
  unfold depositMargin
  post_walk [(
    have ht : (readPosition e v s).trader = s := Decidable.not_not.mp ‹¬ (readPosition _ _ _).trader ≠ _›
    refine ⟨fun v' t hne => rp_store _ _ _ v' t rfl (fun hh => hne (hh.trans ht)), rfl, rfl, rfl, ?_⟩
    allerr)]

theorem withdrawMargin_frame (q : Q) (e : E) (env : Env) (s v a : Nat) :
    Post (fun r => (∀ v' t, t ≠ (readPosition e v s).trader → readPosition r.1 v' t = readPosition e v' t)
      ∧ r.1.tmpSwap = e.tmpSwap ∧ r.1.sentFunds = e.sentFunds ∧ r.1.tmpLiq = e.tmpLiq ∧ AllErr r.2)
      (withdrawMargin q e env s v a) := by
  unfold withdrawMargin
  post_walk [(
    shape_hyps
    refine ⟨fun v' t hne => rp_store _ _ _ v' t rfl hne, rfl, rfl, rfl, ?_⟩
    allerr)]


theorem withdrawMargin_trader (q : Q) (e e' : E) (env : Env) (s v amt : Nat) (msgs : List SubMsg)
    (h : withdrawMargin q e env s v amt = .ok (e', msgs)) : (readPosition e v s).trader = s := by
  obtain ⟨rm, fc, st1, hrm, hb, _, _, _, _, hamt⟩ := withdrawMargin_spec q e e' env s v amt msgs h
  rcases readPosition_key e v s with hk | hk
  · exact hk.2
  · exfalso
    rw [hk] at hrm
    have hf : fundingOwed e Position.default = 0 := by
      unfold fundingOwed trunc
      have : Position.default.size.toInt = 0 := rfl
      rw [this, Int.mul_zero, Int.zero_tdiv]
    have hspec := (calcRemainMargin_spec e Position.default (Integer.newNegative amt) rm hrm).2.2.2
    rw [hf, Perp.Props.C19.toInt_newNegative] at hspec
    have hm : Position.default.margin = 0 := rfl
    rw [hm] at hspec
    have := hspec (by omega)
    omega

set_option maxHeartbeats 800000 in
theorem updatePositionReply_res (q : Q) (e : E) (env : Env) (i o id : Nat) :
    Post (fun r => r.1.tmpSwap = none ∧ r.1.sentFunds = none ∧ r.1.tmpLiq = e.tmpLiq ∧ AllErr r.2)
      (updatePositionReply q e env i o id) := by
  unfold updatePositionReply
  post_walk [(shape_hyps; refine ⟨rfl, rfl, rfl, ?_⟩; allerr)]


theorem reversePositionReply_res (q : Q) (e : E) (env : Env) (o : Nat) :
    Post (fun r => r.1.tmpLiq = e.tmpLiq ∧ ∃ pre last, r.2 = pre ++ [last] ∧ AllErr pre
        ∧ ((r.1.tmpSwap = none ∧ r.1.sentFunds = none ∧ last.replyOn = .error)
           ∨ (last.replyOn = .always ∧ last.id = REPLY_INCREASE)))
      (reversePositionReply q e env o) := by
  unfold reversePositionReply
  post_walk [(
    shape_hyps
    refine ⟨rfl, _, _, rfl, ‹AllErr _›, ?_⟩
    first
      | exact Or.inl ⟨rfl, rfl, transferMsg_err _ _ _⟩
      | exact Or.inr ⟨rfl, rfl⟩)]

theorem closePositionReply_res (q : Q) (e : E) (env : Env) (o : Nat) :
    Post (fun r => r.1.tmpSwap = none ∧ r.1.sentFunds = e.sentFunds ∧ r.1.tmpLiq = e.tmpLiq ∧ AllErr r.2)
      (closePositionReply q e env o) := by
  unfold closePositionReply
  post_walk [(shape_hyps; refine ⟨rfl, rfl, rfl, ?_⟩; allerr)]

theorem partialClosePositionReply_res (q : Q) (e : E) (env : Env) (i o : Nat) :
    Post (fun r => r.1.tmpSwap = none ∧ r.1.sentFunds = e.sentFunds ∧ r.1.tmpLiq = e.tmpLiq ∧ AllErr r.2)
      (partialClosePositionReply q e env i o) := by
  unfold partialClosePositionReply
  post_walk [(shape_hyps; refine ⟨rfl, rfl, rfl, ?_⟩; allerr)]

theorem liquidateReply_res (q : Q) (e : E) (env : Env) (o : Nat) :
    Post (fun r => r.1.tmpSwap = none ∧ r.1.sentFunds = e.sentFunds ∧ r.1.tmpLiq = none ∧ AllErr r.2)
      (liquidateReply q e env o) := by
  unfold liquidateReply realizeBadDebt
  post_walk [(shape_hyps; refine ⟨rfl, rfl, rfl, ?_⟩; allerr)]

theorem partialLiquidationReply_res (q : Q) (e : E) (env : Env) (i o : Nat) :
    Post (fun r => r.1.tmpSwap = none ∧ r.1.sentFunds = e.sentFunds ∧ r.1.tmpLiq = none ∧ AllErr r.2)
      (partialLiquidationReply q e env i o) := by
  unfold partialLiquidationReply
  post_walk [(shape_hyps; refine ⟨rfl, rfl, rfl, ?_⟩; allerr)]

theorem payFundingReply_res (q : Q) (e : E) (env : Env) (pf : Integer) (v : Nat) :
    Post (fun r => r.1.tmpSwap = e.tmpSwap ∧ r.1.sentFunds = e.sentFunds ∧ r.1.tmpLiq = e.tmpLiq ∧ AllErr r.2)
      (payFundingReply q e env pf v) := by
  unfold payFundingReply
  post_walk [(
    shape_hyps
    have ha := appendCum_frame _ _ _ _ ‹appendCum _ _ _ = Except.ok _›
    refine ⟨ha.2.1, ha.2.2.1, ha.2.2.2, ?_⟩
    allerr)]


/-! ### flows -/

/-- what the engine's records must look like while a sub-message with reply id `id` is in flight -/
def Pend (id : Nat) (e : E) : Prop :=
  if id = 8 then NoResidue e
  else if id = 6 ∨ id = 7 then e.sentFunds = none
  else if id = 4 ∨ id = 5 then e.sentFunds = none ∧ e.tmpLiq = none
  else e.tmpLiq = none

/-- the pending sub-messages of the engine are either all fire-and-forget (and nothing is in flight),
    or end in exactly one swap / settle whose reply clears what is in flight -/
def G (e : E) (subs : List SubMsg) : Prop :=
  (AllErr subs ∧ NoResidue e)
  ∨ ∃ pre last, subs = pre ++ [last] ∧ AllErr pre ∧ last.replyOn = .always ∧ Pend last.id e

theorem replyOk_id (q : Q) (e : E) (env : Env) (id : Nat) (ev : Ev) (r : E × List SubMsg)
    (h : replyOk q e env id ev = .ok r) :
    (id = 8 ∧ ∃ pf v, ev = .settle pf v)
    ∨ ((id = 1 ∨ id = 2 ∨ id = 3 ∨ id = 4 ∨ id = 5 ∨ id = 6 ∨ id = 7) ∧ ∃ o, ev = .swap o) := by
  unfold replyOk at h
  split at h
  · rename_i h8
    split at h
    · exact Or.inl ⟨h8, _, _, rfl⟩
    · cases h
  · split at h
    · rename_i hr
      split at h
      · exact Or.inr ⟨by omega, _, rfl⟩
      · cases h
    · cases h

theorem reply_G (q : Q) (e e2 : E) (env : Env) (id : Nat) (ev : Ev) (subs2 : List SubMsg)
    (hp : Pend id e) (h : replyOk q e env id ev = .ok (e2, subs2)) : G e2 subs2 := by
  rcases replyOk_id q e env id ev _ h with ⟨rfl, pf, v, rfl⟩ | ⟨hid, o, rfl⟩
  · have h' : payFundingReply q e env pf v = .ok (e2, subs2) := h
    obtain ⟨h1, h2, h3, h4⟩ := payFundingReply_res _ _ _ _ _ _ h'
    have hp' : NoResidue e := hp
    exact Or.inl ⟨h4, h1.trans hp'.1, h2.trans hp'.2.1, h3.trans hp'.2.2⟩
  · rcases hid with rfl | rfl | rfl | rfl | rfl | rfl | rfl
    · have h' : updatePositionReply q e env _ _ REPLY_INCREASE = .ok (e2, subs2) := h
      obtain ⟨h1, h2, h3, h4⟩ := updatePositionReply_res _ _ _ _ _ _ _ h'
      have hp' : e.tmpLiq = none := hp
      exact Or.inl ⟨h4, h1, h2, h3.trans hp'⟩
    · have h' : updatePositionReply q e env _ _ REPLY_DECREASE = .ok (e2, subs2) := h
      obtain ⟨h1, h2, h3, h4⟩ := updatePositionReply_res _ _ _ _ _ _ _ h'
      have hp' : e.tmpLiq = none := hp
      exact Or.inl ⟨h4, h1, h2, h3.trans hp'⟩
    · have h' : reversePositionReply q e env _ = .ok (e2, subs2) := h
      obtain ⟨h1, pre, last, h2, h3, h4⟩ := reversePositionReply_res _ _ _ _ _ h'
      have hp' : e.tmpLiq = none := hp
      dsimp only at h1 h2 h4
      rcases h4 with ⟨h5, h6, h7⟩ | ⟨h5, h6⟩
      · refine Or.inl ⟨?_, h5, h6, h1.trans hp'⟩
        rw [h2]
        exact AllErr_append h3 (AllErr_cons h7 AllErr_nil)
      · refine Or.inr ⟨pre, last, h2, h3, h5, ?_⟩
        rw [h6]
        exact h1.trans hp'
    · have h' : closePositionReply q e env _ = .ok (e2, subs2) := h
      obtain ⟨h1, h2, h3, h4⟩ := closePositionReply_res _ _ _ _ _ h'
      have hp' : e.sentFunds = none ∧ e.tmpLiq = none := hp
      exact Or.inl ⟨h4, h1, h2.trans hp'.1, h3.trans hp'.2⟩
    · have h' : partialClosePositionReply q e env _ _ = .ok (e2, subs2) := h
      obtain ⟨h1, h2, h3, h4⟩ := partialClosePositionReply_res _ _ _ _ _ _ h'
      have hp' : e.sentFunds = none ∧ e.tmpLiq = none := hp
      exact Or.inl ⟨h4, h1, h2.trans hp'.1, h3.trans hp'.2⟩
    · have h' : liquidateReply q e env _ = .ok (e2, subs2) := h
      obtain ⟨h1, h2, h3, h4⟩ := liquidateReply_res _ _ _ _ _ h'
      have hp' : e.sentFunds = none := hp
      exact Or.inl ⟨h4, h1, h2.trans hp', h3⟩
    · have h' : partialLiquidationReply q e env _ _ = .ok (e2, subs2) := h
      obtain ⟨h1, h2, h3, h4⟩ := partialLiquidationReply_res _ _ _ _ _ _ h'
      have hp' : e.sentFunds = none := hp
      exact Or.inl ⟨h4, h1, h2.trans hp', h3⟩

theorem AllErr_tail {m : SubMsg} {l : List SubMsg} (h : AllErr (m :: l)) : m.replyOn = .error ∧ AllErr l :=
  ⟨h m (List.mem_cons_self), fun x hx => h x (List.mem_cons_of_mem _ hx)⟩

theorem not_reply_of_err {s : SubMsg} (h : s.replyOn = .error) : ¬ (s.replyOn = .always ∨ s.replyOn = .success) := by
  rw [h]; simp

/-- running the sub-messages of a well-formed flow leaves no in-flight record -/
theorem flow_run : ∀ (fuel : Nat) (w w' : World) (subs : List SubMsg),
    execSubs fuel w ENGINE subs = .ok w' → G w.engine subs → NoResidue w'.engine := by
  intro fuel
  induction fuel with
  | zero => intro w w' subs h; unfold execSubs at h; cases h
  | succ fuel ih =>
    intro w w' subs h hG
    cases subs with
    | nil =>
      rw [execSubs_nil _ _ _ _ h]
      rcases hG with ⟨_, hn⟩ | ⟨pre, last, hl, _⟩
      · exact hn
      · cases pre <;> cases hl
    | cons s rest =>
      obtain ⟨w1, ev, hx, hyes, hno⟩ := execSubs_cons_ok fuel w w' ENGINE s rest h
      have hf := ((execMsg_engine_frame fuel).1 _ _ _ _ _ hx).1
      rcases hG with ⟨ha, hn⟩ | ⟨pre, last, hl, hpre, hlast, hpend⟩
      · obtain ⟨h1, h2⟩ := AllErr_tail ha
        exact ih _ _ _ (hno (not_reply_of_err h1)) (Or.inl ⟨h2, hf ▸ hn⟩)
      · cases pre with
        | nil =>
          simp only [List.nil_append, List.cons.injEq] at hl
          obtain ⟨rfl, rfl⟩ := hl
          obtain ⟨_, e2, subs2, w3, hrep, hs2, hrest⟩ := hyes (Or.inl hlast)
          rw [hf] at hrep
          have hG2 := reply_G _ _ _ _ _ _ _ hpend hrep
          have h3 := ih _ _ _ hs2 hG2
          rw [execSubs_nil _ _ _ _ hrest]
          exact h3
        | cons p pre' =>
          simp only [List.cons_append, List.cons.injEq] at hl
          obtain ⟨rfl, rfl⟩ := hl
          obtain ⟨h1, h2⟩ := AllErr_tail hpre
          exact ih _ _ _ (hno (not_reply_of_err h1)) (Or.inr ⟨pre', last, rfl, h2, hlast, hf ▸ hpend⟩)


/-- every `execute` starts a well-formed flow -/
theorem exec_G (q : Q) (e e1 : E) (env : Env) (s : Nat) (f : Funds) (m : ExecMsg) (subs : List SubMsg)
    (hinv : NoResidue e) (h : execute q e env s f m = .ok (e1, subs)) : G e1 subs := by
  have hfr : ∀ e', Frame e e' → G e' [] := fun e' hf =>
    Or.inl ⟨AllErr_nil, hf.2.1.trans hinv.1, hf.2.2.1.trans hinv.2.1, hf.2.2.2.trans hinv.2.2⟩
  unfold execute at h
  cases m with
  | updateConfig u =>
    obtain ⟨e1', h1, h2⟩ := (EngineGuards.exmap_ok _ _ _).1 h
    cases h2
    exact hfr _ (updateConfig_frame _ _ _ _ h1)
  | updatePauser p =>
    obtain ⟨e1', h1, h2⟩ := (EngineGuards.exmap_ok _ _ _).1 h
    cases h2
    exact hfr _ (updatePauser_frame _ _ _ _ h1)
  | addWhitelist a =>
    obtain ⟨e1', h1, h2⟩ := (EngineGuards.exmap_ok _ _ _).1 h
    cases h2
    exact hfr _ (addWhitelist_frame _ _ _ _ h1)
  | removeWhitelist a =>
    obtain ⟨e1', h1, h2⟩ := (EngineGuards.exmap_ok _ _ _).1 h
    cases h2
    exact hfr _ (removeWhitelist_frame _ _ _ _ h1)
  | setPause p =>
    obtain ⟨e1', h1, h2⟩ := (EngineGuards.exmap_ok _ _ _).1 h
    cases h2
    exact hfr _ (setPause_frame _ _ _ _ h1)
  | openPosition v sd mg l b =>
    obtain ⟨_, _, h3⟩ := openPosition_frame _ _ _ _ _ _ _ _ _ _ _ h
    have hl : e1.tmpLiq = none := h3.trans hinv.2.2
    rcases openPosition_msgs _ _ _ _ _ _ _ _ _ _ _ _ h with rfl | rfl | rfl
    all_goals exact Or.inr ⟨[], _, rfl, AllErr_nil, rfl, hl⟩
  | closePosition v l =>
    obtain ⟨_, _, h3, h4⟩ := closePosition_frame _ _ _ _ _ _ _ h
    have hl : e1.sentFunds = none ∧ e1.tmpLiq = none := ⟨h3.trans hinv.2.1, h4.trans hinv.2.2⟩
    rcases closePosition_msgs _ _ _ _ _ _ _ _ h with rfl | ⟨n, rfl, _⟩
    all_goals exact Or.inr ⟨[], _, rfl, AllErr_nil, rfl, hl⟩
  | liquidate v t l =>
    obtain ⟨_, _, h3, _, mm, h5, h6, h7⟩ := liquidate_frame _ _ _ _ _ _ _ _ h
    dsimp only at h3 h5
    subst h5
    have hl : e1.sentFunds = none := h3.trans hinv.2.1
    refine Or.inr ⟨[], mm, rfl, AllErr_nil, h6, ?_⟩
    rcases h7 with h7 | h7 <;> rw [h7] <;> exact hl
  | payFunding v =>
    obtain ⟨h1, h2⟩ := payFunding_frame _ _ _ _ h
    dsimp only at h1 h2
    subst h1 h2
    exact Or.inr ⟨[], _, rfl, AllErr_nil, rfl, hinv⟩
  | depositMargin v a =>
    obtain ⟨_, h2, h3, h4, h5⟩ := depositMargin_frame _ _ _ _ _ _ _ h
    exact Or.inl ⟨h5, h2.trans hinv.1, h3.trans hinv.2.1, h4.trans hinv.2.2⟩
  | withdrawMargin v a =>
    obtain ⟨_, h2, h3, h4, h5⟩ := withdrawMargin_frame _ _ _ _ _ _ _ h
    exact Or.inl ⟨h5, h2.trans hinv.1, h3.trans hinv.2.1, h4.trans hinv.2.2⟩

/-! ### C08: no residue -/

/-- C08, second sentence: after any successful transaction the engine holds no in-flight record
    (a failed one leaves the state as it was, which had none) -/
theorem noResidue_step (w w' : World) (env : Env) (s : Nat) (f : Funds) (tx : Tx)
    (hinv : NoResidue w.engine) (h : applyTx w env s f tx = .ok w') : NoResidue w'.engine := by
  by_cases hne : ∃ m, tx = .engine m
  · obtain ⟨m, rfl⟩ := hne
    obtain ⟨w1, e1, subs, a1, _, _, _, _, _, hex, hrun⟩ := applyTx_engine_inv w w' env s f m h
    exact flow_run _ _ _ _ hrun (exec_G _ _ _ _ _ _ _ _ (by rw [a1]; exact hinv) hex)
  · rw [applyTx_nonengine_frame w w' env s f tx (fun m hm => hne ⟨m, hm⟩) h]
    exact hinv

theorem noResidue_run (w : World) (env : Env) (s : Nat) (f : Funds) (tx : Tx) (hinv : NoResidue w.engine) :
    NoResidue (step w env s f tx).engine := by
  unfold step
  split
  · rename_i w' h
    exact noResidue_step w w' env s f tx hinv h
  · exact hinv

/-! ### C10: other traders' positions -/

/-- the accounts a transaction may touch: its sender, and the trader named by a `Liquidate` -/
def touched (s : Nat) (tx : Tx) (t : Nat) : Prop :=
  t = s ∨ (∃ v l, tx = .engine (.liquidate v t l))

/-- `execute` writes no position of an untouched trader and puts only touched traders in flight -/
theorem execute_others (q : Q) (e e' : E) (env : Env) (s : Nat) (f : Funds) (m : ExecMsg) (subs : List SubMsg)
    (hinv : NoResidue e) (h : execute q e env s f m = .ok (e', subs)) :
    (∀ v t, ¬ touched s (.engine m) t → readPosition e' v t = readPosition e v t)
    ∧ (∀ sw, e'.tmpSwap = some sw → touched s (.engine m) sw.trader) := by
  have hfr : ∀ e', Frame e e' → (∀ v t, ¬ touched s (.engine m) t → readPosition e' v t = readPosition e v t)
      ∧ (∀ sw, e'.tmpSwap = some sw → touched s (.engine m) sw.trader) := by
    intro e' hf
    refine ⟨fun v t _ => rp_same v t hf.1, fun sw hsw => ?_⟩
    rw [hf.2.1, hinv.1] at hsw
    cases hsw
  unfold execute at h
  cases m with
  | updateConfig u =>
    obtain ⟨e1, h1, h2⟩ := (EngineGuards.exmap_ok _ _ _).1 h
    cases h2
    exact hfr _ (updateConfig_frame _ _ _ _ h1)
  | updatePauser p =>
    obtain ⟨e1, h1, h2⟩ := (EngineGuards.exmap_ok _ _ _).1 h
    cases h2
    exact hfr _ (updatePauser_frame _ _ _ _ h1)
  | addWhitelist a =>
    obtain ⟨e1, h1, h2⟩ := (EngineGuards.exmap_ok _ _ _).1 h
    cases h2
    exact hfr _ (addWhitelist_frame _ _ _ _ h1)
  | removeWhitelist a =>
    obtain ⟨e1, h1, h2⟩ := (EngineGuards.exmap_ok _ _ _).1 h
    cases h2
    exact hfr _ (removeWhitelist_frame _ _ _ _ h1)
  | setPause p =>
    obtain ⟨e1, h1, h2⟩ := (EngineGuards.exmap_ok _ _ _).1 h
    cases h2
    exact hfr _ (setPause_frame _ _ _ _ h1)
  | openPosition v sd mg l b =>
    obtain ⟨h1, ⟨tmp, h2, h3⟩, _⟩ := openPosition_frame _ _ _ _ _ _ _ _ _ _ _ h
    refine ⟨fun v t _ => rp_same v t h1, fun sw hsw => ?_⟩
    rw [h2] at hsw
    cases hsw
    exact Or.inl h3
  | closePosition v l =>
    obtain ⟨h1, ⟨tmp, h2, h3⟩, _⟩ := closePosition_frame _ _ _ _ _ _ _ h
    refine ⟨fun v t _ => rp_same v t h1, fun sw hsw => ?_⟩
    rw [h2] at hsw
    cases hsw
    exact Or.inl h3
  | liquidate v t l =>
    obtain ⟨h1, ⟨tmp, h2, h3⟩, _⟩ := liquidate_frame _ _ _ _ _ _ _ _ h
    refine ⟨fun v t _ => rp_same v t h1, fun sw hsw => ?_⟩
    rw [h2] at hsw
    cases hsw
    exact Or.inr ⟨v, l, by rw [h3]⟩
  | payFunding v =>
    obtain ⟨h1, _⟩ := payFunding_frame _ _ _ _ h
    cases h1
    exact hfr _ ⟨rfl, rfl, rfl, rfl⟩
  | depositMargin v a =>
    obtain ⟨h1, h2, _⟩ := depositMargin_frame _ _ _ _ _ _ _ h
    refine ⟨fun v t ht => h1 v t (fun hh => ht (Or.inl hh)), fun sw hsw => ?_⟩
    rw [h2, hinv.1] at hsw
    cases hsw
  | withdrawMargin v a =>
    obtain ⟨h1, h2, _⟩ := withdrawMargin_frame _ _ _ _ _ _ _ h
    have ht := withdrawMargin_trader _ _ _ _ _ _ _ _ h
    rw [ht] at h1
    refine ⟨fun v t ht => h1 v t (fun hh => ht (Or.inl hh)), fun sw hsw => ?_⟩
    rw [h2, hinv.1] at hsw
    cases hsw


/-- every reply writes at most the position of the trader in flight, and keeps that trader in flight -/
theorem replyOk_others (q : Q) (e e' : E) (env : Env) (id : Nat) (ev : Ev) (subs : List SubMsg)
    (h : replyOk q e env id ev = .ok (e', subs)) :
    (∀ v t, (∀ sw, e.tmpSwap = some sw → sw.trader ≠ t) → readPosition e' v t = readPosition e v t)
    ∧ (∀ sw', e'.tmpSwap = some sw' → ∃ sw, e.tmpSwap = some sw ∧ sw'.trader = sw.trader) := by
  have : Post (fun r => ROthers e r.1) (replyOk q e env id ev) := by
    unfold replyOk
    repeat' split
    all_goals try dsimp only []
    all_goals first
      | (with_reducible exact EngineGuards.Post_error)
      | (with_reducible exact payFundingReply_others _ _ _ _ _)
      | (with_reducible exact updatePositionReply_others _ _ _ _ _ _)
      | (with_reducible exact reversePositionReply_others _ _ _ _)
      | (with_reducible exact closePositionReply_others _ _ _ _)
      | (with_reducible exact partialClosePositionReply_others _ _ _ _ _)
      | (with_reducible exact liquidateReply_others _ _ _ _)
      | (with_reducible exact partialLiquidationReply_others _ _ _ _ _)
  exact this _ h


/-- C10: a transaction never changes, creates or removes the stored position of a trader other than
    its sender (and the trader named by a Liquidate) -/
theorem others_untouched (w w' : World) (env : Env) (s : Nat) (f : Funds) (tx : Tx)
    (hinv : NoResidue w.engine) (h : applyTx w env s f tx = .ok w') :
    ∀ v t, ¬ touched s tx t → readPosition w'.engine v t = readPosition w.engine v t := by
  intro v t ht
  by_cases hne : ∃ m, tx = .engine m
  · obtain ⟨m, rfl⟩ := hne
    obtain ⟨w1, e1, subs, a1, _, _, _, _, _, hex, hrun⟩ := applyTx_engine_inv w w' env s f m h
    have hE := execute_others w1.q w1.engine e1 env s f m subs (by rw [a1]; exact hinv) hex
    rw [a1] at hE
    have hP := execSubs_engine_invariant
      (fun e => (∀ v t, ¬ touched s (.engine m) t → readPosition e v t = readPosition w.engine v t)
        ∧ (∀ sw, e.tmpSwap = some sw → touched s (.engine m) sw.trader))
      (by
        intro q e e' env' id ev subs' hP hrep
        obtain ⟨r1, r2⟩ := replyOk_others q e e' env' id ev subs' hrep
        refine ⟨fun v t ht => ?_, fun sw' hsw' => ?_⟩
        · rw [r1 v t (fun sw hsw heq => ht (heq ▸ hP.2 sw hsw))]
          exact hP.1 v t ht
        · obtain ⟨sw, hsw, heq⟩ := r2 sw' hsw'
          rw [heq]
          exact hP.2 sw hsw)
      FUEL { w1 with engine := e1 } w' subs hrun hE
    exact hP.1 v t ht
  · rw [applyTx_nonengine_frame w w' env s f tx (fun m hm => hne ⟨m, hm⟩) h]

/-! ### guards lifted to transactions (C05, C14, C16) -/

def isErr {α : Type} (e : Except Err α) : Prop := ∃ x, e = .error x

/-- if `execute` rejects, the transaction is rejected (and `step` then changes nothing but the clock) -/
theorem execute_err_applyTx_err (w : World) (env : Env) (s : Nat) (f : Funds) (m : ExecMsg)
    (h : ∀ w1 : World, w1.engine = w.engine → w1.vamms = w.vamms → w1.ifund = w.ifund → w1.feed = w.feed → w1.env = env →
          isErr (execute w1.q w1.engine env s f m)) :
    isErr (applyTx w env s f (.engine m)) := by
  rcases except_cases (applyTx w env s f (.engine m)) with he | ⟨w', hok⟩
  · exact he
  · exfalso
    obtain ⟨w1, e1, subs, a1, a2, a3, a4, _, a6, hex, _⟩ := applyTx_engine_inv w w' env s f m hok
    obtain ⟨x, hx⟩ := h w1 a1 a3 a4 a6 a2
    rw [hx] at hex
    cases hex

theorem paused_tx_rejected (w : World) (env : Env) (s : Nat) (f : Funds) (v : Nat) (side : Side) (m l b a : Nat)
    (hp : w.engine.st.pause = true) :
    isErr (applyTx w env s f (.engine (.openPosition v side m l b)))
    ∧ isErr (applyTx w env s f (.engine (.closePosition v l)))
    ∧ isErr (applyTx w env s f (.engine (.depositMargin v a)))
    ∧ isErr (applyTx w env s f (.engine (.withdrawMargin v a))) := by
  refine ⟨?_, ?_, ?_, ?_⟩ <;> apply execute_err_applyTx_err <;> intro w1 he _ _ _ _
  · exact (EngineGuards.paused_rejects w1.q w1.engine env s f v side m l b a (he ▸ hp)).1
  · exact (EngineGuards.paused_rejects w1.q w1.engine env s f v side m l b a (he ▸ hp)).2.1
  · exact (EngineGuards.paused_rejects w1.q w1.engine env s f v side m l b a (he ▸ hp)).2.2.1
  · exact (EngineGuards.paused_rejects w1.q w1.engine env s f v side m l b a (he ▸ hp)).2.2.2

theorem restricted_tx_rejected (w : World) (env : Env) (s : Nat) (f : Funds) (v : Nat) (side : Side) (m l b : Nat)
    (hr : (readVammMap w.engine v).lastRestriction = env.height ∧ (readPosition w.engine v s).block = env.height) :
    isErr (applyTx w env s f (.engine (.openPosition v side m l b)))
    ∧ isErr (applyTx w env s f (.engine (.closePosition v l))) := by
  refine ⟨?_, ?_⟩ <;> apply execute_err_applyTx_err <;> intro w1 he _ _ _ _
  · exact (EngineGuards.restricted_rejects w1.q w1.engine env s f v side m l b (he ▸ hr)).1
  · exact (EngineGuards.restricted_rejects w1.q w1.engine env s f v side m l b (he ▸ hr)).2

theorem requireVamm_err (w w1 : World) (v : Nat) (he : w1.engine = w.engine) (hv : w1.vamms = w.vamms)
    (hi : w1.ifund = w.ifund)
    (hc : w.engine.cfg.insuranceFund = IFUND →
            (w.ifund.vamms.contains v = false ∨ (∃ x, w.vamm? v = some x ∧ x.st.isOpen = false) ∨ w.vamm? v = none)) :
    EngineGuards.isErr (requireVamm w1.q v) := by
  have hvm : w1.vamm? v = w.vamm? v := by unfold vamm?; rw [hv]
  unfold requireVamm World.q
  simp only [he, hi]
  by_cases hif : w.engine.cfg.insuranceFund = IFUND
  · rw [if_pos hif]
    rcases hc hif with h1 | ⟨x, h1, h2⟩ | h1
    · rw [h1]; exact ⟨_, rfl⟩
    · cases hcon : w.ifund.vamms.contains v
      · exact ⟨_, rfl⟩
      · unfold vammE
        rw [hvm, h1]
        simp only [Except.map]
        rw [h2]
        exact ⟨_, rfl⟩
    · cases hcon : w.ifund.vamms.contains v
      · exact ⟨_, rfl⟩
      · unfold vammE
        rw [hvm, h1]
        exact ⟨_, rfl⟩
  · rw [if_neg hif]
    exact ⟨_, rfl⟩

theorem closed_or_unregistered_tx_rejected (w : World) (env : Env) (s : Nat) (f : Funds) (v : Nat) (side : Side)
    (m l b a t : Nat)
    (hc : w.engine.cfg.insuranceFund = IFUND →
            (w.ifund.vamms.contains v = false ∨ (∃ x, w.vamm? v = some x ∧ x.st.isOpen = false) ∨ w.vamm? v = none)) :
    isErr (applyTx w env s f (.engine (.openPosition v side m l b)))
    ∧ isErr (applyTx w env s f (.engine (.liquidate v t l)))
    ∧ isErr (applyTx w env s f (.engine (.withdrawMargin v a)))
    ∧ isErr (applyTx w env s f (.engine (.payFunding v))) := by
  refine ⟨?_, ?_, ?_, ?_⟩ <;> apply execute_err_applyTx_err <;> intro w1 he hv hi _ _
  · exact (EngineGuards.needs_vamm w1.q w1.engine env s f v side m l b a t (requireVamm_err w w1 v he hv hi hc)).1
  · exact (EngineGuards.needs_vamm w1.q w1.engine env s f v side m l b a t (requireVamm_err w w1 v he hv hi hc)).2.1
  · exact (EngineGuards.needs_vamm w1.q w1.engine env s f v side m l b a t (requireVamm_err w w1 v he hv hi hc)).2.2.1
  · exact (EngineGuards.needs_vamm w1.q w1.engine env s f v side m l b a t (requireVamm_err w w1 v he hv hi hc)).2.2.2

theorem leverage_tx_rejected (w : World) (env : Env) (s : Nat) (f : Funds) (v : Nat) (side : Side) (m l b : Nat)
    (hl : l < w.engine.cfg.decimals ∨ w.engine.cfg.decimals * w.engine.cfg.decimals / l < w.engine.cfg.imr) :
    isErr (applyTx w env s f (.engine (.openPosition v side m l b))) := by
  apply execute_err_applyTx_err
  intro w1 he _ _ _ _
  rcases except_cases (execute w1.q w1.engine env s f (.openPosition v side m l b)) with h | ⟨⟨e', msgs⟩, h⟩
  · exact h
  · exfalso
    have := EngineGuards.open_leverage_bounds w1.q w1.engine e' env s f v side m l b msgs h
    rw [he] at this
    omega

end Perp.Props.WorldInv
