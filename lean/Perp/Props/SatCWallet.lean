/-
  SatC, part 5 — C05: the withdraw / deposit clauses at transaction level (position record, wallet of
  the sender, free collateral afterwards).
-/
import Perp.Props.SatCMargin
import Perp.Props.G9Perm

namespace Perp.Props.SatC
open Perp Perp.World Perp.Engine Perp.Spec Perp.Props.ModelStep
open Perp.Props.Dispatch
open Perp.Props.MirrorP (AllCE CE IsColl AllCE_tail AllCE_nil AllCE_cons AllCE_append)

/-! ### the ledger -/

theorem move_bal (g g' : Ledger) (src dst amt : Nat) (h : Ledger.move g src dst amt = .ok g') (hne : src ≠ dst) :
    g'.balance dst = g.balance dst + amt ∧ g'.balance src + amt = g.balance src := by
  unfold Ledger.move at h
  split at h
  · cases h
  · rename_i h1
    simp only [] at h
    split at h
    · cases h
    · injection h with h
      subst h
      simp only [Ledger.balance]
      rw [Ledger.get_set_self, Ledger.get_set_ne _ _ _ _ (fun hh => hne hh.symm), Ledger.get_set_ne _ _ _ _ hne,
        Ledger.get_set_self]
      simp only [Ledger.balance] at h1
      omega

theorem bankSend_bal (g g' : Ledger) (src dst amt : Nat) (h : Ledger.bankSend g src dst amt = .ok g') (hne : src ≠ dst) :
    g'.balance dst = g.balance dst + amt ∧ g'.balance src + amt = g.balance src := by
  unfold Ledger.bankSend at h
  split at h
  · cases h
  · exact move_bal _ _ _ _ _ h hne

theorem tokenTransfer_bal (g g' : Ledger) (src dst amt : Nat) (h : Ledger.tokenTransfer g src dst amt = .ok g')
    (hne : src ≠ dst) : g'.balance dst = g.balance dst + amt ∧ g'.balance src + amt = g.balance src := by
  unfold Ledger.tokenTransfer at h
  split at h
  · cases h
  · exact move_bal _ _ _ _ _ h hne

theorem tokenTransferFrom_bal (g g' : Ledger) (src dst amt : Nat) (h : Ledger.tokenTransferFrom g src dst amt = .ok g')
    (hne : src ≠ dst) : g'.balance dst = g.balance dst + amt ∧ g'.balance src + amt = g.balance src := by
  unfold Ledger.tokenTransferFrom at h
  split at h
  · cases h
  · split at h
    · cases h
    · exact move_bal { g with allow := Ledger.set g.allow src (Ledger.get g.allow src - amt) } _ _ _ _ h hne

/-! ### single messages of the engine -/

theorem exec_transferMsg (fuel : Nat) (w w1 : World) (cfg : Config) (r a : Nat) (ev : Ev)
    (h : execMsg fuel w ENGINE (transferMsg cfg r a).msg = .ok (w1, ev)) (hr : r ≠ ENGINE) :
    w1.ledger.balance r = w.ledger.balance r + a := by
  cases fuel with
  | zero => unfold execMsg at h; cases h
  | succ fuel =>
    unfold transferMsg at h
    split at h
    · unfold execMsg at h
      simp at h
      obtain ⟨g, hg, rfl, _⟩ := h
      exact (bankSend_bal _ _ _ _ _ hg (fun hh => hr hh.symm)).1
    · unfold execMsg at h
      simp at h
      obtain ⟨g, hg, rfl, _⟩ := h
      exact (tokenTransfer_bal _ _ _ _ _ hg (fun hh => hr hh.symm)).1

theorem exec_ifWithdraw_frame (fuel : Nat) (w w1 : World) (a t : Nat) (ev : Ev)
    (h : execMsg fuel w ENGINE (.ifWithdraw a) = .ok (w1, ev)) (h1 : t ≠ IFUND) (h2 : t ≠ ENGINE) :
    w1.ledger.balance t = w.ledger.balance t := by
  cases fuel with
  | zero => unfold execMsg at h; cases h
  | succ fuel =>
    unfold execMsg at h
    try simp only [] at h
    split at h
    · cases h
    split at h
    · cases h
    rename_i hs
    have hs' : ENGINE = w.ifund.engine := by simpa using hs
    simp at h
    obtain ⟨w2, hsub, rfl, _⟩ := h
    obtain ⟨f', ev', hx⟩ := G9Perm.execSubs_single_never _ _ _ _ _ hsub (by split <;> rfl)
    cases f' with
    | zero => unfold execMsg at hx; cases hx
    | succ f' =>
      split at hx
      · unfold execMsg at hx
        simp at hx
        obtain ⟨g, hg, rfl, _⟩ := hx
        exact G9Perm.bankSend_frame _ _ _ _ _ _ hg h1 (by rw [← hs']; exact h2)
      · unfold execMsg at hx
        simp at hx
        obtain ⟨g, hg, rfl, _⟩ := hx
        exact G9Perm.tokenTransfer_frame _ _ _ _ _ _ hg h1 (by rw [← hs']; exact h2)

theorem exec_transferFrom_token (fuel : Nat) (w w1 : World) (cfg : Config) (s a : Nat) (ev : Ev)
    (hn : cfg.native = false)
    (h : execMsg fuel w ENGINE (transferFromMsg cfg s ENGINE_ADDR a).msg = .ok (w1, ev)) (hs : s ≠ ENGINE) :
    w1.ledger.balance s + a = w.ledger.balance s := by
  cases fuel with
  | zero => unfold execMsg at h; cases h
  | succ fuel =>
    unfold transferFromMsg at h
    rw [hn] at h
    simp only [Bool.false_eq_true, if_false] at h
    unfold execMsg at h
    simp at h
    obtain ⟨g, hg, rfl, _⟩ := h
    exact (tokenTransferFrom_bal _ _ _ _ _ hg hs).2

theorem run_ce_cons (fuel : Nat) (w w' : World) (m : SubMsg) (rest : List SubMsg) (hm : CE m)
    (h : execSubs (fuel + 1) w ENGINE (m :: rest) = .ok w') :
    ∃ w1 ev, execMsg fuel w ENGINE m.msg = .ok (w1, ev) ∧ execSubs fuel w1 ENGINE rest = .ok w' := by
  obtain ⟨w1, ev, hx, _, hno⟩ := execSubs_cons_ok fuel w w' ENGINE m rest h
  exact ⟨w1, ev, hx, hno (WorldInv.not_reply_of_err hm.1)⟩

/-! ### engine transactions, with the attached funds made explicit -/

theorem applyTx_engine_inv2 (w w' : World) (env : Env) (s : Nat) (f : Funds) (m : ExecMsg)
    (h : applyTx w env s f (.engine m) = .ok w') :
    ∃ (w1 : World) (e1 : E) (subs : List SubMsg), w1.engine = w.engine ∧ w1.env = env ∧ w1.vamms = w.vamms
      ∧ ((¬ (w.engine.cfg.native = true ∧ f.amount ≠ 0) ∧ w1.ledger = w.ledger)
         ∨ (w.engine.cfg.native = true ∧ f.amount ≠ 0
            ∧ ∃ g, Ledger.bankSend w.ledger s ENGINE f.amount = .ok g ∧ w1.ledger = g))
      ∧ execute w1.q w1.engine env s f m = .ok (e1, subs)
      ∧ execSubs FUEL { w1 with engine := e1 } ENGINE subs = .ok w' := by
  unfold applyTx at h
  dsimp only at h
  split at h
  · rename_i hc
    simp at h
    obtain ⟨w1, hg, e', subs, hex, h⟩ := h
    obtain ⟨⟨w1', ev⟩, hg', rfl⟩ := (exmap_ok _ _ _).1 hg
    obtain ⟨a1, a2, _⟩ := (execMsg_engine_frame FUEL).1 _ _ _ _ _ hg'
    have a6 := WorldInv.execMsg_bankSend_vamms _ _ _ _ _ _ _ hg'
    refine ⟨w1', e', subs, a1, a2, a6, Or.inr ⟨hc.1, hc.2, ?_⟩, hex, h⟩
    have hg'' : execMsg (39 + 1) { w with env := env, log := [] } s (.bankSend ENGINE f.amount) = .ok (w1', ev) := hg'
    unfold execMsg at hg''
    simp at hg''
    obtain ⟨g, hg3, rfl, _⟩ := hg''
    exact ⟨g, hg3, rfl⟩
  · rename_i hc
    simp at h
    obtain ⟨e', subs, hex, h⟩ := h
    exact ⟨{ w with env := env, log := [] }, e', subs, rfl, rfl, rfl, Or.inl ⟨hc, rfl⟩, hex, h⟩

/-! ### WithdrawMargin -/

theorem withdrawMargin_key (q : Q) (e e' : E) (env : Env) (s v amt : Nat) (msgs : List SubMsg)
    (h : withdrawMargin q e env s v amt = .ok (e', msgs)) :
    (readPosition e v s).vamm = v ∧ (readPosition e v s).trader = s := by
  obtain ⟨rm, fc, st1, hrm, hb, _, _, _, _, hamt⟩ := EngineMoney.withdrawMargin_spec q e e' env s v amt msgs h
  rcases EngineMoney.readPosition_key e v s with hk | hk
  · exact hk
  · exfalso
    rw [hk] at hrm
    have hf : EngineMoney.fundingOwed e Position.default = 0 := by
      unfold EngineMoney.fundingOwed EngineMoney.trunc
      have : Position.default.size.toInt = 0 := rfl
      rw [this, Int.mul_zero, Int.zero_tdiv]
    have hspec := (EngineMoney.calcRemainMargin_spec e Position.default (Integer.newNegative amt) rm hrm).2.2.2
    rw [hf, C19.toInt_newNegative] at hspec
    have hm : Position.default.margin = 0 := rfl
    rw [hm] at hspec
    have := hspec (by omega)
    omega

/-- **C05, WithdrawMargin** (Prop form of the four clauses) -/
theorem withdraw_tx (w w' : World) (env : Env) (s : Nat) (f : Funds) (v amt : Nat)
    (hM : MarginRep w.engine) (hs1 : s ≠ ENGINE) (hs2 : s ≠ IFUND)
    (h : applyTx w env s f (.engine (.withdrawMargin v amt)) = .ok w') :
    (¬ (w.engine.cfg.native = true ∧ f.amount ≠ 0) → w'.ledger.balance s = w.ledger.balance s + amt)
    ∧ ((w.engine.cfg.native = true ∧ f.amount ≠ 0) → w'.ledger.balance s + f.amount = w.ledger.balance s + amt)
    ∧ ((readPosition w'.engine v s).margin : Int)
        = (readPosition w.engine v s).margin - amt - EngineMoney.fundingOwed w.engine (readPosition w.engine v s)
    ∧ (readPosition w'.engine v s).chk = latestCum w.engine v
    ∧ ∃ fc', queryFreeCollateral w'.q w'.engine v s = .ok fc' ∧ 0 ≤ fc'.toInt := by
  obtain ⟨w1, e1, subs, a1, a2, a3, hled, hex, hrun⟩ := applyTx_engine_inv2 w w' env s f _ h
  have hex' : withdrawMargin w1.q w1.engine env s v amt = .ok (e1, subs) := hex
  obtain ⟨rm, fc, st1, hrm, hb, hfc, hle, hw, hread, hamt⟩ := EngineMoney.withdrawMargin_spec _ _ _ _ _ _ _ _ hex'
  obtain ⟨hkv, hkt⟩ := withdrawMargin_key _ _ _ _ _ _ _ _ hex'
  try dsimp only at hrm hread
  have hread' : readPosition e1 v s
      = { readPosition w1.engine v s with margin := rm.margin, chk := rm.latest } := by
    have h0 := hread
    generalize readPosition w1.engine v s = P at h0 hkv hkt
    subst hkv hkt
    exact h0
  rw [hkv, hkt] at hread
  have hcfg : e1.cfg = w1.engine.cfg := EngineGuards.withdrawMargin_cfg _ _ _ _ _ _ _ hex'
  have hvm : e1.vammMaps = w1.engine.vammMaps := G9Restr.withdrawMargin_vm _ _ _ _ _ _ _ hex'
  obtain ⟨_, _, hce⟩ := MirrorP.withdrawMargin_inv _ _ _ _ _ _ _ hex'
  have hc := run_coll _ _ _ _ hce hrun
  have he' : w'.engine = e1 := hc.1
  obtain ⟨hmspec1, hlat, hms1, hms2⟩ := EngineMoney.calcRemainMargin_spec _ _ _ rm hrm
  rw [C19.toInt_newNegative] at hms1 hms2
  rw [hkv] at hlat
  have hwal : w'.ledger.balance s = w1.ledger.balance s + amt := by
    have hrun' : execSubs (39 + 1) { w1 with engine := e1 } ENGINE subs = .ok w' := hrun
    obtain ⟨bal, _, hm⟩ := EngineMoney.withdraw_spec _ _ _ _ _ _ _ _ hw
    rcases hm with ⟨_, _, _, _, rfl⟩ | ⟨_, _, rfl⟩
    · obtain ⟨w2, ev, hx, hr2⟩ := run_ce_cons _ _ _ _ _ (MirrorP.CE_ifWithdrawMsg _) hrun'
      obtain ⟨w3, ev3, hx3, hr3⟩ := run_ce_cons _ _ _ _ _ (MirrorP.CE_transferMsg _ _ _) hr2
      rw [WorldInv.execSubs_nil _ _ _ _ hr3]
      have b1 := exec_ifWithdraw_frame _ _ _ _ s _ hx hs2 hs1
      have b2 := exec_transferMsg _ _ _ _ _ _ _ hx3 hs1
      rw [b2, b1]
    · obtain ⟨w3, ev3, hx3, hr3⟩ := run_ce_cons _ _ _ _ _ (MirrorP.CE_transferMsg _ _ _) hrun'
      rw [WorldInv.execSubs_nil _ _ _ _ hr3]
      have b2 := exec_transferMsg _ _ _ _ _ _ _ hx3 hs1
      rw [b2]
  refine ⟨?_, ?_, ?_, ?_, ?_⟩
  · intro hnf
    rcases hled with ⟨_, hl⟩ | ⟨h1, h2, _⟩
    · rw [hwal, hl]
    · exact absurd ⟨h1, h2⟩ hnf
  · intro hf
    rcases hled with ⟨hno, _⟩ | ⟨_, _, g, hg, hl⟩
    · exact absurd hf hno
    · have := (bankSend_bal _ _ _ _ _ hg hs1).2
      rw [hwal, hl]
      omega
  · rw [he', hread, ← a1]
    show (rm.margin : Int) = _
    by_cases hc0 : 0 ≤ -(amt : Int) - EngineMoney.fundingOwed w1.engine (readPosition w1.engine v s)
        + (readPosition w1.engine v s).margin
    · have := (hms1 hc0).1
      omega
    · have := (hms2 (by omega)).2
      omega
  · rw [he', hread, ← a1]
    exact hlat
  · have hrep : (readPosition w1.engine v s).margin ≤ U128.MAX := by rw [a1]; exact MarginRep_read hM v s
    obtain ⟨fc', hfc', efc'⟩ := fc_after_withdraw w1.q w1.engine e1 v s amt rm fc hrm hb hfc hle hread' hcfg hvm hrep hkv
    obtain ⟨c1, c2⟩ := q_out_congr (w := { w1 with engine := e1 }) (w' := w') hc.2.1 hc.2.2.1
    refine ⟨fc', ?_, by omega⟩
    rw [he', qfc_congr w'.q w1.q e1 v s c1 c2]
    exact hfc'

/-! ### DepositMargin -/

/-- **C05, DepositMargin** (Prop form of the two clauses) -/
theorem deposit_tx (w w' : World) (env : Env) (s : Nat) (f : Funds) (v amt : Nat)
    (hs0 : s ≠ 0) (hs1 : s ≠ ENGINE)
    (h : applyTx w env s f (.engine (.depositMargin v amt)) = .ok w') :
    (readPosition w'.engine v s).margin = (readPosition w.engine v s).margin + amt
    ∧ w'.ledger.balance s + amt = w.ledger.balance s := by
  obtain ⟨w1, e1, subs, a1, a2, a3, hled, hex, hrun⟩ := applyTx_engine_inv2 w w' env s f _ h
  have hex' : depositMargin w1.engine env s f v amt = .ok (e1, subs) := hex
  obtain ⟨htr, hread, hamt, hnat, htok⟩ := EngineMoney.depositMargin_spec _ _ _ _ _ _ _ _ hex'
  try dsimp only at htr hread
  have hkv : (readPosition w1.engine v s).vamm = v := by
    rcases EngineMoney.readPosition_key w1.engine v s with hk | hk
    · exact hk.1
    · exfalso
      rw [hk] at htr
      exact hs0 htr.symm
  rw [hkv, htr] at hread
  obtain ⟨_, _, hce⟩ := MirrorP.depositMargin_inv _ _ _ _ _ _ _ hex'
  have hc := run_coll _ _ _ _ hce hrun
  have he' : w'.engine = e1 := hc.1
  refine ⟨by rw [he', hread, ← a1], ?_⟩
  cases hn : w.engine.cfg.native with
  | true =>
    obtain ⟨hm, hfa, _⟩ := hnat (by rw [a1]; exact hn)
    subst hm
    rw [WorldInv.execSubs_nil _ _ _ _ hrun]
    rcases hled with ⟨hno, _⟩ | ⟨_, _, g, hg, hl⟩
    · exact absurd ⟨hn, by rw [hfa]; exact hamt⟩ hno
    · show w1.ledger.balance s + amt = _
      rw [hl]
      rw [hfa] at hg
      exact (bankSend_bal _ _ _ _ _ hg hs1).2
  | false =>
    have hm := htok (by rw [a1]; exact hn)
    subst hm
    have hl1 : w1.ledger = w.ledger := by
      rcases hled with ⟨_, hl⟩ | ⟨h1, _⟩
      · exact hl
      · rw [hn] at h1; cases h1
    have hrun' : execSubs (39 + 1) { w1 with engine := e1 } ENGINE
        [transferFromMsg w1.engine.cfg s ENGINE_ADDR amt] = .ok w' := hrun
    obtain ⟨w3, ev3, hx3, hr3⟩ := run_ce_cons _ _ _ _ _ (MirrorP.CE_transferFromMsg _ _ _ _) hrun'
    rw [WorldInv.execSubs_nil _ _ _ _ hr3]
    have b := exec_transferFrom_token _ _ _ _ _ _ _ (by rw [a1]; exact hn) hx3 hs1
    rw [b]
    show w1.ledger.balance s = _
    rw [hl1]

end Perp.Props.SatC
