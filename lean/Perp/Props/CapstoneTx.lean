/-
  CapstoneTx — the capstone of `Perp/Props/Capstone.lean` under the PER-TRANSACTION curve hypothesis.

  `Capstone.PresOK` has the field `curve : Mirror.CurveRegular w` — of every market of the deployment: reserves
  ≥ one unit AND (fluctuation limit ≠ 0 → spot price ≥ 1).  Here it is replaced by
  `curve : CurveTx.CurveRegularTx w env s tx` (`Perp/Props/CurveTx.lean`): reserves ≥ one unit, and — only if
  the transaction is a ClosePosition that the engine turns into a partial close of a short — the re-quoted base
  amount does not exceed the position.  Everything else is as in `Capstone.lean` §3–§7, same statements:

  * `PresOKTx` / `SideOKTx`; `presOKTx_of_presOK`, `sideOKTx_of_sideOK` (the old side conditions imply the new);
  * `allInv_step_pres_tx`, `allInv_step_tx`    `Capstone.AllInv` is preserved;
  * `ReachableTx`, `reachable_allInv_tx`, `reachableTx_of_reachable`;
  * `reachable_sat_tx`   THE CAPSTONE, `reachable_clean_tx`, `reachable_C11_tx`, `reachable_Cxx_tx`;
  * `ReachablePTx`, `reachablePTx_sat`;
  * `history_sat_tx`, `history_clean_tx`;
  * the old theorems as corollaries (`reachable_sat_of_old`, `history_sat_of_old`).

  `AllInv`, `Deployed`, `knownTags`, `CleanChecks`, `History`, `run` are those of `Capstone.lean`.
-/
import Perp.Props.Capstone
import Perp.Props.CurveTx
import Perp.Props.CurveTxSat

namespace Perp.Props.CapstoneTx
open Perp Perp.World Perp.Engine Perp.Spec Perp.Props.ModelStep
open Perp.Props.Capstone
open Perp.Props.CurveTx (CurveRegularTx)

/-! ## 3'. the per-step side conditions -/

/-- `Capstone.PresOK` with the curve hypothesis per transaction -/
structure PresOKTx (w : World) (env : Env) (s : Nat) (tx : Tx) : Prop where
  /-- the sender is a user account, not a contract of the deployment (as `Capstone.PresOK.user`) -/
  user : UserSender w s
  /-- owners do not re-wire a vAMM to another margin engine (as `Capstone.PresOK.notRewire`) -/
  notRewire : Mirror.NotRewire tx
  /-- reserves of every market hold at least one whole unit; and IF this transaction is a ClosePosition by `s`
      that the engine turns into a partial close of a SHORT, the base amount the vAMM re-quotes for the fraction's
      notional does not exceed the position's size.  Preservation of `Mirror.Inv` (`CurveTx.inv_run_tx`);
      refinement: `sat_C02` (`CurveTx.sat_C02_tx`), `sat_C20` (`CurveTx.sat_C20_tx`, the reserve part only). -/
  curve : CurveRegularTx w env s tx
  /-- the chain clock does not run backwards (as `Capstone.PresOK.clock`) -/
  clock : SatA.ClockMono w env

/-- `Capstone.SideOK` with the curve hypothesis per transaction -/
structure SideOKTx (w : World) (env : Env) (s : Nat) (f : Funds) (tx : Tx) : Prop extends PresOKTx w env s tx where
  /-- as `Capstone.SideOK.wired` -/
  wired : SatA.WiredPools w
  /-- as `Capstone.SideOK.nonZero` -/
  nonZero : SatC.NonZeroSender s

/-- the old preservation conditions imply the new ones -/
theorem presOKTx_of_presOK {w : World} {env : Env} {s : Nat} {tx : Tx} (h : PresOK w env s tx) : PresOKTx w env s tx :=
  ⟨h.user, h.notRewire, CurveTx.curveRegularTx_of_curveRegular h.curve, h.clock⟩

/-- **the old side conditions imply the new ones** -/
theorem sideOKTx_of_sideOK {w : World} {env : Env} {s : Nat} {f : Funds} {tx : Tx} (h : SideOK w env s f tx) :
    SideOKTx w env s f tx :=
  { toPresOKTx := presOKTx_of_presOK h.toPresOK, wired := h.wired, nonZero := h.nonZero }

/-! ## 4'. preservation -/

theorem allInv_step_pres_tx {w : World} {env : Env} {s : Nat} {f : Funds} {tx : Tx}
    (h : AllInv w) (hs : PresOKTx w env s tx) : AllInv (step w env s f tx) where
  wf := CapLedger.wf_step w env s f tx h.wf
  vammKeys := SatA.vammKeysNodup_step w env s f tx h.vammKeys
  mirror := CurveTx.inv_run_tx w env s f tx h.mirror hs.user.1 hs.notRewire hs.curve
  traders := SatA.tradersAreUsers_step w env s f tx h.wf hs.user h.traders
  snap := SatA.snapInvW_step w env s f tx h.snap hs.clock
  marginRep := SatC.marginRep_step w env s f tx h.marginRep
  config := SatC.allConfigOK_step w env s f tx h.config
  noContract := SatD.noContractPositions_step w env s f tx h.wf.noResidue h.noContract (SatD.Outsider_of_user hs.user)
  total := SatD.totalBounded_step w env s f tx h.wf.balNodup h.total
  registry := SatF.regInv_step w env s f tx h.registry
  buffer := SatBuffer.bufferHalf_step w env s f tx h.buffer

theorem allInv_step_tx {w : World} {env : Env} {s : Nat} {f : Funds} {tx : Tx}
    (h : AllInv w) (hs : SideOKTx w env s f tx) : AllInv (step w env s f tx) :=
  allInv_step_pres_tx h hs.toPresOKTx

/-! ## 5'. reachability -/

/-- worlds reachable from a deployment by transactions that satisfy the per-transaction side conditions -/
inductive ReachableTx : World → Prop
  | init {w : World} : Deployed w → ReachableTx w
  | step {w : World} {env : Env} {s : Nat} {f : Funds} {tx : Tx} :
      ReachableTx w → SideOKTx w env s f tx → ReachableTx (World.step w env s f tx)

theorem reachable_allInv_tx {w : World} (h : ReachableTx w) : AllInv w := by
  induction h with
  | init hd => exact deployed_allInv hd
  | step _ hs ih => exact allInv_step_tx ih hs

/-- every world reachable in the old sense is reachable in the new -/
theorem reachableTx_of_reachable {w : World} (h : Reachable w) : ReachableTx w := by
  induction h with
  | init hd => exact ReachableTx.init hd
  | step _ hs ih => exact ReachableTx.step ih (sideOKTx_of_sideOK hs)

/-! ## 6'. the capstone -/

/-- the clean properties from the invariants and the per-transaction side conditions -/
theorem allInv_clean_core_tx {w : World} (hI : AllInv w) {env : Env} {s : Nat} (f : Funds) {tx : Tx}
    (hp : PresOKTx w env s tx) (hw : SatA.WiredPools w) (h0 : SatC.NonZeroSender s) :
    CleanChecks (modelStep w env s f tx) where
  c01 := SatA.sat_C01 w env s f tx hI.wf hI.vammKeys
  c02 := CurveTx.sat_C02_tx w env s f tx hI.wf hI.mirror hp.user.1 hp.curve (Or.inr hI.vammKeys)
  c03 := SatA.sat_C03 w env s f tx hI.wf hw hI.traders
  c04 := SatB.sat_C04 w env s f tx hI.wf ⟨hw.ifd, hw.fp⟩ (SatB.outside_of_user hp.user)
  c05 := SatC.sat_C05 w env s f tx hI.wf hI.marginRep hp.user h0
  c06 := SatD.sat_C06' w env s f tx hI.wf hI.config.1 hI.noContract hp.user
  c08 := SatA.sat_C08 w env s f tx hI.wf
  c09 := SatF.sat_C09 w env s f tx hI.wf
  c10 := SatA.sat_C10 w env s f tx hI.wf
  c12 := SatB.sat_C12 w env s f tx hI.wf ⟨hw.ifd, hw.fp⟩ (SatB.outside_of_user hp.user)
  c16 := SatC.sat_C16 w env s f tx hI.wf
  c17 := SatE.sat_C17 w env s f tx hI.wf hI.signDir
  c18 := SatA.sat_C18 w env s f tx hI.wf hI.snap hp.clock
  c20 := CurveTx.sat_C20_tx w env s f tx hI.wf hI.config hI.signDir hp.curve
  c09live := CapClose.sat_C09_live w env s f tx
  c16live := CapClose.sat_C16_live w env s f tx
  c11close := CapClose.sat_C11_close w env s f tx

/-- C11 (no precondition of its own) -/
theorem allInv_C11_tx {w : World} (hI : AllInv w) {env : Env} {s : Nat} {f : Funds} {tx : Tx}
    (hs : SideOKTx w env s f tx) : Spec.C11.check (modelStep w env s f tx) = [] :=
  SatE.sat_C11 w env s f tx hI.wf hI.buffer (senderOutside hs.wired hs.user) hI.noZeroVamm

/-- the capstone from the invariants -/
theorem allInv_sat_tx {w : World} (hI : AllInv w) {env : Env} {s : Nat} {f : Funds} {tx : Tx}
    (hs : SideOKTx w env s f tx) :
    ∀ pc ∈ Spec.allChecks (modelStep w env s f tx), ∀ tag ∈ pc.2, tag ∈ knownTags := by
  refine allChecks_sub _ _ (allInv_clean_core_tx hI f hs.toPresOKTx hs.wired hs.nonZero) ?_ ?_ ?_ ?_
  · exact mem_of_sub (by decide) (SatD.sat_C07_general w env s f tx)
  · rw [allInv_C11_tx hI hs]; intro t ht; cases ht
  · exact mem_of_sub (by decide) (SatF.tags_C14 w env s f tx hI.wf hI.registry)
  · exact mem_of_sub (by decide) (SatE.C15_tags w env s f tx hI.wf hI.signDir)

/-- **THE CAPSTONE, per-transaction curve hypothesis.**  On every world reachable from a deployment (by steps
    satisfying `SideOKTx`), for every transaction satisfying `SideOKTx`, whatever any check of `Spec.allChecks`
    reports on the model's step is one of the five known tags. -/
theorem reachable_sat_tx (w : World) (hr : ReachableTx w) (env : Env) (s : Nat) (f : Funds) (tx : Tx)
    (hs : SideOKTx w env s f tx) :
    ∀ pc ∈ Spec.allChecks (modelStep w env s f tx), ∀ tag ∈ pc.2, tag ∈ knownTags :=
  allInv_sat_tx (reachable_allInv_tx hr) hs

/-- the clean corollary -/
theorem reachable_clean_tx (w : World) (hr : ReachableTx w) (env : Env) (s : Nat) (f : Funds) (tx : Tx)
    (hs : SideOKTx w env s f tx) : CleanChecks (modelStep w env s f tx) :=
  allInv_clean_core_tx (reachable_allInv_tx hr) f hs.toPresOKTx hs.wired hs.nonZero

theorem reachable_C11_tx (w : World) (hr : ReachableTx w) (env : Env) (s : Nat) (f : Funds) (tx : Tx)
    (hs : SideOKTx w env s f tx) : Spec.C11.check (modelStep w env s f tx) = [] :=
  allInv_C11_tx (reachable_allInv_tx hr) hs

/-! the fourteen properties one by one -/

section
variable (w : World) (hr : ReachableTx w) (env : Env) (s : Nat) (f : Funds) (tx : Tx) (hs : SideOKTx w env s f tx)
include hr hs

theorem reachable_C01_tx : Spec.C01.check (modelStep w env s f tx) = [] := (reachable_clean_tx w hr env s f tx hs).c01
theorem reachable_C02_tx : Spec.C02.check (modelStep w env s f tx) = [] := (reachable_clean_tx w hr env s f tx hs).c02
theorem reachable_C03_tx : Spec.C03.check (modelStep w env s f tx) = [] := (reachable_clean_tx w hr env s f tx hs).c03
theorem reachable_C04_tx : Spec.C04.check (modelStep w env s f tx) = [] := (reachable_clean_tx w hr env s f tx hs).c04
theorem reachable_C05_tx : Spec.C05.check (modelStep w env s f tx) = [] := (reachable_clean_tx w hr env s f tx hs).c05
theorem reachable_C06_tx : Spec.C06.check (modelStep w env s f tx) = [] := (reachable_clean_tx w hr env s f tx hs).c06
theorem reachable_C08_tx : Spec.C08.check (modelStep w env s f tx) = [] := (reachable_clean_tx w hr env s f tx hs).c08
theorem reachable_C09_tx : Spec.C09.check (modelStep w env s f tx) = [] := (reachable_clean_tx w hr env s f tx hs).c09
theorem reachable_C10_tx : Spec.C10.check (modelStep w env s f tx) = [] := (reachable_clean_tx w hr env s f tx hs).c10
theorem reachable_C12_tx : Spec.C12.check (modelStep w env s f tx) = [] := (reachable_clean_tx w hr env s f tx hs).c12
theorem reachable_C16_tx : Spec.C16.check (modelStep w env s f tx) = [] := (reachable_clean_tx w hr env s f tx hs).c16
theorem reachable_C17_tx : Spec.C17.check (modelStep w env s f tx) = [] := (reachable_clean_tx w hr env s f tx hs).c17
theorem reachable_C18_tx : Spec.C18.check (modelStep w env s f tx) = [] := (reachable_clean_tx w hr env s f tx hs).c18
theorem reachable_C20_tx : Spec.C20.check (modelStep w env s f tx) = [] := (reachable_clean_tx w hr env s f tx hs).c20

/-! the three properties with a known defect, in the sub-case in which the model is clean -/

/-- C07 under the sub-case `SatD.LiqSubCase` -/
theorem reachable_C07_tx (hsub : ∀ v t l, tx = .engine (.liquidate v t l) → SatD.LiqSubCase w env f v t) :
    Spec.C07.check (modelStep w env s f tx) = [] :=
  SatD.sat_C07 w env s f tx (reachable_allInv_tx hr).wf (reachable_allInv_tx hr).total hs.wired.ife hsub

omit hs in
/-- C14 when the shutdown is attempted with every registered vAMM still open -/
theorem reachable_C14_tx (hpre : SatF.ShutdownPre w tx) : Spec.C14.check (modelStep w env s f tx) = [] :=
  SatF.sat_C14 w env s f tx (reachable_allInv_tx hr).wf (reachable_allInv_tx hr).registry hpre

omit hs in
/-- C15 when the transaction is not a ClosePosition on the partial-close path -/
theorem reachable_C15_tx (hnp : SatC15.NoPartialClose w env s tx) : Spec.C15.check (modelStep w env s f tx) = [] :=
  SatE.sat_C15 w env s f tx (reachable_allInv_tx hr).wf (reachable_allInv_tx hr).signDir hnp

end

/-! ### the weaker notion of reachability (`Capstone.ReachableP`) -/

inductive ReachablePTx : World → Prop
  | init {w : World} : Deployed w → ReachablePTx w
  | step {w : World} {env : Env} {s : Nat} {f : Funds} {tx : Tx} :
      ReachablePTx w → PresOKTx w env s tx → ReachablePTx (World.step w env s f tx)

theorem reachablePTx_of_reachableTx {w : World} (h : ReachableTx w) : ReachablePTx w := by
  induction h with
  | init hd => exact ReachablePTx.init hd
  | step _ hs ih => exact ReachablePTx.step ih hs.toPresOKTx

theorem reachablePTx_of_reachableP {w : World} (h : ReachableP w) : ReachablePTx w := by
  induction h with
  | init hd => exact ReachablePTx.init hd
  | step _ hs ih => exact ReachablePTx.step ih (presOKTx_of_presOK hs)

theorem reachablePTx_allInv {w : World} (h : ReachablePTx w) : AllInv w := by
  induction h with
  | init hd => exact deployed_allInv hd
  | step _ hs ih => exact allInv_step_pres_tx ih hs

/-- the capstone for the weaker reachability -/
theorem reachablePTx_sat (w : World) (hr : ReachablePTx w) (env : Env) (s : Nat) (f : Funds) (tx : Tx)
    (hs : SideOKTx w env s f tx) :
    ∀ pc ∈ Spec.allChecks (modelStep w env s f tx), ∀ tag ∈ pc.2, tag ∈ knownTags :=
  allInv_sat_tx (reachablePTx_allInv hr) hs

/-! ## 7'. histories -/

/-- the per-transaction side conditions hold at each step of the history -/
def SideAlongTx (w0 : World) (txs : History) : Prop :=
  ∀ (pre : History) (t : Env × Nat × Funds × Tx) (post : History), txs = pre ++ t :: post →
    SideOKTx (run w0 pre) t.1 t.2.1 t.2.2.1 t.2.2.2

theorem sideAlongTx_of_sideAlong {w0 : World} {txs : History} (h : SideAlong w0 txs) : SideAlongTx w0 txs :=
  fun pre t post e => sideOKTx_of_sideOK (h pre t post e)

theorem reachable_run_tx (txs : History) :
    ∀ (w0 : World), ReachableTx w0 → SideAlongTx w0 txs → ReachableTx (run w0 txs) := by
  induction txs with
  | nil => intro w0 h _; exact h
  | cons t txs ih =>
    intro w0 h hside
    show ReachableTx (run (step w0 t.1 t.2.1 t.2.2.1 t.2.2.2) txs)
    refine ih _ (ReachableTx.step h (hside [] t txs rfl)) ?_
    intro pre t' post e
    exact hside (t :: pre) t' post (by rw [e]; rfl)

theorem sideAlongTx_prefix {w0 : World} {pre post : History} (h : SideAlongTx w0 (pre ++ post)) :
    SideAlongTx w0 pre := by
  intro p t q e
  exact h p t (q ++ post) (by rw [e]; simp)

/-- every world along a history from a deployment is reachable … -/
theorem history_reachable_tx (w0 : World) (h0 : Deployed w0) (txs : History) (hside : SideAlongTx w0 txs)
    (pre post : History) (e : txs = pre ++ post) : ReachableTx (run w0 pre) :=
  reachable_run_tx pre w0 (ReachableTx.init h0) (sideAlongTx_prefix (e ▸ hside))

/-- … so satisfies every invariant … -/
theorem history_allInv_tx (w0 : World) (h0 : Deployed w0) (txs : History) (hside : SideAlongTx w0 txs) :
    AllInv (run w0 txs) :=
  reachable_allInv_tx (history_reachable_tx w0 h0 txs hside txs [] (by simp))

/-- **… and along any history from a deployment, with the per-transaction side conditions at each step, every
    tag any check reports on any of its transactions is one of the known tags** (the statement of
    `Capstone.history_sat` with `SideOKTx` for `SideOK`) -/
theorem history_sat_tx (w0 : World) (h0 : Deployed w0) (txs : List (Env × Nat × Funds × Tx))
    (hside : ∀ (pre : List (Env × Nat × Funds × Tx)) (t : Env × Nat × Funds × Tx) (post : List (Env × Nat × Funds × Tx)),
        txs = pre ++ t :: post →
        let w := pre.foldl (fun w t => step w t.1 t.2.1 t.2.2.1 t.2.2.2) w0
        SideOKTx w t.1 t.2.1 t.2.2.1 t.2.2.2) :
    ∀ (pre : List (Env × Nat × Funds × Tx)) (t : Env × Nat × Funds × Tx) (post : List (Env × Nat × Funds × Tx)),
      txs = pre ++ t :: post →
      let w := pre.foldl (fun w t => step w t.1 t.2.1 t.2.2.1 t.2.2.2) w0
      ∀ pc ∈ Spec.allChecks (modelStep w t.1 t.2.1 t.2.2.1 t.2.2.2), ∀ tag ∈ pc.2, tag ∈ knownTags := by
  intro pre t post e
  exact reachable_sat_tx _ (history_reachable_tx w0 h0 txs hside pre (t :: post) e) _ _ _ _ (hside pre t post e)

/-- the clean properties along a history -/
theorem history_clean_tx (w0 : World) (h0 : Deployed w0) (txs : History) (hside : SideAlongTx w0 txs)
    (pre : History) (t : Env × Nat × Funds × Tx) (post : History) (e : txs = pre ++ t :: post) :
    CleanChecks (modelStep (run w0 pre) t.1 t.2.1 t.2.2.1 t.2.2.2)
    ∧ Spec.C11.check (modelStep (run w0 pre) t.1 t.2.1 t.2.2.1 t.2.2.2) = [] :=
  ⟨reachable_clean_tx _ (history_reachable_tx w0 h0 txs hside pre (t :: post) e) _ _ _ _ (hside pre t post e),
   reachable_C11_tx _ (history_reachable_tx w0 h0 txs hside pre (t :: post) e) _ _ _ _ (hside pre t post e)⟩

/-! ## the old theorems are corollaries -/

/-- `Capstone.reachable_sat` from `reachable_sat_tx` -/
theorem reachable_sat_of_old (w : World) (hr : Reachable w) (env : Env) (s : Nat) (f : Funds) (tx : Tx)
    (hs : SideOK w env s f tx) :
    ∀ pc ∈ Spec.allChecks (modelStep w env s f tx), ∀ tag ∈ pc.2, tag ∈ knownTags :=
  reachable_sat_tx w (reachableTx_of_reachable hr) env s f tx (sideOKTx_of_sideOK hs)

/-- `Capstone.history_sat` from `history_sat_tx` -/
theorem history_sat_of_old (w0 : World) (h0 : Deployed w0) (txs : List (Env × Nat × Funds × Tx))
    (hside : ∀ (pre : List (Env × Nat × Funds × Tx)) (t : Env × Nat × Funds × Tx) (post : List (Env × Nat × Funds × Tx)),
        txs = pre ++ t :: post →
        let w := pre.foldl (fun w t => step w t.1 t.2.1 t.2.2.1 t.2.2.2) w0
        SideOK w t.1 t.2.1 t.2.2.1 t.2.2.2) :
    ∀ (pre : List (Env × Nat × Funds × Tx)) (t : Env × Nat × Funds × Tx) (post : List (Env × Nat × Funds × Tx)),
      txs = pre ++ t :: post →
      let w := pre.foldl (fun w t => step w t.1 t.2.1 t.2.2.1 t.2.2.2) w0
      ∀ pc ∈ Spec.allChecks (modelStep w t.1 t.2.1 t.2.2.1 t.2.2.2), ∀ tag ∈ pc.2, tag ∈ knownTags :=
  history_sat_tx w0 h0 txs (fun pre t post e => sideOKTx_of_sideOK (hside pre t post e))

end Perp.Props.CapstoneTx
