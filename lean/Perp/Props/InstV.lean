/-
  What a vAMM stores at instantiation, field by field (the statement behind the driver's deployment correspondence, DESIGN §4.2
  item 6): an accepted `instantiate` stores exactly the message's ratios, reserves and funding period under the names the rest of
  the model (and every C12 / C15 / C11 / C20 clause) reads them by; caps start at 0, the market starts closed, the sender owns it.
-/
import Perp.Model.Vamm

namespace Perp.Props.InstV
open Perp Perp.Vamm

theorem instantiate_fields (env : Env) (s : Nat) (m : InstantiateMsg) (v : V) (h : instantiate env s m = .ok v) :
    v.cfg.toll = m.toll ∧ v.cfg.spread = m.spread ∧ v.cfg.fluct = m.fluct ∧ v.cfg.fundingPeriod = m.fundingPeriod
    ∧ v.cfg.fundingBuffer = m.fundingPeriod / 2 ∧ v.cfg.decimals = 10 ^ m.decimalPlaces
    ∧ v.st.quote = m.quoteReserve ∧ v.st.base = m.baseReserve ∧ v.cfg.owner = s
    ∧ v.cfg.holdingCap = 0 ∧ v.cfg.oiCap = 0 ∧ v.st.isOpen = false ∧ v.st.net = Integer.zero
    ∧ v.cfg.pricefeed = m.pricefeed ∧ v.cfg.marginEngine = m.marginEngine.getD 0 ∧ v.cfg.insuranceFund = m.insuranceFund.getD 0 := by
  unfold instantiate at h
  simp only [] at h
  split at h
  · cases h
  split at h
  · cases h
  split at h
  · cases h
  split at h
  · cases h
  injection h with h
  subst h
  simp

/-- a message whose two fee ratios differ -/
def msgX : InstantiateMsg :=
  { decimalPlaces := 6, pricefeed := 4, marginEngine := some 1, insuranceFund := some 2, quoteReserve := 10000000,
    baseReserve := 1000000, fundingPeriod := 3600, toll := 30000, spread := 10000, fluct := 0 }

/-- the two fee ratios are NOT interchangeable: the stored toll is the message's toll, the stored spread its spread -/
example : (match instantiate ⟨1, 1⟩ 7 msgX with | .ok v => v.cfg.toll == 30000 && v.cfg.spread == 10000 | .error _ => false) = true := by decide +kernel

end Perp.Props.InstV
