/-
  SatC17 — the model's step against `Spec.C17.check` (engine part: the caller's limit is applied unchanged).
-/
import Perp.Props.SatFlows

namespace Perp.Props.SatC17
open Perp Perp.World Perp.Engine Perp.Spec Perp.Spec.W Perp.Props.ModelStep
open Perp.Props.Dispatch Perp.Props.SatTrace Perp.Props.SatFlows
open Perp.Props.MirrorP (AllCE SD SignDirE)

/- (The former sub-case hypothesis `NoStaleOpposite` — "no stored record of size zero whose direction is
   opposite to the order's side" — is gone: `open_position` now treats a stored record of size zero like an
   absent one, so such an order takes the increase path and its `swap_input` carries the caller's limit;
   the reversal path is only taken for a record of non-zero size, where — under `SignDir` — the position
   flips sign or ends at zero.  `SatEWitness.c17_witness` replays the former counterexample.) -/

theorem hasPos_of_vamm_ne (w : World) (v t : Nat) (h : (readPosition w.engine v t).vamm ≠ 0) :
    W.hasPos w v t = true := by
  cases hh : W.hasPos w v t with
  | true => rfl
  | false =>
    rw [hasPos_false_read w v t hh] at h
    exact absurd rfl h

theorem toInt_zero_iff (a : Integer) : a.toInt = 0 ↔ a.value = 0 := by
  have := C19.toInt_natAbs a
  omega

/-- OpenPosition with a non-zero base limit: the position either flips sign, ends at zero, or moves by a
    base amount on the right side of the limit -/
theorem open_core (w w' : World) (env : Env) (s : Nat) (f : Funds) (v : Nat) (side : Side) (m l b : Nat)
    (h : applyTx w env s f (.engine (.openPosition v side m l b)) = .ok w')
    (hsd : SignDirE w.engine) (hb : b ≠ 0) :
    (readPosition w.engine v s).size.toInt * (readPosition w'.engine v s).size.toInt < 0
    ∨ (readPosition w'.engine v s).size.toInt = 0
    ∨ ((side = .buy → b ≤ ((readPosition w'.engine v s).size.toInt - (readPosition w.engine v s).size.toInt).natAbs)
       ∧ (side = .sell → ((readPosition w'.engine v s).size.toInt - (readPosition w.engine v s).size.toInt).natAbs ≤ b)) := by
  obtain ⟨w1, e1, x, sw, msgs, hst, _, hxv, hex, hsw, sv, st, ss, hpos, hcfg, hcase⟩ :=
    open_flow w w' env s f v side m l b h
  have hrd : readPosition e1 v s = readPosition w.engine v s := WorldInv.rp_same v s hpos
  rcases hcase with ⟨id, hid, x', bo, w2, e3, subs3, hswap, hrep, _, he3, _⟩
      | ⟨⟨hnzp, hdir⟩, x1, qo, w2, e3, subs3, hswap, hrep, hcase2⟩
  · -- increase / reduce: one swap with the caller's limit
    right; right
    obtain ⟨⟨p', hp', pv, pt, psz, _⟩, _⟩ := MirrorP.updatePositionReply_eff _ _ _ _ _ _ sw hsw _ hrep
    dsimp only at hp' pv pt psz
    rw [sv, st, ss] at pv pt psz
    have hk := EngineMoney.getPosition_key env e1 v s side
    have hread : readPosition w'.engine v s = p' := by
      rw [he3]; exact read_of_store e1 e3 p' v s hp' (pv.trans hk.1) (pt.trans hk.2)
    rw [hread, psz, MirrorP.getPosition_size, hrd, MirrorP.signedOutput_toInt]
    obtain ⟨hDl, _, hm0⟩ := EngineGuards.open_leverage_bounds _ _ _ _ _ _ _ _ _ _ _ _ hex
    obtain ⟨_, _, _, hD0, _⟩ := openPosition_inv2 _ _ _ _ _ _ _ _ _ _ _ hex
    have hN : m * l / w.engine.cfg.decimals ≠ 0 := by
      have : w.engine.cfg.decimals ≤ m * l := by
        calc w.engine.cfg.decimals ≤ l := hDl
          _ = 1 * l := (Nat.one_mul l).symm
          _ ≤ m * l := Nat.mul_le_mul_right l (by omega)
      have := Nat.div_pos this (by omega)
      omega
    obtain ⟨bo', _, _, ho, hlim⟩ := C17.swapInput_inv _ _ _ _ _ _ _ _ _ hswap
    injection ho with _ _ hbo
    subst hbo
    have hl := hlim hb hN
    cases side with
    | buy =>
      have := hl.1 rfl
      refine ⟨fun _ => ?_, (fun hh => by cases hh)⟩
      simp only []
      omega
    | sell =>
      have := hl.2 rfl
      refine ⟨(fun hh => by cases hh), fun _ => ?_⟩
      simp only []
      omega
  · -- reversal
    obtain ⟨p', hp', pv, pt, psz, _⟩ := MirrorP.reversePositionReply_eff _ _ _ _ sw hsw _ hrep
    dsimp only at hp' pv pt psz
    rw [sv, st, ss] at pv pt
    have hk := EngineMoney.getPosition_key env e1 v s side
    have hread3 : readPosition e3 v s = p' := read_of_store e1 e3 p' v s hp' (pv.trans hk.1) (pt.trans hk.2)
    rcases hcase2 with ⟨_, _, he3, _, _⟩ | ⟨fm, sw', x2, bo2, w4, e5, subs5, _, _, hsw', sv', st', ss', _, hrep5, _, he5, _⟩
    · right; left
      rw [he3, hread3]
      exact psz
    · obtain ⟨⟨p'', hp'', pv', pt', psz', _⟩, _⟩ := MirrorP.updatePositionReply_eff _ _ _ _ _ _ sw' hsw' _ hrep5
      dsimp only at hp'' pv' pt' psz'
      rw [sv', st', ss'] at pv' pt' psz'
      have hk3 := EngineMoney.getPosition_key env e3 v s side
      have hread5 : readPosition w'.engine v s = p'' := by
        rw [he5]; exact read_of_store e3 e5 p'' v s hp'' (pv'.trans hk3.1) (pt'.trans hk3.2)
      rw [MirrorP.getPosition_size, hread3, psz, MirrorP.signedOutput_toInt] at psz'
      rw [hread5, psz']
      -- the stored direction is the opposite of the order's side
      rw [MirrorP.getPosition_direction] at hdir
      have hgd := MirrorP.gdir_ne hdir
      rw [hgd] at hdir
      have hSD := MirrorP.SD_read w.engine v s hsd
      -- the reversal path is only taken for a record of non-zero size
      have hnz : (readPosition w.engine v s).size.toInt ≠ 0 := by
        intro h0
        rw [MirrorP.getPosition_size] at hnzp
        exact hnzp ((C19.isZero_iff _).2 h0)
      rcases Int.lt_or_gt_of_ne hnz with hneg | hposi
      · have hd := hSD.2 hneg
        cases side with
        | sell => exact absurd hd hdir
        | buy =>
          simp only []
          rcases Nat.eq_zero_or_pos bo2 with h0 | hp
          · right; left; omega
          · left
            exact Int.mul_neg_of_neg_of_pos hneg (by omega)
      · have hd := hSD.1 hposi
        cases side with
        | buy => exact absurd hd hdir
        | sell =>
          simp only []
          rcases Nat.eq_zero_or_pos bo2 with h0 | hp
          · right; left; omega
          · left
            exact Int.mul_neg_of_pos_of_neg hposi (by omega)

/-- whole-position ClosePosition with a non-zero quote limit: the quote asset the vAMM exchanged is on
    the right side of the limit -/
theorem close_core (w w' : World) (env : Env) (s : Nat) (f : Funds) (v l : Nat)
    (h : applyTx w env s f (.engine (.closePosition v l)) = .ok w')
    (hl : l ≠ 0) (hnp : W.hasPos w' v s = false) :
    match (readPosition w.engine v s).direction with
    | .addToAmm => l ≤ (W.quoteOf w' v - W.quoteOf w v).natAbs
    | .removeFromAmm => (W.quoteOf w' v - W.quoteOf w v).natAbs ≤ l := by
  obtain ⟨w1, e1, x, sw, msgs, over, hst, _, hxv, hnz, pv, pt, hex, hsw, sv, st, hpos, hcfg, _, _, _, hcase⟩ :=
    close_flow w w' env s f v l h
  rcases hcase with ⟨_, _, x', qo, w2, e3, subs3, hswap, _, _, _, hrep, _, he3, hv', _⟩
      | ⟨_, _, N, x', bo, w2, e3, subs3, hswap, hrep, _, he3, _⟩
  · have hq : W.quoteOf w v = x.st.quote := by unfold W.quoteOf; rw [hxv]
    have hq' : W.quoteOf w' v = x'.st.quote := by unfold W.quoteOf; rw [hv']
    rw [hq, hq']
    obtain ⟨q, _, hu, ho, hlim⟩ := C17.swapOutput_inv _ _ _ _ _ _ _ _ hswap
    injection ho with _ hqo _
    subst hqo
    have hl' := hlim hl hnz
    cases hd : (readPosition w.engine v s).direction with
    | addToAmm =>
      rw [hd] at hu
      obtain ⟨_, h2, h3⟩ := C17.updateReserve_remove _ _ _ _ _ _ hu
      have := hl'.1 hd
      simp only []
      omega
    | removeFromAmm =>
      rw [hd] at hu
      obtain ⟨h1, _, _⟩ := C17.updateReserve_add _ _ _ _ _ _ hu
      have := hl'.2 hd
      simp only []
      omega
  · exfalso
    obtain ⟨⟨p', hp', pv', pt', _, _⟩, _⟩ := MirrorP.partialClosePositionReply_eff _ _ _ _ _ sw hsw _ hrep
    dsimp only at hp' pv' pt'
    have hk := EngineMoney.getPosition_key env e1 sw.vamm sw.trader sw.side
    have := hasPos_store e1 e3 w' p' v s he3 hp' ((pv'.trans hk.1).trans sv) ((pt'.trans hk.2).trans st)
    rw [this] at hnp
    cases hnp


/-! ### the check -/

theorem mem_ite_nil {c : Prop} [Decidable c] {l : List String} {t : String}
    (h : t ∈ (if c then [] else l)) : t ∈ l := by
  split at h
  · cases h
  · exact h

theorem mem_chk {c : Bool} {tag t : String} (h : t ∈ W.chk c tag) : t = tag := by
  unfold W.chk at h
  split at h
  · cases h
  · simpa using h

theorem chk_true (c : Bool) (tag : String) (h : c = true) : W.chk c tag = [] := by
  unfold W.chk; rw [h]; rfl

theorem check_open (w w' : World) (env : Env) (s : Nat) (f : Funds) (v : Nat) (side : Side) (m l b : Nat)
    (hc : b ≠ 0 → (readPosition w.engine v s).size.toInt * (readPosition w'.engine v s).size.toInt < 0
      ∨ (readPosition w'.engine v s).size.toInt = 0
      ∨ ((side = .buy → b ≤ ((readPosition w'.engine v s).size.toInt - (readPosition w.engine v s).size.toInt).natAbs)
         ∧ (side = .sell → ((readPosition w'.engine v s).size.toInt - (readPosition w.engine v s).size.toInt).natAbs ≤ b))) :
    Spec.C17.check (okStep w w' env s f (.engine (.openPosition v side m l b))) = [] := by
  simp only [Spec.C17.check, W.engineMsg, W.pos, okStep]
  by_cases hb : b = 0
  · simp [hb]
  · rcases hc hb with h1 | h2 | h3
    · simp [hb, h1]
    · simp [hb, h2]
    · cases side with
      | buy =>
        have := h3.1 rfl
        simp [hb, W.chk, this]
      | sell =>
        have := h3.2 rfl
        simp [hb, W.chk, this]

theorem check_close (w w' : World) (env : Env) (s : Nat) (f : Funds) (v l : Nat)
    (hc : l ≠ 0 → W.hasPos w' v s = false →
      match (readPosition w.engine v s).direction with
      | .addToAmm => l ≤ (W.quoteOf w' v - W.quoteOf w v).natAbs
      | .removeFromAmm => (W.quoteOf w' v - W.quoteOf w v).natAbs ≤ l) :
    Spec.C17.check (okStep w w' env s f (.engine (.closePosition v l))) = [] := by
  simp only [Spec.C17.check, W.engineMsg, W.pos, W.quoteMoved, okStep]
  by_cases hl : l = 0
  · simp [hl]
  · by_cases hp : W.hasPos w' v s = true
    · simp [hp]
    · have hp' : W.hasPos w' v s = false := by simpa using hp
      have := hc hl hp'
      cases hd : (readPosition w.engine v s).direction with
      | addToAmm =>
        rw [hd] at this
        simp only [] at this
        simp [hl, W.chk, this]
      | removeFromAmm =>
        rw [hd] at this
        simp only [] at this
        simp [hl, W.chk, this]

theorem check_other (st : Step) (h1 : ∀ v side m l b, st.tx ≠ .engine (.openPosition v side m l b))
    (h2 : ∀ v l, st.tx ≠ .engine (.closePosition v l)) : Spec.C17.check st = [] := by
  unfold Spec.C17.check W.engineMsg
  split
  · rfl
  · split
    · rename_i hm
      split at hm
      · rename_i m' htx
        injection hm with hm
        subst hm
        exact absurd htx (h1 _ _ _ _ _)
      · cases hm
    · rename_i hm
      split at hm
      · rename_i m' htx
        injection hm with hm
        subst hm
        exact absurd htx (h2 _ _)
      · cases hm
    · rfl

/-- **C17, clean form**: under the sign/direction invariant -/
theorem sat_C17 (w : World) (env : Env) (s : Nat) (f : Funds) (tx : Tx)
    (hsd : SignDirE w.engine) :
    Spec.C17.check (modelStep w env s f tx) = [] := by
  cases hx : applyTx w env s f tx with
  | error e =>
    rw [modelStep_err hx]
    unfold Spec.C17.check errStep
    rfl
  | ok w' =>
    rw [modelStep_ok hx]
    by_cases ho : ∃ v side m l b, tx = .engine (.openPosition v side m l b)
    · obtain ⟨v, side, m, l, b, rfl⟩ := ho
      exact check_open w w' env s f v side m l b
        (fun hb => open_core w w' env s f v side m l b hx hsd hb)
    · by_cases hcl : ∃ v l, tx = .engine (.closePosition v l)
      · obtain ⟨v, l, rfl⟩ := hcl
        exact check_close w w' env s f v l (fun hl hp => close_core w w' env s f v l hx hl hp)
      · exact check_other _ (fun v side m l b hh => ho ⟨v, side, m, l, b, hh⟩) (fun v l hh => hcl ⟨v, l, hh⟩)

/-- **C17 without the invariant**: with no hypothesis at all (in particular without `SignDir`) the only
    clauses that can fail are the two OpenPosition limit clauses (reversal path on a record whose sign
    disagrees with its direction, `SatEWitness.c17_needs_signDir`); the ClosePosition clauses always hold.
    Under `SignDir` nothing fails: `sat_C17` / `C17_tags`. -/
theorem C17_tags_noInv (w : World) (env : Env) (s : Nat) (f : Funds) (tx : Tx) :
    ∀ tag ∈ Spec.C17.check (modelStep w env s f tx),
      tag ∈ ["open-base-limit-not-honoured(buy)", "open-base-limit-not-honoured(sell)"] := by
  cases hx : applyTx w env s f tx with
  | error e =>
    rw [modelStep_err hx]
    unfold Spec.C17.check errStep
    intro tag ht
    cases ht
  | ok w' =>
    rw [modelStep_ok hx]
    by_cases ho : ∃ v side m l b, tx = .engine (.openPosition v side m l b)
    · obtain ⟨v, side, m, l, b, rfl⟩ := ho
      intro tag ht
      simp only [Spec.C17.check, W.engineMsg, okStep] at ht
      have ht := mem_ite_nil (mem_ite_nil (mem_ite_nil ht))
      cases side with
      | buy =>
        have := mem_chk ht
        subst this
        simp
      | sell =>
        have := mem_chk ht
        subst this
        simp
    · by_cases hcl : ∃ v l, tx = .engine (.closePosition v l)
      · obtain ⟨v, l, rfl⟩ := hcl
        rw [check_close w w' env s f v l (fun hl hp => close_core w w' env s f v l hx hl hp)]
        intro tag ht
        cases ht
      · rw [check_other _ (fun v side m l b hh => ho ⟨v, side, m, l, b, hh⟩) (fun v l hh => hcl ⟨v, l, hh⟩)]
        intro tag ht
        cases ht

/-- **C17, general form** — now a corollary of the clean form: under the sign/direction invariant no
    clause can fail (the list of tags that can occur is empty) -/
theorem C17_tags (w : World) (env : Env) (s : Nat) (f : Funds) (tx : Tx) (hsd : SignDirE w.engine) :
    ∀ tag ∈ Spec.C17.check (modelStep w env s f tx), tag ∈ ([] : List String) := by
  rw [sat_C17 w env s f tx hsd]
  intro tag ht
  exact ht

end Perp.Props.SatC17
