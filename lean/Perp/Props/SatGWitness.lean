/-
  SatG — concrete worlds on which the native and the cw20 deployment DIVERGE (C13 is false of the model, as of
  the implementation), evaluated by the kernel.  World: one vAMM (toll 0.1 %, spread 0.2 %), trader 101 long
  10 base bought for 10 quote on 5 margin.
-/
import Perp.Model.World
import Perp.Props.LiqTwin

namespace Perp.Props.SatGWitness
open Perp Perp.World Perp.Engine

def D : Nat := 1000000

def vA : Vamm.V :=
  { cfg := { owner := 50, marginEngine := ENGINE, insuranceFund := IFUND, pricefeed := FEED, holdingCap := 0,
             oiCap := 0, decimals := D, toll := 1000, spread := 2000, fluct := 0, twapInterval := 3600,
             fundingPeriod := 3600, fundingBuffer := 1800 },
    st := { isOpen := true, quote := 1000 * D, base := 1000 * D, net := ⟨10 * D, false⟩,
            fundingRate := Integer.zero, nextFunding := 0, snaps := [⟨1000 * D, 1000 * D, 0, 1⟩] } }

def eA : E :=
  { cfg := { owner := 60, insuranceFund := IFUND, feePool := FEEPOOL, native := false, decimals := D,
             imr := 100000, mmr := 50000, plr := 0, liqFee := 25000 },
    st := ⟨10 * D, 0, false⟩, pauser := 60, whitelist := [],
    positions := [⟨10, 101, .addToAmm, ⟨10 * D, false⟩, 5 * D, 10 * D, Integer.zero, 5⟩], vammMaps := [],
    tmpSwap := none, sentFunds := none, tmpLiq := none }

/-- trader balance, trader allowance, vault balance -/
def wA (balT allowT balE : Nat) : World :=
  { env := ⟨9, 9000⟩, engine := eA, vamms := [(10, vA)],
    ifund := { owner := 61, engine := ENGINE, vamms := [10], stored := true },
    feePool := { owner := 62, tokens := [5] },
    feed := .mock { owner := 63, price := some D },
    ledger := { bal := [(101, balT), (ENGINE, balE), (IFUND, 5000 * D), (FEEPOOL, 0)], allow := [(101, allowT)] } }

def natW (w : World) : World := { w with engine := LiqTwin.setNative w.engine true }
def cwW (w : World) : World := { w with engine := LiqTwin.setNative w.engine false }

def envA : Env := ⟨10, 10000⟩

/-- the transfers of a successful run -/
def okLog (r : Except Err World) : Option (List (Nat × Nat × Nat)) :=
  match r with | .ok w => some w.log | .error _ => none

/-- what a successful run took out of account `s` -/
def pulled (r : Except Err World) (s : Nat) : Option Nat :=
  match r with
  | .ok w => some ((w.log.filter (fun x => x.1 == s)).map (fun x => x.2.2)).sum
  | .error _ => none

def errOf (r : Except Err World) : Option Err :=
  match r with | .ok _ => none | .error e => some e

def revTx : Tx := .engine (.openPosition 10 .sell (10 * D) (3 * D) 0)
def closeTx : Tx := .engine (.closePosition 10 0)

set_option maxRecDepth 100000 in
/-- **F10a** — a REVERSING `OpenPosition` (long 10 → short ~20): the cw20 deployment succeeds and pulls
    1.88868 from the trader (fees 0.06 + 0.03, margin 1.79868); the native deployment, given exactly that
    amount, rejects the call ("sent funds are insufficient", guard 70) -/
theorem F10a_reverse_diverges :
    okLog (applyTx (cwW (wA (100 * D) (100 * D) (100 * D))) envA 101 ⟨0, false⟩ revTx)
        = some [(101, IFUND, 60000), (101, FEEPOOL, 30000), (101, ENGINE, 1798680)]
    ∧ pulled (applyTx (cwW (wA (100 * D) (100 * D) (100 * D))) envA 101 ⟨0, false⟩ revTx) 101 = some 1888680
    ∧ errOf (applyTx (natW (wA (100 * D) (100 * D) (100 * D))) envA 101 ⟨1888680, false⟩ revTx)
        = some (.guard 70) := by
  decide +kernel

set_option maxRecDepth 100000 in
/-- **F10b** — `ClosePosition` with a vault shortfall (vault 1, payout 4.90099): the cw20 deployment draws
    the shortfall 3.90099 from the insurance fund and succeeds; on native the attached fee coins (0.03) are
    counted as vault money when the shortfall is computed, the fund is asked for 0.03 less, and the fee
    transfers out of the (now empty) vault fail -/
theorem F10b_shortfall_diverges :
    okLog (applyTx (cwW (wA (100 * D) (100 * D) (1 * D))) envA 101 ⟨0, false⟩ closeTx)
        = some [(IFUND, ENGINE, 3900990), (ENGINE, 101, 4900990), (101, IFUND, 20000), (101, FEEPOOL, 10000)]
    ∧ pulled (applyTx (cwW (wA (100 * D) (100 * D) (1 * D))) envA 101 ⟨0, false⟩ closeTx) 101 = some 30000
    ∧ errOf (applyTx (natW (wA (100 * D) (100 * D) (1 * D))) envA 101 ⟨30000, false⟩ closeTx)
        = some (.subcall 9) := by
  decide +kernel

set_option maxRecDepth 100000 in
/-- **F10c** — `ClosePosition` by a trader from whom the fee cannot be pulled (no allowance): cw20
    `TransferFrom` fails and with it the whole close; on native (nothing attached) the close goes through and
    the fee is paid out of the vault -/
theorem F10c_fee_unpayable_diverges :
    errOf (applyTx (cwW (wA (100 * D) 0 (100 * D))) envA 101 ⟨0, false⟩ closeTx) = some (.subcall 9)
    ∧ okLog (applyTx (natW (wA (100 * D) 0 (100 * D))) envA 101 ⟨0, false⟩ closeTx)
        = some [(ENGINE, 101, 4900990), (ENGINE, IFUND, 20000), (ENGINE, FEEPOOL, 10000)] := by
  decide +kernel

set_option maxRecDepth 100000 in
/-- **F10c′** — the converse order effect: a trader with an empty wallet closes on cw20 (the payout arrives
    before the fee is pulled) but cannot attach the fee up front on native -/
theorem F10c'_fee_upfront_diverges :
    okLog (applyTx (cwW (wA 0 (100 * D) (100 * D))) envA 101 ⟨0, false⟩ closeTx)
        = some [(ENGINE, 101, 4900990), (101, IFUND, 20000), (101, FEEPOOL, 10000)]
    ∧ pulled (applyTx (cwW (wA 0 (100 * D) (100 * D))) envA 101 ⟨0, false⟩ closeTx) 101 = some 30000
    ∧ errOf (applyTx (natW (wA 0 (100 * D) (100 * D))) envA 101 ⟨30000, false⟩ closeTx) = some .overflow := by
  decide +kernel

end Perp.Props.SatGWitness
