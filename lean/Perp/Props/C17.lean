/-
  C17 (vAMM part) — quoted amounts equal executed amounts; slippage limits are honoured.
  Statements were fixed before the proofs were written.
-/
import Perp.Model.VammRun
import Perp.Spec.Vamm
import Perp.Lemmas.Basic

namespace Perp.Props.C17
open Perp Perp.Vamm Perp.Spec.C17

def optOf {α : Type} (e : Except Err α) : Option α :=
  match e with
  | .ok a => some a
  | .error _ => none

/-! #### helper lemmas -/

theorem ok_bind {ε α β : Type} (a : α) (f : α → Except ε β) : (Except.ok a >>= f) = f a := rfl

theorem error_bind {ε α β : Type} (e : ε) (f : α → Except ε β) :
    ((Except.error e : Except ε α) >>= f) = .error e := rfl

theorem updateReserve_add (v v' : V) (env : Env) (qa ba : Nat) (cgo : Bool)
    (h : updateReserve v env .addToAmm qa ba cgo = .ok v') :
    v'.st.quote = v.st.quote + qa ∧ ba ≤ v.st.base ∧ v'.st.base = v.st.base - ba := by
  unfold updateReserve at h
  simp at h
  obtain ⟨_, q, ⟨_, hq⟩, b, ⟨hb, hb'⟩, n, _, rfl⟩ := h
  subst hq hb'
  exact ⟨rfl, hb, rfl⟩

theorem updateReserve_remove (v v' : V) (env : Env) (qa ba : Nat) (cgo : Bool)
    (h : updateReserve v env .removeFromAmm qa ba cgo = .ok v') :
    v'.st.base = v.st.base + ba ∧ qa ≤ v.st.quote ∧ v'.st.quote = v.st.quote - qa := by
  unfold updateReserve at h
  simp at h
  obtain ⟨_, b, ⟨_, hb⟩, q, ⟨hq, hq'⟩, n, _, rfl⟩ := h
  subst hb hq'
  exact ⟨rfl, hq, rfl⟩

theorem swapInput_inv (v v' : V) (env : Env) (s : Nat) (dir : Direction) (amt lim : Nat) (cgo : Bool)
    (o : SwapOut) (h : swapInput v env s dir amt lim cgo = .ok (v', o)) :
    ∃ b, queryInputAmount v dir amt = .ok b ∧ updateReserve v env dir amt b cgo = .ok v'
      ∧ o = ⟨true, amt, b⟩
      ∧ (lim ≠ 0 → amt ≠ 0 → (dir = .addToAmm → lim ≤ b) ∧ (dir = .removeFromAmm → b ≤ lim)) := by
  unfold swapInput at h
  unfold queryInputAmount
  by_cases hamt : amt = 0
  · subst hamt
    simp at h
    obtain ⟨_, _, v1, hu, rfl, rfl⟩ := h
    exact ⟨0, by simp [getInputPrice], hu, rfl, by simp⟩
  · simp only [bind_ok_iff] at h
    obtain ⟨_, _, _, _, h⟩ := h
    simp only [hamt, ne_eq, not_false_eq_true, if_true, bind_ok_iff] at h
    obtain ⟨b, hb, h⟩ := h
    by_cases hlim : lim = 0
    · subst hlim
      simp at h
      obtain ⟨v1, hu, rfl, rfl⟩ := h
      exact ⟨b, hb, hu, rfl, by simp⟩
    · simp only [hlim, not_false_eq_true, if_true] at h
      split at h
      · simp at h
      · split at h
        · simp at h
        · simp at h
          obtain ⟨v1, hu, rfl, rfl⟩ := h
          refine ⟨b, hb, hu, rfl, fun _ _ => ⟨fun hd => ?_, fun hd => ?_⟩⟩
          · subst hd; simp_all
          · subst hd; simp_all

theorem swapOutput_inv (v v' : V) (env : Env) (s : Nat) (dir : Direction) (amt lim : Nat)
    (o : SwapOut) (h : swapOutput v env s dir amt lim = .ok (v', o)) :
    ∃ q, queryOutputAmount v dir amt = .ok q ∧ updateReserve v env dir.flip q amt true = .ok v'
      ∧ o = ⟨false, q, amt⟩
      ∧ (lim ≠ 0 → amt ≠ 0 → (dir = .addToAmm → lim ≤ q) ∧ (dir = .removeFromAmm → q ≤ lim)) := by
  unfold swapOutput at h
  unfold queryOutputAmount
  by_cases hamt : amt = 0
  · subst hamt
    simp at h
    obtain ⟨_, _, v1, hu, rfl, rfl⟩ := h
    exact ⟨0, by simp [getOutputPrice], hu, rfl, by simp⟩
  · simp only [bind_ok_iff] at h
    obtain ⟨_, _, _, _, h⟩ := h
    simp only [hamt, ne_eq, not_false_eq_true, if_true, bind_ok_iff] at h
    obtain ⟨b, hb, h⟩ := h
    by_cases hlim : lim = 0
    · subst hlim
      simp at h
      obtain ⟨v1, hu, rfl, rfl⟩ := h
      exact ⟨b, hb, hu, rfl, by simp⟩
    · simp only [hlim, not_false_eq_true, if_true] at h
      split at h
      · simp at h
      · split at h
        · simp at h
        · simp at h
          obtain ⟨v1, hu, rfl, rfl⟩ := h
          refine ⟨b, hb, hu, rfl, fun _ _ => ⟨fun hd => ?_, fun hd => ?_⟩⟩
          · subst hd; simp_all [Direction.flip]
          · subst hd; simp_all [Direction.flip]

/-! #### the C17 theorems -/

/-- an accepted swap_input exchanges exactly what the query quoted at that state, moves exactly the
    requested amount on the requested side, and respected the limit -/
theorem swapInput_spec (v v' : V) (env : Env) (s : Nat) (dir : Direction) (amt lim : Nat) (cgo : Bool)
    (o : SwapOut) (h : swapInput v env s dir amt lim cgo = .ok (v', o)) :
    swapInputOk v.st v'.st dir amt lim (optOf (queryInputAmount v dir amt)) o.quoteAmt o.baseAmt = true
      ∧ o.isInput = true := by
  obtain ⟨b, hq, hu, rfl, hl⟩ := swapInput_inv v v' env s dir amt lim cgo o h
  refine ⟨?_, rfl⟩
  cases dir
  · obtain ⟨h1, h2, h3⟩ := updateReserve_add _ _ _ _ _ _ hu
    simp [swapInputOk, optOf, hq, h1, h3]
    refine ⟨by omega, ?_⟩
    simp at hl
    omega
  · obtain ⟨h1, h2, h3⟩ := updateReserve_remove _ _ _ _ _ _ hu
    simp [swapInputOk, optOf, hq, h1, h3]
    refine ⟨by omega, ?_⟩
    simp at hl
    omega

theorem swapOutput_spec (v v' : V) (env : Env) (s : Nat) (dir : Direction) (amt lim : Nat)
    (o : SwapOut) (h : swapOutput v env s dir amt lim = .ok (v', o)) :
    swapOutputOk v.st v'.st dir amt lim (optOf (queryOutputAmount v dir amt)) o.quoteAmt o.baseAmt = true
      ∧ o.isInput = false := by
  obtain ⟨b, hq, hu, rfl, hl⟩ := swapOutput_inv v v' env s dir amt lim o h
  refine ⟨?_, rfl⟩
  cases dir
  · obtain ⟨h1, h2, h3⟩ := updateReserve_remove _ _ _ _ _ _ hu
    simp [swapOutputOk, optOf, hq, h1, h3]
    refine ⟨by omega, ?_⟩
    simp at hl
    omega
  · obtain ⟨h1, h2, h3⟩ := updateReserve_add _ _ _ _ _ _ hu
    simp [swapOutputOk, optOf, hq, h1, h3]
    refine ⟨by omega, ?_⟩
    simp at hl
    omega

/-- the limit is the *only* effect of `lim`: for a non-zero amount, the swap with a limit behaves as
    the limit-free swap when the quoted amount meets the limit, and fails otherwise -/
theorem swapInput_limit_iff (v : V) (env : Env) (s : Nat) (dir : Direction) (amt lim : Nat) (cgo : Bool)
    (hamt : amt ≠ 0) (q : Nat) (hq : queryInputAmount v dir amt = .ok q) :
    (inputLimitMet dir lim q = true → swapInput v env s dir amt lim cgo = swapInput v env s dir amt 0 cgo)
    ∧ (inputLimitMet dir lim q = false → ∃ e, swapInput v env s dir amt lim cgo = .error e) := by
  unfold queryInputAmount at hq
  unfold swapInput
  simp only [hamt, ne_eq, not_false_eq_true, if_true, hq, ok_bind]
  rcases hO : requireOpen v with e | u
  · simp [error_bind]
  rcases hE : requireEngine v s with e | u
  · simp [error_bind]
  simp only [ok_bind]
  by_cases hlim : lim = 0
  · simp [hlim, inputLimitMet]
  cases dir
  · simp [hlim, inputLimitMet]
    refine ⟨fun h1 h2 => absurd h2 (by omega), fun h => ?_⟩
    simp [h, error_bind]
  · simp [hlim, inputLimitMet]
    refine ⟨fun h1 h2 => absurd h2 (by omega), fun h => ?_⟩
    simp [h, error_bind]

theorem swapOutput_limit_iff (v : V) (env : Env) (s : Nat) (dir : Direction) (amt lim : Nat)
    (hamt : amt ≠ 0) (q : Nat) (hq : queryOutputAmount v dir amt = .ok q) :
    (outputLimitMet dir lim q = true → swapOutput v env s dir amt lim = swapOutput v env s dir amt 0)
    ∧ (outputLimitMet dir lim q = false → ∃ e, swapOutput v env s dir amt lim = .error e) := by
  unfold queryOutputAmount at hq
  unfold swapOutput
  simp only [hamt, ne_eq, not_false_eq_true, if_true, hq, ok_bind]
  rcases hO : requireOpen v with e | u
  · simp [error_bind]
  rcases hE : requireEngine v s with e | u
  · simp [error_bind]
  simp only [ok_bind]
  by_cases hlim : lim = 0
  · simp [hlim, outputLimitMet]
  cases dir
  · simp [hlim, outputLimitMet, Direction.flip]
    refine ⟨fun h1 h2 => absurd h2 (by omega), fun h => ?_⟩
    simp [h, error_bind]
  · simp [hlim, outputLimitMet, Direction.flip]
    refine ⟨fun h1 h2 => absurd h2 (by omega), fun h => ?_⟩
    simp [h, error_bind]

/-- if the quote itself fails, so does the swap (non-zero amount) -/
theorem swapInput_needs_quote (v : V) (env : Env) (s : Nat) (dir : Direction) (amt lim : Nat) (cgo : Bool)
    (hamt : amt ≠ 0) (e : Err) (hq : queryInputAmount v dir amt = .error e) :
    ∃ e', swapInput v env s dir amt lim cgo = .error e' := by
  unfold queryInputAmount at hq
  unfold swapInput
  simp only [hamt, ne_eq, not_false_eq_true, if_true, hq, error_bind]
  rcases hO : requireOpen v with e | u
  · simp [error_bind]
  rcases hE : requireEngine v s with e | u
  · simp [error_bind]
  simp [ok_bind]

theorem swapOutput_needs_quote (v : V) (env : Env) (s : Nat) (dir : Direction) (amt lim : Nat)
    (hamt : amt ≠ 0) (e : Err) (hq : queryOutputAmount v dir amt = .error e) :
    ∃ e', swapOutput v env s dir amt lim = .error e' := by
  unfold queryOutputAmount at hq
  unfold swapOutput
  simp only [hamt, ne_eq, not_false_eq_true, if_true, hq, error_bind]
  rcases hO : requireOpen v with e | u
  · simp [error_bind]
  rcases hE : requireEngine v s with e | u
  · simp [error_bind]
  simp [ok_bind]

end Perp.Props.C17
