/-
  C19 — Signed integers behave like mathematical integers.
  All statements are over *every* pair of operands (either flag, including the non-canonical
  `{0, negative := true}` operand); `Rep` (magnitude ≤ 2^128-1) is assumed only where overflow
  is characterised.
-/
import Perp.Model.Integer
import Perp.Lemmas.Basic
import Perp.Lemmas.Digits
import Perp.Spec.C19

namespace Perp.Props.C19
open Perp Perp.Integer

/-! #### representation facts -/

theorem toInt_mk_false (v : Nat) : toInt ⟨v, false⟩ = v := by simp [toInt, isNegative]
theorem toInt_mk_true (v : Nat) : toInt ⟨v, true⟩ = -(v : Int) := by
  by_cases h : v = 0 <;> simp [toInt, isNegative, h]
theorem toInt_newPositive (v : Nat) : toInt (newPositive v) = v := toInt_mk_false v
theorem toInt_newNegative (v : Nat) : toInt (newNegative v) = -(v : Int) := by
  unfold toInt newNegative isNegative
  by_cases h : v = 0 <;> simp [h]

theorem bne_zero_of_ne {v : Nat} (h : ¬ v = 0) : (v != 0) = true := by simp [h]

theorem toInt_natAbs (a : Integer) : (toInt a).natAbs = a.value := by
  rcases a with ⟨va, na⟩
  cases na <;> simp only [toInt_mk_false, toInt_mk_true] <;> omega

/-! #### sign predicates, equality and order agree with ℤ -/

theorem isZero_iff (a : Integer) : a.isZero = true ↔ toInt a = 0 := by
  rcases a with ⟨va, na⟩
  cases na <;> simp only [toInt_mk_false, toInt_mk_true, isZero] <;> simp <;> omega

theorem isNegative_iff (a : Integer) : a.isNegative = true ↔ toInt a < 0 := by
  rcases a with ⟨va, na⟩
  cases na <;> simp only [toInt_mk_false, toInt_mk_true, isNegative] <;>
    by_cases ha : va = 0 <;> simp [ha] <;> omega

theorem isPositive_iff (a : Integer) : a.isPositive = true ↔ 0 ≤ toInt a := by
  rcases a with ⟨va, na⟩
  cases na <;> simp only [toInt_mk_false, toInt_mk_true, isNegative, isPositive] <;>
    by_cases ha : va = 0 <;> simp [ha] <;> omega

/-- equality is equality of the denoted integers (so `-0 == 0`) -/
theorem beq_iff (a b : Integer) : beq a b = true ↔ toInt a = toInt b := by
  rcases a with ⟨va, na⟩; rcases b with ⟨vb, nb⟩
  cases na <;> cases nb <;> simp only [toInt_mk_false, toInt_mk_true, beq, isNegative] <;>
    by_cases ha : va = 0 <;> by_cases hb : vb = 0 <;> simp [ha, hb, bne_zero_of_ne] <;> omega

theorem cmp_lt_iff (a b : Integer) : cmp a b = .lt ↔ toInt a < toInt b := by
  rcases a with ⟨va, na⟩; rcases b with ⟨vb, nb⟩
  cases na <;> cases nb <;>
    simp only [toInt_mk_false, toInt_mk_true, cmp, isNegative, isPositive] <;>
    by_cases ha : va = 0 <;> by_cases hb : vb = 0 <;>
    simp [ha, hb, bne_zero_of_ne, Nat.compare_eq_lt] <;> omega

theorem cmp_eq_iff (a b : Integer) : cmp a b = .eq ↔ toInt a = toInt b := by
  rcases a with ⟨va, na⟩; rcases b with ⟨vb, nb⟩
  cases na <;> cases nb <;>
    simp only [toInt_mk_false, toInt_mk_true, cmp, isNegative, isPositive] <;>
    by_cases ha : va = 0 <;> by_cases hb : vb = 0 <;>
    simp [ha, hb, bne_zero_of_ne] <;> omega

theorem cmp_gt_iff (a b : Integer) : cmp a b = .gt ↔ toInt a > toInt b := by
  rcases a with ⟨va, na⟩; rcases b with ⟨vb, nb⟩
  cases na <;> cases nb <;>
    simp only [toInt_mk_false, toInt_mk_true, cmp, isNegative, isPositive] <;>
    by_cases ha : va = 0 <;> by_cases hb : vb = 0 <;>
    simp [ha, hb, bne_zero_of_ne, Nat.compare_eq_gt] <;> omega

/-- a zero result (either flag) is equal to zero, not less than zero, not negative, and prints as "0" -/
theorem zero_consistent (a : Integer) (h : a.value = 0) :
    beq a zero = true ∧ lt a zero = false ∧ a.isNegative = false ∧ a.isZero = true
      ∧ toStr a = ['0'] := by
  rcases a with ⟨v, n⟩
  simp only at h; subst h
  cases n <;> simp [beq, lt, cmp, zero, isNegative, isPositive, isZero, toStr] <;> decide

/-! #### negation, absolute value -/

theorem invertSign_toInt (a : Integer) : toInt (invertSign a) = -toInt a := by
  rcases a with ⟨va, na⟩
  cases na <;> simp only [toInt_mk_false, toInt_mk_true, invertSign] <;>
    by_cases ha : va = 0 <;> simp [ha, toInt, isNegative]

theorem abs_toInt (a : Integer) : toInt (abs a) = ((toInt a).natAbs : Int) := by
  rw [toInt_natAbs]; simp [abs, toInt, isNegative]

theorem invertSign_rep (a : Integer) (h : Rep a) : Rep (invertSign a) := h
theorem abs_rep (a : Integer) (h : Rep a) : Rep (abs a) := h

/-! #### checked addition / subtraction -/

/-- common proof script: result of an additive operation denotes the sum / difference -/
macro "additive_ok" h:ident : tactic => `(tactic| (
  all_goals (try split at $h:ident)
  all_goals
    simp at $h:ident
    obtain ⟨v, ⟨h1, h2⟩, h3⟩ := $h
    subst h2 h3
    simp only [toInt_mk_false, toInt_mk_true, toInt_newNegative, toInt_newPositive, Rep]
    simp only [newNegative, newPositive]
    first
      | (refine ⟨by omega, ?_⟩; intro _ _; omega)
      | (intro _ _; omega)
      | omega))

theorem checkedAdd_ok (a b r : Integer) (h : checkedAdd a b = .ok r) :
    toInt r = toInt a + toInt b ∧ (Rep a → Rep b → Rep r) := by
  rcases a with ⟨va, na⟩; rcases b with ⟨vb, nb⟩
  cases na <;> cases nb <;> unfold checkedAdd at h <;> simp only [] at h
  additive_ok h

theorem checkedSub_ok (a b r : Integer) (h : checkedSub a b = .ok r) :
    toInt r = toInt a - toInt b ∧ (Rep a → Rep b → Rep r) := by
  rcases a with ⟨va, na⟩; rcases b with ⟨vb, nb⟩
  cases na <;> cases nb <;> unfold checkedSub at h <;> simp only [] at h
  additive_ok h

theorem add_ok (a b r : Integer) (h : add a b = .ok r) :
    toInt r = toInt a + toInt b ∧ (Rep a → Rep b → Rep r) := by
  rcases a with ⟨va, na⟩; rcases b with ⟨vb, nb⟩
  cases na <;> cases nb <;> unfold add at h <;> simp only [] at h
  additive_ok h

theorem sub_ok (a b r : Integer) (h : sub a b = .ok r) :
    toInt r = toInt a - toInt b ∧ (Rep a → Rep b → Rep r) := by
  have := add_ok a b.invertSign r h
  rw [invertSign_toInt] at this
  exact ⟨by omega, fun ha hb => this.2 ha (invertSign_rep b hb)⟩

/-- `checked_add` fails exactly on overflow of the mathematical sum -/
theorem checkedAdd_err_iff (a b : Integer) (ha : Rep a) (hb : Rep b) :
    (∃ e, checkedAdd a b = .error e) ↔ (toInt a + toInt b).natAbs > U128.MAX := by
  rcases a with ⟨va, na⟩; rcases b with ⟨vb, nb⟩
  have ha' : va ≤ U128.MAX := ha
  have hb' : vb ≤ U128.MAX := hb
  cases na <;> cases nb <;> unfold checkedAdd <;> simp only [toInt_mk_false, toInt_mk_true]
  all_goals (try split)
  all_goals
    simp [cadd_err, csub_err]
    omega

theorem checkedSub_err_iff (a b : Integer) (ha : Rep a) (hb : Rep b) :
    (∃ e, checkedSub a b = .error e) ↔ (toInt a - toInt b).natAbs > U128.MAX := by
  rcases a with ⟨va, na⟩; rcases b with ⟨vb, nb⟩
  have ha' : va ≤ U128.MAX := ha
  have hb' : vb ≤ U128.MAX := hb
  cases na <;> cases nb <;> unfold checkedSub <;> simp only [toInt_mk_false, toInt_mk_true]
  all_goals (try split)
  all_goals
    simp [cadd_err, csub_err]
    omega

theorem add_err_iff (a b : Integer) (ha : Rep a) (hb : Rep b) :
    (∃ e, add a b = .error e) ↔ (toInt a + toInt b).natAbs > U128.MAX := by
  rcases a with ⟨va, na⟩; rcases b with ⟨vb, nb⟩
  have ha' : va ≤ U128.MAX := ha
  have hb' : vb ≤ U128.MAX := hb
  cases na <;> cases nb <;> unfold add <;> simp only [toInt_mk_false, toInt_mk_true]
  all_goals (try split)
  all_goals
    simp [cadd_err, csub_err]
    omega

/-! #### multiplication / truncating division -/

theorem toInt_signOfProduct (an bn : Bool) (v : Nat) :
    toInt (signOfProduct an bn v) =
      (if an = bn then (v : Int) else -(v : Int)) := by
  cases an <;> cases bn <;> simp [signOfProduct, toInt_newPositive, toInt_newNegative]

theorem rep_signOfProduct (an bn : Bool) (v : Nat) : Rep (signOfProduct an bn v) ↔ v ≤ U128.MAX := by
  cases an <;> cases bn <;> simp [signOfProduct, Rep, newPositive, newNegative]

theorem checkedMul_ok (a b r : Integer) (h : checkedMul a b = .ok r) :
    toInt r = toInt a * toInt b ∧ Rep r := by
  rcases a with ⟨va, na⟩; rcases b with ⟨vb, nb⟩
  unfold checkedMul at h
  simp at h
  obtain ⟨v, ⟨h1, h2⟩, h3⟩ := h
  subst h2 h3
  refine ⟨?_, (rep_signOfProduct _ _ _).2 h1⟩
  rw [toInt_signOfProduct]
  cases na <;> cases nb <;>
    simp [toInt_mk_false, toInt_mk_true, Int.natCast_mul, Int.mul_neg, Int.neg_mul]

theorem checkedMul_err_iff (a b : Integer) :
    (∃ e, checkedMul a b = .error e) ↔ (toInt a * toInt b).natAbs > U128.MAX := by
  unfold checkedMul
  simp [cmul_err, Int.natAbs_mul, toInt_natAbs]

theorem checkedDiv_ok (a b r : Integer) (h : checkedDiv a b = .ok r) :
    toInt r = Int.tdiv (toInt a) (toInt b) ∧ (Rep a → Rep r) := by
  rcases a with ⟨va, na⟩; rcases b with ⟨vb, nb⟩
  unfold checkedDiv at h
  simp at h
  obtain ⟨v, ⟨h1, h2⟩, h3⟩ := h
  subst h2 h3
  have hle : va / vb ≤ va := Nat.div_le_self va vb
  refine ⟨?_, fun ha => (rep_signOfProduct _ _ _).2 (Nat.le_trans hle ha)⟩
  rw [toInt_signOfProduct]
  cases na <;> cases nb <;>
    simp [toInt_mk_false, toInt_mk_true, Int.natCast_ediv]

/-- `checked_div` fails exactly on division by zero (either zero) -/
theorem checkedDiv_err_iff (a b : Integer) :
    (∃ e, checkedDiv a b = .error e) ↔ toInt b = 0 := by
  rcases a with ⟨va, na⟩; rcases b with ⟨vb, nb⟩
  unfold checkedDiv
  cases nb <;> simp [cdiv_err, toInt_mk_false, toInt_mk_true]

/-! #### unchecked operators agree with checked ones whenever the checked one succeeds -/

theorem add_agrees (a b r : Integer) (ha : Rep a) (hb : Rep b) (h : checkedAdd a b = .ok r) :
    ∃ r', add a b = .ok r' ∧ beq r' r = true := by
  rcases except_cases (add a b) with ⟨e, he⟩ | ⟨r', hr'⟩
  · have h1 := (add_err_iff a b ha hb).1 ⟨e, he⟩
    have h2 := (checkedAdd_err_iff a b ha hb).2 h1
    obtain ⟨e', he'⟩ := h2
    rw [h] at he'; cases he'
  · refine ⟨r', hr', ?_⟩
    rw [beq_iff, (add_ok a b r' hr').1, (checkedAdd_ok a b r h).1]

theorem sub_agrees (a b r : Integer) (ha : Rep a) (hb : Rep b) (h : checkedSub a b = .ok r) :
    ∃ r', sub a b = .ok r' ∧ beq r' r = true := by
  rcases except_cases (sub a b) with ⟨e, he⟩ | ⟨r', hr'⟩
  · have h1 := (add_err_iff a b.invertSign ha (invertSign_rep b hb)).1 ⟨e, he⟩
    rw [invertSign_toInt] at h1
    have h2 := (checkedSub_err_iff a b ha hb).2 (by
      have : toInt a - toInt b = toInt a + -toInt b := by omega
      rw [this]; exact h1)
    obtain ⟨e', he'⟩ := h2
    rw [h] at he'; cases he'
  · refine ⟨r', hr', ?_⟩
    rw [beq_iff, (sub_ok a b r' hr').1, (checkedSub_ok a b r h).1]

theorem mul_agrees (a b r : Integer) (h : checkedMul a b = .ok r) : mul a b = .ok r := h
theorem div_agrees (a b r : Integer) (h : checkedDiv a b = .ok r) : div a b = .ok r := h

/-! #### decimal string form -/

/-- printing then parsing gives back an equal value -/
theorem fromStr_toStr (a : Integer) (h : Rep a) :
    ∃ r, fromStr (toStr a) = .ok r ∧ beq r a = true := by
  rcases a with ⟨v, n⟩
  simp only [Rep] at h
  have hp := Digits.parseU128_natToString v h
  by_cases hn : (n && v != 0) = true
  · refine ⟨newNegative v, ?_, ?_⟩
    · simp [toStr, hn, fromStr, hp]
    · simp at hn
      simp [beq_iff, toInt_newNegative, hn.1, toInt_mk_true]
  · refine ⟨newPositive v, ?_, ?_⟩
    · simp only [toStr, hn]
      cases hs : natToString v with
      | nil => exact absurd hs (Digits.natToString_ne_nil v)
      | cons c cs =>
        have hne := Digits.natToString_head v c cs hs
        rw [hs] at hp
        simp only [fromStr]
        split
        · simp_all
        · rename_i heq
          injection heq with h1 h2
          exact absurd h1 hne.1
        · simp [hp]
    · simp at hn
      cases n
      · simp [beq_iff, toInt_newPositive, toInt_mk_false]
      · have : v = 0 := by simpa using hn
        subst this
        simp [beq_iff, toInt_newPositive, toInt_mk_true]

/-! #### the observation-level specification holds of the model, for all operands -/

open Perp.Spec.C19 in
theorem checked_of (e : Except Err Integer) (z : Int)
    (hok : ∀ r, e = .ok r → toInt r = z ∧ Rep r)
    (herr : (∃ x, e = .error x) ↔ z.natAbs > U128.MAX) :
    checked (optOf e) z = true := by
  unfold checked fits
  cases e with
  | error x =>
    have : z.natAbs > U128.MAX := herr.1 ⟨x, rfl⟩
    have h2 : ¬ z.natAbs ≤ U128.MAX := by omega
    simp [h2, optOf, Spec.C19.isNone]
  | ok r =>
    have h1 := hok r rfl
    have : ¬ z.natAbs > U128.MAX := fun h => by
      obtain ⟨x, hx⟩ := herr.2 h; cases hx
    have h2 : z.natAbs ≤ U128.MAX := by omega
    have h3 : r.value ≤ U128.MAX := h1.2
    simp [h2, optOf, denotes, h1.1, h3]

open Perp.Spec.C19 in
theorem unchecked_of (e : Except Err Integer) (z : Int)
    (hok : ∀ r, e = .ok r → toInt r = z ∧ Rep r)
    (herr : (∃ x, e = .error x) → z.natAbs > U128.MAX) :
    unchecked (optOf e) z = true := by
  unfold unchecked fits
  cases e with
  | error x =>
    have : z.natAbs > U128.MAX := herr ⟨x, rfl⟩
    have h2 : ¬ z.natAbs ≤ U128.MAX := by omega
    simp [h2]
  | ok r =>
    have h1 := hok r rfl
    have h3 : r.value ≤ U128.MAX := h1.2
    by_cases h2 : z.natAbs ≤ U128.MAX <;> simp [h2, optOf, denotes, h1.1, h3]

theorem intToStr_eq (a : Integer) : Spec.C19.intToStr (toInt a) = toStr a := by
  rcases a with ⟨v, n⟩
  cases n
  · simp [Spec.C19.intToStr, toInt_mk_false, toStr]
  · by_cases hv : v = 0
    · subst hv; simp [Spec.C19.intToStr, toInt_mk_true, toStr]
    · simp [Spec.C19.intToStr, toInt_mk_true, toStr, hv]

/-- **C19, observation form**: on every pair of representable operands and every operation of the
    public API, the model's answer satisfies the specification predicate that the driver evaluates
    on the implementation's answers. -/
theorem spec_model (op : Spec.C19.Op) (a b : Integer) (ha : Rep a) (hb : Rep b) :
    Spec.C19.ok op a b (Spec.C19.model op a b) = true := by
  cases op <;> simp only [Spec.C19.ok, Spec.C19.model]
  · exact checked_of _ _ (fun r h => ⟨(checkedAdd_ok a b r h).1, (checkedAdd_ok a b r h).2 ha hb⟩)
      (checkedAdd_err_iff a b ha hb)
  · exact checked_of _ _ (fun r h => ⟨(checkedSub_ok a b r h).1, (checkedSub_ok a b r h).2 ha hb⟩)
      (checkedSub_err_iff a b ha hb)
  · exact checked_of _ _ (fun r h => checkedMul_ok a b r h) (checkedMul_err_iff a b)
  · by_cases hz : toInt b = 0
    · obtain ⟨e, he⟩ := (checkedDiv_err_iff a b).2 hz
      simp [hz, he, Spec.C19.optOf, Spec.C19.isNone]
    · rcases except_cases (checkedDiv a b) with ⟨e, he⟩ | ⟨r, hr⟩
      · exact absurd ((checkedDiv_err_iff a b).1 ⟨e, he⟩) hz
      · have h1 := checkedDiv_ok a b r hr
        have h3 : r.value ≤ U128.MAX := h1.2 ha
        simp [hz, hr, Spec.C19.optOf, Spec.C19.denotes, h1.1, h3]
  · exact unchecked_of _ _ (fun r h => ⟨(add_ok a b r h).1, (add_ok a b r h).2 ha hb⟩)
      (add_err_iff a b ha hb).1
  · refine unchecked_of _ _ (fun r h => ⟨(sub_ok a b r h).1, (sub_ok a b r h).2 ha hb⟩) ?_
    intro h
    have h1 := (add_err_iff a b.invertSign ha (invertSign_rep b hb)).1 h
    rw [invertSign_toInt] at h1
    have : toInt a - toInt b = toInt a + -toInt b := by omega
    rw [this]; exact h1
  · exact unchecked_of _ _ (fun r h => checkedMul_ok a b r h) (checkedMul_err_iff a b).1
  · by_cases hz : toInt b = 0
    · simp [hz]
    · rcases except_cases (checkedDiv a b) with ⟨e, he⟩ | ⟨r, hr⟩
      · exact absurd ((checkedDiv_err_iff a b).1 ⟨e, he⟩) hz
      · have h1 := checkedDiv_ok a b r hr
        have h3 : r.value ≤ U128.MAX := h1.2 ha
        have hr' : Integer.div a b = .ok r := hr
        simp [hz, hr', Spec.C19.optOf, Spec.C19.denotes, h1.1, h3]
  · have h3 : (invertSign a).value ≤ U128.MAX := ha
    simp [Spec.C19.denotes, invertSign_toInt, h3]
  · have h3 : (abs a).value ≤ U128.MAX := ha
    simp [Spec.C19.denotes, abs_toInt, h3]
  · cases h : beq a b
    · have : ¬ toInt a = toInt b := fun h' => by rw [(beq_iff a b).2 h'] at h; cases h
      simp [this]
    · simp [(beq_iff a b).1 h]
  · cases h : cmp a b
    · have := (cmp_lt_iff a b).1 h
      simp [Int.compare_eq_lt.2 this] <;> exact (Int.compare_eq_lt.2 this).symm
    · have := (cmp_eq_iff a b).1 h
      simp [this]
    · have := (cmp_gt_iff a b).1 h
      simp [Int.compare_eq_gt.2 this] <;> exact (Int.compare_eq_gt.2 this).symm
  · cases h : a.isZero
    · have : ¬ toInt a = 0 := fun h' => by rw [(isZero_iff a).2 h'] at h; cases h
      simp [this]
    · simp [(isZero_iff a).1 h]
  · cases h : a.isNegative
    · have : ¬ toInt a < 0 := fun h' => by rw [(isNegative_iff a).2 h'] at h; cases h
      simp [this]
    · simp [(isNegative_iff a).1 h]
  · cases h : a.isPositive
    · have : ¬ 0 ≤ toInt a := fun h' => by rw [(isPositive_iff a).2 h'] at h; cases h
      simp [this]
    · simp [(isPositive_iff a).1 h]
  · simp [intToStr_eq]
  · obtain ⟨r, hr, hb'⟩ := fromStr_toStr a ha
    have h1 := (beq_iff r a).1 hb'
    have h3 : r.value ≤ U128.MAX := by
      have := congrArg Int.natAbs h1
      rw [toInt_natAbs, toInt_natAbs] at this
      rw [this]; exact ha
    simp [hr, Spec.C19.optOf, Spec.C19.denotes, h1, h3]

/-! #### non-vacuity: the hypotheses are met by concrete, non-trivial operands -/

example : Rep ⟨U128.MAX, true⟩ := Nat.le_refl _
example : checkedAdd ⟨U128.MAX, true⟩ ⟨5, false⟩ = .ok ⟨U128.MAX - 5, true⟩ := by decide
example : checkedAdd ⟨5, true⟩ ⟨5, false⟩ = .ok zero ∧ add ⟨5, true⟩ ⟨5, false⟩ = .ok zero
    ∧ checkedMul ⟨5, true⟩ ⟨0, false⟩ = .ok zero ∧ div ⟨3, true⟩ ⟨5, false⟩ = .ok zero := by decide
example : ∃ e, checkedAdd ⟨U128.MAX, false⟩ ⟨1, false⟩ = .error e := ⟨_, rfl⟩
example : beq ⟨0, true⟩ zero = true ∧ lt ⟨0, true⟩ zero = false := by decide

end Perp.Props.C19
