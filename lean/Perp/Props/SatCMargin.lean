/-
  SatC, part 4 — C05 at the engine level:
  * the margin-ratio clause of an open, through `open_flow`;
  * `MarginRep` (stored margins fit `Uint128`), an invariant of `step`;
  * the free collateral reported after a withdrawal is the old one minus the amount.
-/
import Perp.Props.SatCCaps

namespace Perp.Props.SatC
open Perp Perp.World Perp.Engine Perp.Spec Perp.Props.ModelStep
open Perp.Props.C19
open Perp.Props.EngineGuards (Post Post_bind Post_pure Post_ok Post_error Post_bind_pure Post_bind_error Post_exmap)
open Perp.Props.MirrorP (Post_bind_assoc Post_bind_ite)

/-! ### the margin ratio after an open -/


theorem pnl_congr (q q' : Q) (e : E) (p : Position) (h1 : q.outputAmount = q'.outputAmount)
    (h2 : q.outputTwap = q'.outputTwap) :
    positionNotionalPnl q e p .spot = positionNotionalPnl q' e p .spot
    ∧ positionNotionalPnl q e p .twap = positionNotionalPnl q' e p .twap := by
  unfold positionNotionalPnl
  simp only [h1, h2]
  trivial

theorem qmr_congr (q q' : Q) (e : E) (v t : Nat) (h1 : q.outputAmount = q'.outputAmount)
    (h2 : q.outputTwap = q'.outputTwap) : queryMarginRatio q e v t = queryMarginRatio q' e v t := by
  unfold queryMarginRatio
  simp only [(pnl_congr q q' e _ h1 h2).1, (pnl_congr q q' e _ h1 h2).2]

theorem qfc_congr (q q' : Q) (e : E) (v t : Nat) (h1 : q.outputAmount = q'.outputAmount)
    (h2 : q.outputTwap = q'.outputTwap) : queryFreeCollateral q e v t = queryFreeCollateral q' e v t := by
  unfold queryFreeCollateral
  simp only [(pnl_congr q q' e _ h1 h2).1, (pnl_congr q q' e _ h1 h2).2]

theorem q_out_congr {w w' : World} (h : w'.vamms = w.vamms) (he : w'.env = w.env) :
    w'.q.outputAmount = w.q.outputAmount ∧ w'.q.outputTwap = w.q.outputTwap := by
  constructor
  · funext v d a
    show (do let x ← w'.vammE v; Vamm.queryOutputAmount x d a) = (do let x ← w.vammE v; Vamm.queryOutputAmount x d a)
    unfold vammE vamm?
    rw [h]
  · funext v d a
    show (do let x ← w'.vammE v; Vamm.queryOutputTwap x w'.env d a) = (do let x ← w.vammE v; Vamm.queryOutputTwap x w.env d a)
    unfold vammE vamm?
    rw [h, he]

theorem ratio_clause (w w' : World) (env : Env) (s : Nat) (f : Funds) (v : Nat) (side : Side) (mg l b : Nat)
    (h : applyTx w env s f (.engine (.openPosition v side mg l b)) = .ok w') :
    (readPosition w'.engine v s).size.isZero = true
    ∨ ∃ r, queryMarginRatio w'.q w'.engine v s = .ok r ∧ (w'.engine.cfg.mmr : Int) ≤ r.toInt := by
  obtain ⟨W, sw, msgs, hsw, sv, st, ss, hWenv, hWwl, hvm, henv, hcase⟩ := open_flow w w' env s f v side mg l b h
  obtain ⟨c1, c2⟩ := q_out_congr hvm henv
  have key : ∀ N bb id, updatePositionReply W.q W.engine W.env N bb id = .ok (w'.engine, msgs) →
      ∃ r, queryMarginRatio w'.q w'.engine v s = .ok r ∧ (w'.engine.cfg.mmr : Int) ≤ r.toInt := by
    intro N bb id hu
    obtain ⟨r, hr, hlt, _⟩ := EngineMoney.updatePositionReply_ratio _ _ _ _ _ _ _ _ sw hsw hu
    have hcfg : w'.engine.cfg = W.engine.cfg := EngineGuards.updatePositionReply_cfg _ _ _ _ _ _ _ hu
    rw [sv, st] at hr
    refine ⟨r, by rw [qmr_congr _ _ _ _ _ c1 c2]; exact hr, ?_⟩
    rw [hcfg]
    have := C19.cmp_lt_iff r (Integer.newPositive W.engine.cfg.mmr)
    rw [C19.toInt_newPositive] at this
    by_cases hc : r.toInt < (W.engine.cfg.mmr : Int)
    · have h1 := this.2 hc
      simp [Integer.lt, h1] at hlt
    · omega
  rcases hcase with ⟨N, bb, hu⟩ | ⟨N, bb, hu, _⟩ | ⟨o, hu, _, hz⟩
  · exact Or.inr (key _ _ _ hu)
  · exact Or.inr (key _ _ _ hu)
  · left; rw [hz]; rfl


/-! ### sign–magnitude helpers that do not need representability -/

theorem csub_self (v : Nat) : csub v v = .ok 0 := (csub_ok _ _ _).2 ⟨Nat.le_refl _, by omega⟩

theorem sub_self_val (a : Integer) : ∃ r, Integer.sub a a = .ok r ∧ r.value = 0 := by
  rcases a with ⟨v, n⟩
  by_cases hv : v = 0
  · subst hv
    cases n
    · exact ⟨⟨0, false⟩, by decide, rfl⟩
    · exact ⟨⟨0, false⟩, by decide, rfl⟩
  · have hb : (v != 0) = true := by simp [hv]
    cases n
    · refine ⟨Integer.newPositive 0, ?_, rfl⟩
      show Integer.add ⟨v, false⟩ ⟨v, !false && v != 0⟩ = _
      rw [hb]
      show (if v ≥ v then (do let x ← csub v v; pure (Integer.newPositive x)) else _) = _
      rw [if_pos (Nat.le_refl _), csub_self]
      rfl
    · refine ⟨Integer.newNegative 0, ?_, rfl⟩
      show Integer.add ⟨v, true⟩ ⟨v, !true && v != 0⟩ = _
      show (if v ≥ v then (do let x ← csub v v; pure (Integer.newNegative x)) else _) = _
      rw [if_pos (Nat.le_refl _), csub_self]
      rfl

theorem mul_zero_val (a b : Integer) (h : a.value = 0) : ∃ r, Integer.mul a b = .ok r ∧ r.value = 0 := by
  rcases a with ⟨v, n⟩; rcases b with ⟨v', n'⟩
  simp only [] at h
  subst h
  unfold Integer.mul Integer.signOfProduct
  cases n <;> cases n' <;> simp [Integer.newPositive, Integer.newNegative]

theorem div_zero_val (a : Integer) (D : Nat) (h : a.value = 0) (hD : D ≠ 0) :
    ∃ r, Integer.div a (Integer.newPositive D) = .ok r ∧ r.value = 0 := by
  rcases a with ⟨v, n⟩
  simp only [] at h
  subst h
  unfold Integer.div Integer.signOfProduct
  cases n <;> simp [Integer.newPositive, Integer.newNegative, hD]

theorem mul_neg_one_zero (a : Integer) (h : a.value = 0) :
    Integer.mul a (Integer.newNegative 1) = .ok ⟨0, false⟩ := by
  rcases a with ⟨v, n⟩
  simp only [] at h
  subst h
  unfold Integer.mul Integer.signOfProduct
  cases n <;> simp [Integer.newPositive, Integer.newNegative]

/-- results of the checked additive operations are normalised: a zero is never flagged negative -/
theorem checkedAdd_norm (a b r : Integer) (h : Integer.checkedAdd a b = .ok r) : r.negative = true → r.value ≠ 0 := by
  rcases a with ⟨va, na⟩; rcases b with ⟨vb, nb⟩
  cases na <;> cases nb <;> unfold Integer.checkedAdd at h <;> simp only [] at h
  all_goals (try split at h)
  all_goals
    simp at h
    obtain ⟨v, ⟨h1, h2⟩, h3⟩ := h
    subst h3
    simp [Integer.newPositive, Integer.newNegative]

theorem nonneg_flag (r : Integer) (hn : r.negative = true → r.value ≠ 0) (h : 0 ≤ r.toInt) : r.negative = false := by
  rcases r with ⟨v, n⟩
  cases n
  · rfl
  · exfalso
    have hv : v ≠ 0 := hn rfl
    rw [toInt_mk_true] at h
    omega

theorem csub_le {a b : Nat} (h : b ≤ a) : csub a b = .ok (a - b) := (csub_ok _ _ _).2 ⟨h, rfl⟩

/-- subtracting operands of equal raw sign never overflows -/
theorem checkedSub_same_sign (a b : Integer) (h : a.negative = b.negative) : ∃ r, Integer.checkedSub a b = .ok r := by
  rcases a with ⟨va, na⟩; rcases b with ⟨vb, nb⟩
  simp only [] at h
  subst h
  cases na <;> unfold Integer.checkedSub <;> simp only []
  · by_cases hc : va ≥ vb
    · rw [if_pos hc, csub_le hc]; exact ⟨_, rfl⟩
    · rw [if_neg hc, csub_le (by omega)]; exact ⟨_, rfl⟩
  · by_cases hc : va > vb
    · rw [if_pos hc, csub_le (by omega)]; exact ⟨_, rfl⟩
    · rw [if_neg hc, csub_le (by omega)]; exact ⟨_, rfl⟩

theorem checkedAdd_pos_mono' (va : Nat) (na : Bool) (r : Integer) (m m' : Nat)
    (h : Integer.checkedAdd ⟨va, na⟩ ⟨m, false⟩ = .ok r)
    (hle : m' ≤ m) : ∃ r', Integer.checkedAdd ⟨va, na⟩ ⟨m', false⟩ = .ok r' := by
  cases na <;> unfold Integer.checkedAdd at h ⊢ <;> simp only [] at h ⊢
  · simp only [bind_ok_iff, cadd_ok, pure_ok_iff] at h
    obtain ⟨x, ⟨hx, _⟩, _⟩ := h
    have : cadd va m' = .ok (va + m') := (cadd_ok _ _ _).2 ⟨by omega, rfl⟩
    rw [this]; exact ⟨_, rfl⟩
  · by_cases hc : va > m'
    · rw [if_pos hc, csub_le (by omega)]; exact ⟨_, rfl⟩
    · rw [if_neg hc, csub_le (by omega)]; exact ⟨_, rfl⟩

/-- adding a smaller non-negative amount succeeds when adding the larger one did -/
theorem checkedAdd_pos_mono (a r : Integer) (m m' : Nat) (h : Integer.checkedAdd a (Integer.newPositive m) = .ok r)
    (hle : m' ≤ m) : ∃ r', Integer.checkedAdd a (Integer.newPositive m') = .ok r' :=
  checkedAdd_pos_mono' a.value a.negative r m m' h hle

theorem add_pos_value_le (va : Nat) (na : Bool) (m : Nat) (rem : Integer)
    (h5 : Integer.add ⟨va, na⟩ ⟨m, false⟩ = .ok rem) (hm : m ≤ U128.MAX) (hn : rem.isNegative = false) :
    rem.value ≤ U128.MAX := by
  cases na <;> unfold Integer.add at h5 <;> simp only [] at h5
  · simp only [bind_ok_iff, cadd_ok, pure_ok_iff] at h5
    obtain ⟨x, ⟨hx, rfl⟩, rfl⟩ := h5
    exact hx
  · by_cases hc : va ≥ m
    · rw [if_pos hc, csub_le hc] at h5
      have : rem = Integer.newNegative (va - m) := by injection h5 with h5; exact h5.symm
      subst this
      simp [Integer.newNegative, Integer.isNegative] at hn ⊢
      omega
    · rw [if_neg hc, csub_le (by omega)] at h5
      have : rem = Integer.newPositive (m - va) := by injection h5 with h5; exact h5.symm
      subst this
      simp [Integer.newPositive]
      omega

theorem calcRemainMargin_margin_le (e : E) (p : Position) (d : Integer) (rm : RemainMargin)
    (h : calcRemainMargin e p d = .ok rm) (hp : p.margin ≤ U128.MAX) : rm.margin ≤ U128.MAX ∧ e.cfg.decimals ≠ 0 := by
  unfold calcRemainMargin at h
  simp only [bind_ok_iff] at h
  obtain ⟨d1, h1, m, h2, f, h3, a, h4, rem, h5, h6⟩ := h
  have hD : e.cfg.decimals ≠ 0 := by
    unfold Integer.div at h3
    simp only [bind_ok_iff, cdiv_ok, Integer.newPositive] at h3
    obtain ⟨x, ⟨hx, _⟩, _⟩ := h3
    exact hx
  refine ⟨?_, hD⟩
  have hrem : rem.isNegative = false → rem.value ≤ U128.MAX := add_pos_value_le a.value a.negative p.margin rem h5 hp
  split at h6
  · simp at h6; subst h6; simp
  · rename_i hneg
    simp at h6; subst h6
    exact hrem (by simpa using hneg)


/-! ### free collateral after a withdrawal -/

/-- tail of `query_free_collateral` once the funding-adjusted position is known -/
def fcTail (q : Q) (e : E) (p : Position) : Except Err Integer := do
  let spot ← positionNotionalPnl q e p .spot
  let twap ← positionNotionalPnl q e p .twap
  let (notional, pnl) := choosePnl spot twap
  let accountValue ← Integer.checkedAdd pnl (Integer.newPositive p.margin)
  let d ← Integer.checkedSub accountValue (Integer.newPositive p.margin)
  let minimum := if d.isPositive then Integer.newPositive p.margin else accountValue
  let req ← if p.size.isPositive then (do let x ← cmul p.notional e.cfg.imr; cdiv x e.cfg.decimals)
            else (do let x ← cmul notional e.cfg.imr; cdiv x e.cfg.decimals)
  Integer.checkedSub minimum (Integer.newPositive req)

theorem qfc_eq (q : Q) (e : E) (v t : Nat) :
    queryFreeCollateral q e v t = positionWithFunding e v t >>= fcTail q e := rfl

theorem pnl_irrel (q : Q) (e e' : E) (p p' : Position) (opt : PnlOpt) (hs : p'.size = p.size)
    (hv : p'.vamm = p.vamm) (hd : p'.direction = p.direction) (hn : p'.notional = p.notional) (hc : e'.cfg = e.cfg) :
    positionNotionalPnl q e' p' opt = positionNotionalPnl q e p opt := by
  unfold positionNotionalPnl
  rw [hs, hv, hd, hn, hc]

theorem fcTail_shift (q : Q) (e e' : E) (p p' : Position) (fc : Integer) (amt : Nat)
    (hs : p'.size = p.size) (hv : p'.vamm = p.vamm) (hd : p'.direction = p.direction)
    (hn : p'.notional = p.notional) (hc : e'.cfg = e.cfg) (hm : p'.margin + amt = p.margin)
    (h : fcTail q e p = .ok fc) (hle : (amt : Int) ≤ fc.toInt) :
    ∃ fc', fcTail q e' p' = .ok fc' ∧ fc'.toInt = fc.toInt - amt := by
  unfold fcTail at h ⊢
  rw [pnl_irrel q e e' p p' .spot hs hv hd hn hc, pnl_irrel q e e' p p' .twap hs hv hd hn hc, hs, hn, hc]
  simp only [bind_ok_iff] at h
  obtain ⟨spot, hspot, twap, htwap, h⟩ := h
  rw [hspot, htwap]
  cases hcp : choosePnl spot twap with
  | mk notional pnl =>
    rw [hcp] at h
    dsimp only at h
    obtain ⟨av, hav, d, hdd, hrest⟩ := h
    have hR : ∃ req, (if p.size.isPositive = true then (do let x ← cmul p.notional e.cfg.imr; cdiv x e.cfg.decimals)
          else (do let x ← cmul notional e.cfg.imr; cdiv x e.cfg.decimals)) = .ok req
        ∧ (if d.isPositive = true then Integer.newPositive p.margin else av).checkedSub (Integer.newPositive req) = .ok fc := by
      by_cases hsz : p.size.isPositive = true
      · rw [if_pos hsz] at hrest ⊢; exact EngineMoney.bind_ok hrest
      · rw [if_neg hsz] at hrest ⊢; exact EngineMoney.bind_ok hrest
    obtain ⟨req, hreq, hfin⟩ := hR
    have eav := (checkedAdd_ok _ _ _ hav).1
    have ed := (checkedSub_ok _ _ _ hdd).1
    have efin := (checkedSub_ok _ _ _ hfin).1
    rw [toInt_newPositive] at eav ed efin
    obtain ⟨av', hav'⟩ := checkedAdd_pos_mono pnl av p.margin p'.margin hav (by omega)
    have eav' := (checkedAdd_ok _ _ _ hav').1
    rw [toInt_newPositive] at eav'
    have hpos := isPositive_iff d
    -- the account value stays non-negative
    have hav0 : 0 ≤ av'.toInt := by
      by_cases hp : d.isPositive = true
      · have := hpos.1 hp; omega
      · rw [if_neg hp] at efin; omega
    have hflag : av'.negative = false := nonneg_flag av' (checkedAdd_norm _ _ _ hav') hav0
    obtain ⟨d', hdd'⟩ := checkedSub_same_sign av' (Integer.newPositive p'.margin) hflag
    have ed' := (checkedSub_ok _ _ _ hdd').1
    rw [toInt_newPositive] at ed'
    have hpos' := isPositive_iff d'
    have hsame : d'.isPositive = d.isPositive := by
      cases h1 : d.isPositive <;> cases h2 : d'.isPositive <;> try rfl
      · have := hpos'.1 h2
        have : ¬ 0 ≤ d.toInt := fun hh => by rw [hpos.2 hh] at h1; cases h1
        omega
      · have := hpos.1 h1
        have : ¬ 0 ≤ d'.toInt := fun hh => by rw [hpos'.2 hh] at h2; cases h2
        omega
    have hminflag : (if d'.isPositive = true then Integer.newPositive p'.margin else av').negative
        = (Integer.newPositive req).negative := by
      split
      · rfl
      · exact hflag
    obtain ⟨fc', hfc'⟩ := checkedSub_same_sign _ _ hminflag
    have efin' := (checkedSub_ok _ _ _ hfc').1
    rw [toInt_newPositive] at efin'
    refine ⟨fc', ?_, ?_⟩
    · by_cases hsz : p.size.isPositive = true
      · rw [if_pos hsz] at hreq
        simp only [bind, Except.bind, hcp, hav', hdd', hsz, if_true] at hreq ⊢
        split at hreq
        · cases hreq
        · simp only [hreq]
          exact hfc'
      · rw [if_neg hsz] at hreq
        simp only [bind, Except.bind, hcp, hav', hdd', hsz] at hreq ⊢
        split at hreq
        · cases hreq
        · simp only [hreq]
          exact hfc'
    · rw [efin', efin, hsame]
      split
      · rw [toInt_newPositive, toInt_newPositive]; omega
      · omega

theorem latestCum_congr {e e1 : E} (h : e1.vammMaps = e.vammMaps) (v : Nat) : latestCum e1 v = latestCum e v := by
  unfold latestCum readVammMap; rw [h]

theorem fundingPayment_toInt (e : E) (p : Position) (fp : Integer)
    (h : calcFundingPayment e p (latestCum e p.vamm) = .ok fp) : fp.toInt = - EngineMoney.fundingOwed e p := by
  unfold calcFundingPayment at h
  unfold EngineMoney.fundingOwed EngineMoney.trunc
  split at h
  · simp only [bind_ok_iff] at h
    obtain ⟨d, h1, m, h2, f, h3, h4⟩ := h
    have e1 := (sub_ok _ _ _ h1).1
    have e2 := (checkedMul_ok _ _ _ h2).1
    have e3 := (checkedDiv_ok _ _ _ h3).1
    have e4 := (checkedMul_ok _ _ _ h4).1
    rw [toInt_newPositive] at e3
    rw [toInt_newNegative] at e4
    rw [e4, e3, e2, e1]
    omega
  · rename_i hz
    injection h with h
    subst h
    have hz' : p.size.isZero = true := by simpa using hz
    have := (isZero_iff p.size).1 hz'
    rw [this, Int.mul_zero, Int.zero_tdiv]
    rfl

theorem pwf_pre (e : E) (v s amt : Nat) (rm : RemainMargin) (p0 : Position)
    (hrm : calcRemainMargin e (readPosition e v s) (Integer.newNegative amt) = .ok rm) (hb : rm.badDebt = 0)
    (hkey : (readPosition e v s).vamm = v)
    (h : positionWithFunding e v s = .ok p0) :
    p0 = { readPosition e v s with margin := rm.margin + amt } := by
  unfold positionWithFunding at h
  simp only [bind_ok_iff, pure_ok_iff] at h
  obtain ⟨fp, hfp, m, hm, rfl⟩ := h
  rw [← hkey] at hfp
  rw [hkey] at hfp
  have hfp' : calcFundingPayment e (readPosition e v s) (latestCum e (readPosition e v s).vamm) = .ok fp := by
    rw [hkey]; exact hfp
  have efp := fundingPayment_toInt e _ fp hfp'
  have em := (add_ok _ _ _ hm).1
  rw [toInt_newPositive] at em
  obtain ⟨_, _, c1, c2⟩ := EngineMoney.calcRemainMargin_spec e _ _ rm hrm
  rw [toInt_newNegative] at c1 c2
  have hv := toInt_natAbs m
  by_cases hc : 0 ≤ -(amt : Int) - EngineMoney.fundingOwed e (readPosition e v s) + (readPosition e v s).margin
  · obtain ⟨c3, _⟩ := c1 hc
    have hpos : m.isPositive = true := (isPositive_iff m).2 (by omega)
    rw [if_pos hpos]
    have : m.value = rm.margin + amt := by omega
    rw [this]
  · have := (c2 (by omega)).2
    omega

theorem pwf_post (e1 : E) (v s : Nat) (hchk : (readPosition e1 v s).chk = latestCum e1 v)
    (hD : e1.cfg.decimals ≠ 0) (hm : (readPosition e1 v s).margin ≤ U128.MAX) :
    positionWithFunding e1 v s = .ok (readPosition e1 v s) := by
  have hfp : calcFundingPayment e1 (readPosition e1 v s) (latestCum e1 v) = .ok ⟨0, false⟩ := by
    unfold calcFundingPayment
    split
    · rw [hchk]
      obtain ⟨d, hd, hd0⟩ := sub_self_val (latestCum e1 v)
      obtain ⟨m, hm', hm0⟩ := mul_zero_val d (readPosition e1 v s).size hd0
      obtain ⟨f, hf, hf0⟩ := div_zero_val m e1.cfg.decimals hm0 hD
      simp only [hd, hm', hf, bind, Except.bind]
      exact mul_neg_one_zero f hf0
    · rfl
  unfold positionWithFunding
  simp only [hfp, bind, Except.bind]
  have hadd : Integer.add (Integer.newPositive (readPosition e1 v s).margin) ⟨0, false⟩
      = .ok (Integer.newPositive (readPosition e1 v s).margin) := by
    unfold Integer.add
    simp only [Integer.newPositive]
    have : cadd (readPosition e1 v s).margin 0 = .ok (readPosition e1 v s).margin := (cadd_ok _ _ _).2 ⟨by omega, rfl⟩
    rw [this]
    rfl
  rw [hadd]
  rfl

/-- **C05, free collateral after a withdrawal**: the same query on the post-state answers the old
    free collateral minus the amount withdrawn -/
theorem fc_after_withdraw (q : Q) (e e1 : E) (v s amt : Nat) (rm : RemainMargin) (fc : Integer)
    (hrm : calcRemainMargin e (readPosition e v s) (Integer.newNegative amt) = .ok rm) (hb : rm.badDebt = 0)
    (hfc : queryFreeCollateral q e v s = .ok fc) (hle : (amt : Int) ≤ fc.toInt)
    (hp : readPosition e1 v s = { readPosition e v s with margin := rm.margin, chk := rm.latest })
    (hcfg : e1.cfg = e.cfg) (hvm : e1.vammMaps = e.vammMaps)
    (hrep : (readPosition e v s).margin ≤ U128.MAX) (hkey : (readPosition e v s).vamm = v) :
    ∃ fc', queryFreeCollateral q e1 v s = .ok fc' ∧ fc'.toInt = fc.toInt - amt := by
  rw [qfc_eq] at hfc ⊢
  obtain ⟨p0, hp0, htail⟩ := EngineMoney.bind_ok hfc
  have hp0' := pwf_pre e v s amt rm p0 hrm hb hkey hp0
  obtain ⟨hmle, hD⟩ := calcRemainMargin_margin_le e _ _ rm hrm hrep
  have hlat : rm.latest = latestCum e v := by
    have := (EngineMoney.calcRemainMargin_spec e _ _ rm hrm).2.1
    rw [hkey] at this; exact this
  have hpost : positionWithFunding e1 v s = .ok (readPosition e1 v s) := by
    apply pwf_post
    · rw [hp, latestCum_congr hvm]; exact hlat
    · rw [hcfg]; exact hD
    · rw [hp]; exact hmle
  rw [hpost]
  subst hp0'
  refine fcTail_shift q e e1 _ (readPosition e1 v s) fc amt ?_ ?_ ?_ ?_ hcfg ?_ htail hle
  all_goals rw [hp]

/-! ### `MarginRep` -/

/-- **hypothesis of `sat_C05`** (kind (a): invariant of reachable worlds, `marginRep_step` below).
    Every stored margin fits `Uint128` — in the implementation the field *is* a `Uint128`; the model stores
    a `Nat`.  Needed by the clause `free-collateral-undefined-after-withdraw` only: before the withdrawal
    `query_free_collateral` computes `margin - funding` (a subtraction when funding is owed), afterwards the
    checkpoint has moved and it computes `margin' + 0` with the checked `Uint128` addition, which fails for a
    margin above `u128::MAX`.  Counterexample without it: `Skel/SatC.lean`, `Wit.C05_marginRep_witness`. -/
def MarginRep (e : E) : Prop := ∀ p ∈ e.positions, p.margin ≤ U128.MAX

theorem MarginRep_read {e : E} (h : MarginRep e) (v t : Nat) : (readPosition e v t).margin ≤ U128.MAX := by
  rw [MirrorP.readPosition_rdL]
  rcases MirrorP.rdL_mem e.positions v t with hm | hd
  · exact h _ hm
  · rw [hd]; exact Nat.zero_le _

theorem MarginRep_get {e : E} (h : MarginRep e) (env : Env) (v t : Nat) (side : Side) :
    (getPosition env e v t side).margin ≤ U128.MAX := by
  unfold getPosition
  simp only []
  split
  · exact MarginRep_read h v t
  · exact MarginRep_read h v t

theorem MarginRep_store (e e2 : E) (p' : Position) (hs : MarginRep e) (hp : p'.margin ≤ U128.MAX)
    (h : e2.positions = (storePosition e p').positions) : MarginRep e2 := by
  intro q hq
  rw [h] at hq
  have hq' : q ∈ p' :: erasePosition e.positions p'.vamm p'.trader := hq
  rcases List.mem_cons.1 hq' with rfl | hq'
  · exact hp
  · exact hs q (MirrorP.mem_erase hq').1

theorem MarginRep_remove (e e2 : E) (p : Position) (hs : MarginRep e)
    (h : e2.positions = (removePosition e p).positions) : MarginRep e2 := by
  intro q hq
  rw [h] at hq
  exact hs q (MirrorP.mem_erase hq).1

theorem MarginRep_congr {e e2 : E} (h : e2.positions = e.positions) (hs : MarginRep e) : MarginRep e2 := by
  intro q hq
  rw [h] at hq
  exact hs q hq

macro "mr_store " hM:ident : tactic => `(tactic|
  (refine MarginRep_store _ _ _ $hM ?_ rfl
   first
     | exact Nat.zero_le _
     | exact (calcRemainMargin_margin_le _ _ _ _ ‹calcRemainMargin _ _ _ = Except.ok _› (MarginRep_get $hM _ _ _ _)).1
     | exact (calcRemainMargin_margin_le _ _ _ _ ‹calcRemainMargin _ _ _ = Except.ok _› (MarginRep_read $hM _ _)).1))

set_option maxHeartbeats 1600000 in
theorem updatePositionReply_mr (q : Q) (e : E) (env : Env) (i o id : Nat) (hM : MarginRep e) :
    Post (fun r => MarginRep r.1) (updatePositionReply q e env i o id) := by
  unfold updatePositionReply
  post_walk [mr_store hM]

theorem reversePositionReply_mr (q : Q) (e : E) (env : Env) (o : Nat) (hM : MarginRep e) :
    Post (fun r => MarginRep r.1) (reversePositionReply q e env o) := by
  unfold reversePositionReply
  post_walk [mr_store hM]

theorem closePositionReply_mr (q : Q) (e : E) (env : Env) (o : Nat) (hM : MarginRep e) :
    Post (fun r => MarginRep r.1) (closePositionReply q e env o) := by
  unfold closePositionReply
  post_walk [exact MarginRep_remove _ _ _ hM rfl]

theorem partialClosePositionReply_mr (q : Q) (e : E) (env : Env) (i o : Nat) (hM : MarginRep e) :
    Post (fun r => MarginRep r.1) (partialClosePositionReply q e env i o) := by
  unfold partialClosePositionReply
  post_walk [mr_store hM]

theorem liquidateReply_mr (q : Q) (e : E) (env : Env) (o : Nat) (hM : MarginRep e) :
    Post (fun r => MarginRep r.1) (liquidateReply q e env o) := by
  unfold liquidateReply
  post_walk [exact MarginRep_remove _ _ _ hM rfl]

theorem partialLiquidationReply_mr (q : Q) (e : E) (env : Env) (i o : Nat) (hM : MarginRep e) :
    Post (fun r => MarginRep r.1) (partialLiquidationReply q e env i o) := by
  cases hs : e.tmpSwap with
  | none => unfold partialLiquidationReply; rw [hs]; post_walk [skip]
  | some sw =>
    unfold partialLiquidationReply
    rw [hs]
    post_walk [(
      refine MarginRep_store _ _ _ hM ?_ rfl
      have hg := MarginRep_get hM env sw.vamm sw.trader sw.side
      dsimp only
      simp only [csub_ok] at *
      omega)]

theorem payFundingReply_mr (q : Q) (e : E) (env : Env) (pf : Integer) (v : Nat) (hM : MarginRep e) :
    Post (fun r => MarginRep r.1) (payFundingReply q e env pf v) := by
  unfold payFundingReply
  post_walk [exact MarginRep_congr (WorldInv.appendCum_frame _ _ _ _ ‹appendCum _ _ _ = Except.ok _›).1 hM]

theorem replyOk_mr (q : Q) (e e' : E) (env : Env) (id : Nat) (ev : Ev) (subs : List SubMsg) (hM : MarginRep e)
    (h : replyOk q e env id ev = .ok (e', subs)) : MarginRep e' := by
  have : Post (fun r => MarginRep r.1) (replyOk q e env id ev) := by
    unfold replyOk
    repeat' split
    all_goals try dsimp only []
    all_goals first
      | (with_reducible exact EngineGuards.Post_error)
      | (with_reducible exact payFundingReply_mr _ _ _ _ _ hM)
      | (with_reducible exact updatePositionReply_mr _ _ _ _ _ _ hM)
      | (with_reducible exact reversePositionReply_mr _ _ _ _ hM)
      | (with_reducible exact closePositionReply_mr _ _ _ _ hM)
      | (with_reducible exact partialClosePositionReply_mr _ _ _ _ _ hM)
      | (with_reducible exact liquidateReply_mr _ _ _ _ hM)
      | (with_reducible exact partialLiquidationReply_mr _ _ _ _ _ hM)
  exact this _ h

theorem depositMargin_mr (e : E) (env : Env) (s : Nat) (f : Funds) (v a : Nat) (hM : MarginRep e) :
    Post (fun r => MarginRep r.1) (depositMargin e env s f v a) := by
  unfold depositMargin
  post_walk [(
    refine MarginRep_store _ _ _ hM ?_ rfl
    have hc := (cadd_ok _ _ _).1 ‹cadd _ _ = Except.ok _›
    dsimp only
    omega)]

theorem withdrawMargin_mr (q : Q) (e : E) (env : Env) (s v a : Nat) (hM : MarginRep e) :
    Post (fun r => MarginRep r.1) (withdrawMargin q e env s v a) := by
  unfold withdrawMargin
  post_walk [mr_store hM]

theorem execute_mr (q : Q) (e e' : E) (env : Env) (s : Nat) (f : Funds) (m : ExecMsg) (msgs : List SubMsg)
    (hM : MarginRep e) (h : execute q e env s f m = .ok (e', msgs)) : MarginRep e' := by
  have hfr : ∀ e1, WorldInv.Frame e e1 → MarginRep e1 := fun e1 hf => MarginRep_congr hf.1 hM
  cases m with
  | updateConfig u =>
    obtain ⟨e1, h1, h2⟩ := (EngineGuards.exmap_ok _ _ _).1 h
    cases h2
    exact hfr _ (WorldInv.updateConfig_frame _ _ _ _ h1)
  | updatePauser p =>
    obtain ⟨e1, h1, h2⟩ := (EngineGuards.exmap_ok _ _ _).1 h
    cases h2
    exact hfr _ (WorldInv.updatePauser_frame _ _ _ _ h1)
  | addWhitelist a =>
    obtain ⟨e1, h1, h2⟩ := (EngineGuards.exmap_ok _ _ _).1 h
    cases h2
    exact hfr _ (WorldInv.addWhitelist_frame _ _ _ _ h1)
  | removeWhitelist a =>
    obtain ⟨e1, h1, h2⟩ := (EngineGuards.exmap_ok _ _ _).1 h
    cases h2
    exact hfr _ (WorldInv.removeWhitelist_frame _ _ _ _ h1)
  | setPause p =>
    obtain ⟨e1, h1, h2⟩ := (EngineGuards.exmap_ok _ _ _).1 h
    cases h2
    exact hfr _ (WorldInv.setPause_frame _ _ _ _ h1)
  | openPosition v sd mg l b => exact MarginRep_congr (WorldInv.openPosition_frame _ _ _ _ _ _ _ _ _ _ _ h).1 hM
  | closePosition v l => exact MarginRep_congr (WorldInv.closePosition_frame _ _ _ _ _ _ _ h).1 hM
  | liquidate v t l => exact MarginRep_congr (WorldInv.liquidate_frame _ _ env _ _ _ _ _ h).1 hM
  | payFunding v =>
    obtain ⟨h1, _⟩ := WorldInv.payFunding_frame _ _ _ _ h
    dsimp only at h1
    rw [h1]; exact hM
  | depositMargin v a => exact depositMargin_mr _ env _ _ _ _ hM _ h
  | withdrawMargin v a => exact withdrawMargin_mr _ _ env _ _ _ hM _ h

/-- `MarginRep` is preserved by every successful transaction -/
theorem marginRep_applyTx (w w' : World) (env : Env) (s : Nat) (f : Funds) (tx : Tx)
    (hM : MarginRep w.engine) (h : applyTx w env s f tx = .ok w') : MarginRep w'.engine := by
  by_cases hne : ∃ m, tx = .engine m
  · obtain ⟨m, rfl⟩ := hne
    obtain ⟨w1, e1, subs, a1, _, _, _, _, _, hex, hrun⟩ := WorldInv.applyTx_engine_inv w w' env s f m h
    have h1 : MarginRep e1 := execute_mr _ _ _ _ _ _ _ _ (by rw [a1]; exact hM) hex
    exact WorldInv.execSubs_engine_invariant MarginRep
      (fun q e e' env' id ev subs' hP hrep => replyOk_mr q e e' env' id ev subs' hP hrep)
      FUEL { w1 with engine := e1 } w' subs hrun h1
  · rw [WorldInv.applyTx_nonengine_frame w w' env s f tx (fun m hm => hne ⟨m, hm⟩) h]
    exact hM

/-- `MarginRep` is an invariant of the transaction system -/
theorem marginRep_step (w : World) (env : Env) (s : Nat) (f : Funds) (tx : Tx) (hM : MarginRep w.engine) :
    MarginRep (step w env s f tx).engine := by
  unfold step
  split
  · rename_i w' h
    exact marginRep_applyTx w w' env s f tx hM h
  · exact hM


end Perp.Props.SatC
