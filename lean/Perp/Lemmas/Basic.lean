/-
  Inversion lemmas for the `Except` monad and the checked `Uint128` operations.
  Property proofs are written against these (never against the definitions' `if`s).
-/
import Perp.Model.U128

namespace Perp

@[simp] theorem bind_ok_iff {ε α β : Type} (x : Except ε α) (f : α → Except ε β) (r : β) :
    (x >>= f) = .ok r ↔ ∃ v, x = .ok v ∧ f v = .ok r := by
  cases x <;> simp [bind, Except.bind]

@[simp] theorem bind_error_iff {ε α β : Type} (x : Except ε α) (f : α → Except ε β) (e : ε) :
    (x >>= f) = .error e ↔ (x = .error e ∨ ∃ v, x = .ok v ∧ f v = .error e) := by
  cases x <;> simp [bind, Except.bind]

@[simp] theorem pure_ok_iff {ε α : Type} (a r : α) :
    (pure a : Except ε α) = .ok r ↔ a = r := by
  simp [pure, Except.pure]

@[simp] theorem pure_ne_error {ε α : Type} (a : α) (e : ε) :
    (pure a : Except ε α) ≠ .error e := by
  simp [pure, Except.pure]

theorem except_cases {ε α : Type} (x : Except ε α) : (∃ e, x = .error e) ∨ (∃ v, x = .ok v) := by
  cases x <;> simp

theorem isErr_iff_not_ok {ε α : Type} (x : Except ε α) : (∃ e, x = .error e) ↔ ¬ ∃ v, x = .ok v := by
  cases x <;> simp

@[simp] theorem cadd_ok (a b c : Nat) : cadd a b = .ok c ↔ (a + b ≤ U128.MAX ∧ c = a + b) := by
  unfold cadd; split <;> simp_all <;> omega

@[simp] theorem csub_ok (a b c : Nat) : csub a b = .ok c ↔ (b ≤ a ∧ c = a - b) := by
  unfold csub; split <;> simp_all <;> omega

@[simp] theorem cmul_ok (a b c : Nat) : cmul a b = .ok c ↔ (a * b ≤ U128.MAX ∧ c = a * b) := by
  unfold cmul; split <;> simp_all <;> omega

@[simp] theorem cdiv_ok (a b c : Nat) : cdiv a b = .ok c ↔ (b ≠ 0 ∧ c = a / b) := by
  unfold cdiv; split <;> simp_all <;> omega

theorem cadd_err (a b : Nat) : (∃ e, cadd a b = .error e) ↔ U128.MAX < a + b := by
  unfold cadd; split <;> simp_all <;> omega

theorem csub_err (a b : Nat) : (∃ e, csub a b = .error e) ↔ a < b := by
  unfold csub; split <;> simp_all <;> omega

theorem cmul_err (a b : Nat) : (∃ e, cmul a b = .error e) ↔ U128.MAX < a * b := by
  unfold cmul; split <;> simp_all <;> omega

theorem cdiv_err (a b : Nat) : (∃ e, cdiv a b = .error e) ↔ b = 0 := by
  unfold cdiv; split <;> simp_all

end Perp

namespace Perp

@[simp high] theorem map_ok_iff {ε α β : Type} (f : α → β) (x : Except ε α) (r : β) :
    (f <$> x) = .ok r ↔ ∃ v, x = .ok v ∧ f v = r := by
  cases x <;> simp [Functor.map, Except.map]

@[simp high] theorem map_error_iff {ε α β : Type} (f : α → β) (x : Except ε α) (e : ε) :
    (f <$> x) = .error e ↔ x = .error e := by
  cases x <;> simp [Functor.map, Except.map]

end Perp

instance {ε α : Type} [DecidableEq ε] [DecidableEq α] : DecidableEq (Except ε α)
  | .ok a, .ok b => if h : a = b then isTrue (by rw [h]) else isFalse (fun h' => h (by injection h'))
  | .error a, .error b => if h : a = b then isTrue (by rw [h]) else isFalse (fun h' => h (by injection h'))
  | .ok _, .error _ => isFalse (fun h => by cases h)
  | .error _, .ok _ => isFalse (fun h => by cases h)
