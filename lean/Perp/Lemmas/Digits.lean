/-
  The decimal codec of `Integer`'s string form: printing a `Nat` and parsing it back.
-/
import Perp.Model.Integer

namespace Perp.Digits
open Perp Perp.Integer

theorem charDigit_digitChar : ∀ d, d < 10 → charDigit? (digitChar d) = some d := by decide

theorem digitChar_ne_sign : ∀ d, d < 10 → digitChar d ≠ '-' ∧ digitChar d ≠ '+' := by decide

/-- value of a least-significant-first digit list -/
def evalRev : List Char → Option Nat
  | [] => some 0
  | c :: cs =>
    match charDigit? c, evalRev cs with
    | some d, some r => some (d + 10 * r)
    | _, _ => none

theorem parseDigits_append_single (xs : List Char) (c : Char) (acc : Nat) :
    parseDigits (xs ++ [c]) acc =
      match parseDigits xs acc, charDigit? c with
      | some a, some d => some (a * 10 + d)
      | _, _ => none := by
  induction xs generalizing acc with
  | nil => simp [parseDigits]; cases charDigit? c <;> simp
  | cons x xs ih =>
    simp only [List.cons_append, parseDigits]
    cases hx : charDigit? x with
    | none => simp
    | some d => simp [ih]

theorem parseDigits_reverse (l : List Char) :
    parseDigits l.reverse 0 = evalRev l := by
  induction l with
  | nil => simp [parseDigits, evalRev]
  | cons c cs ih =>
    simp only [List.reverse_cons, parseDigits_append_single, ih, evalRev]
    cases evalRev cs <;> cases charDigit? c <;> simp
    omega

theorem evalRev_digitsRev (fuel n : Nat) (h : n < fuel) : evalRev (digitsRev fuel n) = some n := by
  induction fuel generalizing n with
  | zero => omega
  | succ fuel ih =>
    unfold digitsRev
    split
    · rename_i hlt
      simp [evalRev, charDigit_digitChar n hlt]
    · rename_i hge
      have h1 : n / 10 < fuel := by omega
      have h2 : n % 10 < 10 := Nat.mod_lt _ (by omega)
      simp only [evalRev, charDigit_digitChar _ h2, ih _ h1]
      congr 1
      omega

theorem digitsRev_all (fuel n : Nat) : ∀ c ∈ digitsRev fuel n, ∃ d, d < 10 ∧ c = digitChar d := by
  induction fuel generalizing n with
  | zero => simp [digitsRev]
  | succ fuel ih =>
    unfold digitsRev
    split
    · rename_i hlt
      intro c hc
      simp at hc
      exact ⟨n, hlt, hc⟩
    · intro c hc
      simp at hc
      rcases hc with hc | hc
      · exact ⟨n % 10, Nat.mod_lt _ (by omega), hc⟩
      · exact ih _ c hc

theorem digitsRev_ne_nil (fuel n : Nat) : digitsRev (fuel + 1) n ≠ [] := by
  unfold digitsRev; split <;> simp

theorem natToString_ne_nil (n : Nat) : natToString n ≠ [] := by
  simp [natToString, digitsRev_ne_nil]

theorem natToString_all (n : Nat) : ∀ c ∈ natToString n, ∃ d, d < 10 ∧ c = digitChar d := by
  intro c hc
  simp only [natToString, List.mem_reverse] at hc
  exact digitsRev_all _ _ c hc

theorem natToString_head (n : Nat) (c : Char) (cs : List Char) (h : natToString n = c :: cs) :
    c ≠ '-' ∧ c ≠ '+' := by
  have hm : c ∈ natToString n := by rw [h]; simp
  obtain ⟨d, hd, rfl⟩ := natToString_all n c hm
  exact digitChar_ne_sign d hd

theorem parseDigits_natToString (n : Nat) : parseDigits (natToString n) 0 = some n := by
  simp only [natToString, parseDigits_reverse]
  exact evalRev_digitsRev _ _ (by omega)

theorem parseU128_natToString (n : Nat) (h : n ≤ U128.MAX) : parseU128 (natToString n) = some n := by
  cases hs : natToString n with
  | nil => exact absurd hs (natToString_ne_nil n)
  | cons c cs =>
    have hh := natToString_head n c cs hs
    have hp := parseDigits_natToString n
    rw [hs] at hp
    unfold parseU128
    split
    · rename_i r heq
      injection heq with h1 h2
      exact absurd h1 hh.2
    · simp [hp, h]

end Perp.Digits
