/-
  Lemmas about the collateral ledger's association list (`Ledger.get` / `Ledger.set`).
-/
import Perp.Model.World
import Perp.Lemmas.Basic

namespace Perp.Ledger

/-- sum of the values of an association list -/
def sumv (l : List (Nat × Nat)) : Nat := (l.map (·.2)).sum

theorem foldl_add_eq (l : List Nat) (acc : Nat) : l.foldl (· + ·) acc = acc + l.sum := by
  induction l generalizing acc with
  | nil => simp
  | cons x xs ih => simp [List.foldl_cons, ih]; omega

theorem foldl_eq_sumv (l : List (Nat × Nat)) : (l.map (·.2)).foldl (· + ·) 0 = sumv l := by
  rw [foldl_add_eq]; simp [sumv]

@[simp] theorem get_nil (a : Nat) : get [] a = 0 := by simp [get]

theorem get_cons (p : Nat × Nat) (l : List (Nat × Nat)) (a : Nat) :
    get (p :: l) a = if p.1 = a then p.2 else get l a := by
  unfold get
  by_cases h : p.1 = a <;> simp [h]

theorem get_eq_zero_of_not_mem (l : List (Nat × Nat)) (a : Nat) (h : a ∉ l.map (·.1)) : get l a = 0 := by
  induction l with
  | nil => simp
  | cons p l ih =>
    simp at h
    rw [get_cons]
    have h1 : ¬ p.1 = a := fun e => h.1 e.symm
    simp [h1]
    apply ih
    simpa using h.2

theorem get_filter_ne (l : List (Nat × Nat)) (a b : Nat) (h : b ≠ a) :
    get (l.filter (fun p => p.1 != a)) b = get l b := by
  induction l with
  | nil => simp
  | cons p l ih =>
    by_cases hp : p.1 = a
    · have hab : ¬ a = b := by omega
      simp [hp, get_cons, hab, ih]
    · simp [hp, get_cons, ih]

theorem get_set_self (l : List (Nat × Nat)) (a v : Nat) : get (set l a v) a = v := by
  simp [set, get_cons]

theorem get_set_ne (l : List (Nat × Nat)) (a b v : Nat) (h : b ≠ a) : get (set l a v) b = get l b := by
  have : ¬ a = b := by omega
  simp [set, get_cons, this, get_filter_ne l a b h]

theorem keys_filter_nodup (l : List (Nat × Nat)) (a : Nat) (hk : (l.map (·.1)).Nodup) :
    ((l.filter (fun p => p.1 != a)).map (·.1)).Nodup :=
  List.Nodup.sublist (List.Sublist.map _ List.filter_sublist) hk

theorem not_mem_keys_filter (l : List (Nat × Nat)) (a : Nat) :
    a ∉ (l.filter (fun p => p.1 != a)).map (·.1) := by
  simp

theorem keys_set_nodup (l : List (Nat × Nat)) (a v : Nat) (hk : (l.map (·.1)).Nodup) :
    ((set l a v).map (·.1)).Nodup := by
  unfold set
  rw [List.map_cons, List.nodup_cons]
  exact ⟨not_mem_keys_filter l a, keys_filter_nodup l a hk⟩

theorem sumv_filter (l : List (Nat × Nat)) (a : Nat) (hk : (l.map (·.1)).Nodup) :
    sumv (l.filter (fun p => p.1 != a)) + get l a = sumv l := by
  induction l with
  | nil => simp [sumv]
  | cons p l ih =>
    rw [List.map_cons, List.nodup_cons] at hk
    by_cases hp : p.1 = a
    · have hz : get l a = 0 := get_eq_zero_of_not_mem l a (hp ▸ hk.1)
      have := ih hk.2
      simp [hp, get_cons, sumv] at *
      omega
    · have := ih hk.2
      simp [hp, get_cons, sumv] at *
      omega

theorem sumv_set (l : List (Nat × Nat)) (a v : Nat) (hk : (l.map (·.1)).Nodup) :
    sumv (set l a v) + get l a = sumv l + v := by
  have := sumv_filter l a hk
  simp [set, sumv] at *
  omega

end Perp.Ledger
