import Perp.Model.U128
import Perp.Model.Integer
