import Perp.Model.Instantiate
import Perp.Spec.Monitor
import Driver.Parse

/-!
  `EINST` lines: the margin engine's `instantiate` on boundary-biased parameters (harness: after the last
  transaction of every world history).  Spec (C20 at deployment): an accepted instantiate stores a configuration
  within bounds — every ratio in [0,1], maintenance ≤ initial — with partial-liquidation ratio 0 and a zero state;
  correspondence: `Engine.instantiate` accepts exactly the same messages and stores the same configuration
  (`Props.Inst.instantiate_ok_iff / instantiate_spec / instantiate_configOK` are about that function).
-/
namespace Driver
open Perp

def handleEInst (acc : Acc) (kv : KV) (line : String) : Acc :=
  let acc := { acc with checked := acc.checked + 1 }
  let ok := kv.bool "ok"
  let msg : Engine.InstantiateMsg :=
    { pauser := 111, insuranceFund := 2, feePool := 3, native := kv.bool "native", tokenDecimals := kv.nat "dec",
      imr := kv.nat "imr", mmr := kv.nat "mmr", liqFee := kv.nat "lf" }
  let obs : Engine.Config :=
    { owner := kv.nat "c.owner", insuranceFund := 2, feePool := 3, native := kv.bool "native", decimals := kv.nat "c.dec",
      imr := kv.nat "c.imr", mmr := kv.nat "c.mmr", plr := kv.nat "c.plr", liqFee := kv.nat "c.lf" }
  -- 1. specification on the implementation's answer
  let acc := if ok && !(Perp.Spec.Monitor.engineConfigB obs) then acc.report "SPECFAIL" "C20" "einst:instantiate-stored-config-out-of-bounds" line else acc
  let acc := if ok && (obs.plr != 0 || kv.nat "s.oi" != 0 || kv.nat "s.prepaid" != 0)
    then acc.report "SPECFAIL" "C20" "einst:fresh-engine-not-in-default-state" line else acc
  let acc := if ok && obs.decimals != 10 ^ msg.tokenDecimals then acc.report "SPECFAIL" "C20" "einst:decimals-not-the-collateral's" line else acc
  -- 2. correspondence
  match Engine.instantiate 100 msg with
  | .ok e =>
    let acc := acc.cover "einst:ok"
    if !ok then acc.report "DISAGREE" "C20" s!"einst:accept(model-ok,impl-err:{kv.str "err"})" line
    else if e.cfg.decimals == obs.decimals && e.cfg.imr == obs.imr && e.cfg.mmr == obs.mmr && e.cfg.plr == obs.plr
            && e.cfg.liqFee == obs.liqFee && e.cfg.owner == obs.owner then acc
    else acc.report "DISAGREE" "C20" "einst:stored-config" line
  | .error err =>
    let tag := match err with | .guard c => s!"guard{c}" | .panic => "panic" | _ => "other"
    let acc := acc.cover s!"einst:{tag}"
    if ok then acc.report "DISAGREE" "C20" s!"einst:accept(model-err:{tag},impl-ok)" line else acc

end Driver
