import Perp.Model.VammRun
import Perp.Spec.Vamm
import Perp.Spec.Ghost
import Driver.Parse

/-!
  Driver for `VCFG` / `VOP` lines (vAMM unit histories, produced by harness `vamm` mode).
  For each operation the pre-state is the implementation's previous post-state (resync), so
  every line checks the commuting square `abs (impl_step s) = model_step (abs s)`.
-/
namespace Driver
open Perp Perp.Vamm

def parseSnap (s : String) : Option Snapshot :=
  match s.splitOn ":" with
  | [q, b, t, h] =>
    match q.toNat?, b.toNat?, t.toNat?, h.toNat? with
    | some q, some b, some t, some h => some ⟨q, b, t, h⟩
    | _, _, _, _ => none
  | _ => none

def parseSnaps (s : String) : List Snapshot :=
  if s == "" then [] else (s.splitOn ";").filterMap parseSnap

/-- decode the post-state tokens into a model state (decimals come from the VCFG line) -/
def parseV (kv : KV) (D : Nat) (fper : Nat) : V :=
  { cfg := { owner := kv.nat "own", marginEngine := kv.nat "eng", insuranceFund := kv.nat "ifd",
             pricefeed := kv.nat "feed", holdingCap := kv.nat "cap", oiCap := kv.nat "oic",
             decimals := D, toll := kv.nat "toll", spread := kv.nat "spread", fluct := kv.nat "fluct",
             twapInterval := kv.nat "twi", fundingPeriod := kv.nat "fper", fundingBuffer := fper / 2 },
    st := { isOpen := kv.bool "open", quote := kv.nat "q", base := kv.nat "b",
            net := ⟨kv.nat "netv", kv.bool "netn"⟩, fundingRate := ⟨kv.nat "frv", kv.bool "frn"⟩,
            nextFunding := kv.nat "next", snaps := parseSnaps (kv.str "snaps") } }

/-- observational equality of vAMM states (Integers by denotation) -/
def sameV (a b : V) : Bool :=
  a.cfg == b.cfg && a.st.isOpen == b.st.isOpen && a.st.quote == b.st.quote && a.st.base == b.st.base
  && a.st.net.toInt == b.st.net.toInt && a.st.fundingRate.toInt == b.st.fundingRate.toInt
  && a.st.nextFunding == b.st.nextFunding && a.st.snaps == b.st.snaps

/-- which part of the state differs (for attribution) -/
def diffV (a b : V) : String :=
  (if a.cfg != b.cfg then "cfg," else "") ++
  (if a.st.isOpen != b.st.isOpen then "open," else "") ++
  (if a.st.quote != b.st.quote || a.st.base != b.st.base then "reserves," else "") ++
  (if a.st.net.toInt != b.st.net.toInt then "net," else "") ++
  (if a.st.fundingRate.toInt != b.st.fundingRate.toInt then "rate," else "") ++
  (if a.st.nextFunding != b.st.nextFunding then "next," else "") ++
  (if a.st.snaps != b.st.snaps then "snaps," else "")

structure VHist where
  D : Nat := 1
  fper : Nat := 0
  alive : Bool := false
  last : V := default
  lastEnv : Env := default
  init : V := default
  /-- earlier (net, state) observations for the quote-recovery check -/
  seen : List State := []
  /-- ghost reserve snapshots: the snapshot history as the MODEL writes it along the observed operations (started from the first
      observation; advanced by the model's own snapshot discipline on every operation the implementation accepted).  The per-block band
      is judged against it as well: a defect in the implementation's snapshot book-keeping moves the band the stored snapshots define -/
  ghost : List Snapshot := []

def dirOf (n : Nat) : Direction := if n == 0 then .addToAmm else .removeFromAmm

def optNat (s : String) : Option Nat := if s == "err" || s == "none" then none else s.toNat?

def errOf (o : Option Nat) : Except Err Nat :=
  match o with
  | some n => .ok n
  | none => .error .panic

def isOk {α : Type} (e : Except Err α) : Bool :=
  match e with
  | .ok _ => true
  | .error _ => false

/-- report helper: several property tags for one finding -/
def reportMany (acc : Acc) (kind : String) (props : List String) (what : String) (line : String) : Acc :=
  props.foldl (fun a p => a.report kind p what line) acc

def handleVCfg (acc : Acc) (h : VHist) (kv : KV) (line : String) : Acc × VHist :=
  let dp := kv.nat "dp"
  let env : Env := ⟨kv.nat "height", kv.nat "time"⟩
  let msg : InstantiateMsg :=
    { decimalPlaces := dp, pricefeed := 4,
      -- `pwired=0`: the deployment left the engine and the fund unset (nobody holds those roles until they are wired)
      marginEngine := (if kv.get? "pwired" == some "0" then none else some 1),
      insuranceFund := (if kv.get? "pwired" == some "0" then none else some 2),
      quoteReserve := kv.nat "qr", baseReserve := kv.nat "br", fundingPeriod := kv.nat "period",
      -- the PARAMETERS of the instantiate message (`ptoll` …); the stored configuration is read from `toll` … by `parseV`
      toll := (match kv.get? "ptoll" with | some t => t.toNat?.getD 0 | none => kv.nat "toll"),
      spread := (match kv.get? "pspread" with | some t => t.toNat?.getD 0 | none => kv.nat "spread"),
      fluct := (match kv.get? "pfluct" with | some t => t.toNat?.getD 0 | none => kv.nat "fluct") }
  let m := Vamm.instantiate env 3 msg
  let acc := { acc with checked := acc.checked + 1 }
  let acc := match m with | .error e => acc.cover ("vamm.instantiate:" ++ errTagOf e) | .ok _ => acc.cover "vamm.instantiate:ok"
  let implOk := kv.bool "ok"
  if implOk != isOk m then
    (reportMany acc "DISAGREE" ["C20", "C01"] "vamm-instantiate-accept" line, { h with alive := false })
  else if !implOk then (acc, { h with alive := false })
  else
    let D := 10 ^ dp
    let impl := parseV kv D (kv.nat "period")
    let acc := match m with
      | .ok mv => if sameV mv impl then acc else
          reportMany acc "DISAGREE" (["C20", "C01", "C18"] ++ (if mv.cfg.toll != impl.cfg.toll || mv.cfg.spread != impl.cfg.spread then ["C12"] else [])
              ++ (if mv.cfg.fluct != impl.cfg.fluct then ["C15"] else []) ++ (if mv.cfg.fundingPeriod != impl.cfg.fundingPeriod then ["C11"] else [])
              ++ (if mv.cfg.marginEngine != impl.cfg.marginEngine || mv.cfg.insuranceFund != impl.cfg.insuranceFund || mv.cfg.owner != impl.cfg.owner then ["C09"] else []))
            s!"vamm-instantiate-state:{diffV mv impl}" line
      | .error _ => acc
    -- Spec (C20): accepted configuration is within bounds; (C01 quantifier) reserves ≥ one unit
    let acc := if impl.cfg.toll ≤ D && impl.cfg.spread ≤ D && impl.cfg.fluct ≤ D && dp ≥ 6
        && 60 ≤ impl.cfg.twapInterval && impl.cfg.twapInterval ≤ 604800 then acc
      else acc.report "SPECFAIL" "C20" "vamm-instantiate-bounds" line
    let acc := if Spec.C18.snapshotsOk impl.st env then acc
      else acc.report "SPECFAIL" "C18" "snapshot-discipline-init" line
    (acc, { D := D, fper := kv.nat "period", alive := true, last := impl, lastEnv := env, init := impl,
            seen := [impl.st], ghost := impl.st.snaps })

/-- C01 observation checks after any accepted or rejected operation -/
def specC01 (acc : Acc) (h : VHist) (post : V) (line : String) : Acc :=
  let acc := if Spec.C01.stepOk h.D h.last.st post.st then acc
    else acc.report "SPECFAIL" "C01" "k-or-net-invariant" line
  if h.seen.all (fun e => Spec.C01.recoveryOk h.D e post.st) then acc
  else acc.report "SPECFAIL" "C01" "quote-recovery" line

def handleVOp (acc : Acc) (h : VHist) (kv : KV) (line : String) : Acc × VHist :=
  if !h.alive then (acc, h) else
  let env : Env := ⟨kv.nat "height", kv.nat "time"⟩
  let pre := h.last
  let D := h.D
  let post := parseV kv D h.fper
  let op := kv.str "op"
  let ok := kv.bool "ok"
  let snd := kv.nat "snd"
  let acc := { acc with checked := acc.checked + 1 }
  let acc := acc.cover s!"vamm.{op}:{if ok then "ok" else "err"}"
  -- generic observation checks
  let acc := specC01 acc h post line
  let acc := if Spec.C18.snapshotsOk post.st env then acc
    else acc.report "SPECFAIL" "C18" "snapshot-discipline" line
  let isExec := op == "swapin" || op == "swapout" || op == "settle" || op == "setopen" || op == "updcfg" || op == "updowner"
  -- a rejected call / a query changes nothing
  let acc := if (isExec && ok) || sameV pre post then acc
    else reportMany acc "SPECFAIL" ["C08", "C10"] s!"vamm-state-changed-without-accepted-call:{diffV pre post}" line
  -- the ghost snapshot history (`Spec/Ghost.lean`; sound on the model: `Props/GhostSound.lean`)
  let gop : Spec.Ghost.GOp :=
    match op with
    | "swapin" => .swapIn snd (dirOf (kv.nat "dir")) (kv.nat "amt") (kv.nat "lim") (kv.bool "cgo")
    | "swapout" => .swapOut snd (dirOf (kv.nat "dir")) (kv.nat "amt") (kv.nat "lim")
    | _ => .other
  let ghost' : List Snapshot := Spec.Ghost.next h.ghost pre post env ok gop
  let acc := (Spec.Ghost.bandCheck D h.ghost pre post env ok gop).foldl (fun a t => a.report "SPECFAIL" "C15" t line) acc
  let next : VHist := { h with last := post, lastEnv := env, seen := if h.seen.length < 64 then post.st :: h.seen else h.seen, ghost := ghost' }
  let acc :=
    match op with
    | "swapin" =>
      let dir := dirOf (kv.nat "dir")
      let amt := kv.nat "amt"
      let lim := kv.nat "lim"
      let cgo := kv.bool "cgo"
      let qa := optNat (kv.str "qa")
      let eq := kv.nat "eq"
      let eb := kv.nat "eb"
      -- Spec C17 / C15 / C09 / C14 on the implementation
      let acc := if ok then
          (if Spec.C17.swapInputOk pre.st post.st dir amt lim qa eq eb then acc
           else acc.report "SPECFAIL" "C17" "swap-input-quote-exec-limit" line)
        else acc
      let acc := if amt != 0 then
          match qa with
          | some q =>
            let met := Spec.C17.inputLimitMet dir lim q
            let acc := if !met && ok then acc.report "SPECFAIL" "C17" "limit-violated-but-accepted" line else acc
            if met && !ok && kv.bool "tw" then acc.report "SPECFAIL" "C17" "limit-met-but-rejected" line else acc
          | none => if ok then acc.report "SPECFAIL" "C17" "unquotable-swap-accepted" line else acc
        else acc
      let acc := if ok && snd != pre.cfg.marginEngine then acc.report "SPECFAIL" "C09" "vamm-swap-by-non-engine" line else acc
      let acc := if ok && !pre.st.isOpen then acc.report "SPECFAIL" "C14" "swap-on-closed-vamm" line else acc
      let acc := if pre.cfg.fluct != 0 then
          match Spec.C15.band D pre.cfg.fluct pre.st.snaps env.height with
          | some bd =>
            let inPre := Spec.C15.inside D bd pre.st.quote pre.st.base
            let acc := if ok && !inPre then acc.report "SPECFAIL" "C15" "swap-accepted-outside-band" line else acc
            if ok && !cgo && !(Spec.C15.inside D bd post.st.quote post.st.base)
            then acc.report "SPECFAIL" "C15" "no-go-over-swap-left-band" line else acc
          | none => acc
        else acc
      -- correspondence
      let m := Vamm.swapInput pre env snd dir amt lim cgo
      match m with
      | .ok (mv, mo) =>
        if !ok then
          -- the implementation rejected what the model accepts: the limit is the cause iff the limit-free twin passed
          reportMany acc "DISAGREE" (if kv.bool "tw" && lim != 0 then ["C17"] else ["C01", "C15"]) "swapin-accept(model ok, impl err)" line
        else if mo.quoteAmt != eq || mo.baseAmt != eb then reportMany acc "DISAGREE" ["C01"] "swapin-amounts" line
        else if !sameV mv post then
          reportMany acc "DISAGREE" ((if mv.st.snaps != post.st.snaps then ["C18"] else []) ++
            (if mv.st.quote != post.st.quote || mv.st.base != post.st.base || mv.st.net.toInt != post.st.net.toInt then ["C01"] else []))
            s!"swapin-state:{diffV mv post}" line
        else acc
      | .error e =>
        let acc := acc.cover s!"vamm.{op}:{errTagOf e}"
        if ok then reportMany acc "DISAGREE"
          (match e with
           | .guard 11 | .guard 12 | .guard 13 | .guard 14 => ["C17"]
           | .guard 20 => ["C15"]
           | .guard 21 => ["C01"]   -- the band test on the post-trade price follows the amounts; Spec.C15 judges the price itself
           | .guard 10 => ["C14"]
           | .unauthorized => ["C09"]
           | _ => ["C01"]) "swapin-accept(model err, impl ok)" line else acc
    | "swapout" =>
      let dir := dirOf (kv.nat "dir")
      let amt := kv.nat "amt"
      let lim := kv.nat "lim"
      let qa := optNat (kv.str "qa")
      let eq := kv.nat "eq"
      let eb := kv.nat "eb"
      let acc := if ok then
          (if Spec.C17.swapOutputOk pre.st post.st dir amt lim qa eq eb then acc
           else acc.report "SPECFAIL" "C17" "swap-output-quote-exec-limit" line)
        else acc
      let acc := if amt != 0 then
          match qa with
          | some q =>
            let met := Spec.C17.outputLimitMet dir lim q
            let acc := if !met && ok then acc.report "SPECFAIL" "C17" "limit-violated-but-accepted" line else acc
            if met && !ok && kv.bool "tw" then acc.report "SPECFAIL" "C17" "limit-met-but-rejected" line else acc
          | none => if ok then acc.report "SPECFAIL" "C17" "unquotable-swap-accepted" line else acc
        else acc
      let acc := if ok && snd != pre.cfg.marginEngine then acc.report "SPECFAIL" "C09" "vamm-swap-by-non-engine" line else acc
      let acc := if ok && !pre.st.isOpen then acc.report "SPECFAIL" "C14" "swap-on-closed-vamm" line else acc
      let acc := if pre.cfg.fluct != 0 then
          match Spec.C15.band D pre.cfg.fluct pre.st.snaps env.height with
          | some bd =>
            if ok && !(Spec.C15.inside D bd pre.st.quote pre.st.base)
            then acc.report "SPECFAIL" "C15" "swap-accepted-outside-band" line else acc
          | none => acc
        else acc
      let m := Vamm.swapOutput pre env snd dir amt lim
      match m with
      | .ok (mv, mo) =>
        if !ok then
          -- the implementation rejected what the model accepts: the limit is the cause iff the limit-free twin passed
          reportMany acc "DISAGREE" (if kv.bool "tw" && lim != 0 then ["C17"] else ["C01", "C15"]) "swapout-accept(model ok, impl err)" line
        else if mo.quoteAmt != eq || mo.baseAmt != eb then reportMany acc "DISAGREE" ["C01"] "swapout-amounts" line
        else if !sameV mv post then
          reportMany acc "DISAGREE" ((if mv.st.snaps != post.st.snaps then ["C18"] else []) ++
            (if mv.st.quote != post.st.quote || mv.st.base != post.st.base || mv.st.net.toInt != post.st.net.toInt then ["C01"] else []))
            s!"swapout-state:{diffV mv post}" line
        else acc
      | .error e =>
        let acc := acc.cover s!"vamm.{op}:{errTagOf e}"
        if ok then reportMany acc "DISAGREE"
          (match e with
           | .guard 11 | .guard 12 | .guard 13 | .guard 14 => ["C17"]
           | .guard 20 => ["C15"]
           | .guard 21 => ["C01"]   -- the band test on the post-trade price follows the amounts; Spec.C15 judges the price itself
           | .guard 10 => ["C14"]
           | .unauthorized => ["C09"]
           | _ => ["C01"]) "swapout-accept(model err, impl ok)" line else acc
    | "q_twap" =>
      let iv := kv.nat "iv"
      let r := kv.nat "r"
      let acc := if ok && iv != 0 && !(Spec.C18.twapWithin D pre.st.snaps env.time iv r)
        then acc.report "SPECFAIL" "C18" "twap-outside-observed-prices" line else acc
      let acc := if ok && iv == 0 && optNat (kv.str "spot") != some r
        then acc.report "SPECFAIL" "C18" "twap-zero-interval-not-spot" line else acc
      let m := Vamm.queryTwapPrice pre env iv
      match m with
      | .ok mr => if ok && mr == r then acc else reportMany acc "DISAGREE" ["C18", "C06", "C05", "C11"] "twap-value" line
      | .error e => let acc := acc.cover s!"vamm.{op}:{errTagOf e}"; if ok then acc.report "DISAGREE" "C18" "twap-accept" line else acc
    | "q_iotwap" =>
      let dir := dirOf (kv.nat "dir")
      let m := if kv.bool "qin" then Vamm.queryInputTwap pre env dir (kv.nat "amt")
               else Vamm.queryOutputTwap pre env dir (kv.nat "amt")
      match m with
      | .ok mr => if ok && mr == kv.nat "r" then acc else reportMany acc "DISAGREE" ["C18", "C06", "C05"] "io-twap-value" line
      | .error e => let acc := acc.cover s!"vamm.{op}:{errTagOf e}"; if ok then reportMany acc "DISAGREE" ["C18", "C06"] "io-twap-accept" line else acc
    | "q_overfluct" =>
      let dir := dirOf (kv.nat "dir")
      let m := Vamm.queryIsOverFluctuationLimit pre env dir (kv.nat "amt")
      match m with
      | .ok mr => if ok && mr == kv.bool "r" then acc else acc.report "DISAGREE" "C15" "is-over-fluctuation-value" line
      | .error e => let acc := acc.cover s!"vamm.{op}:{errTagOf e}"; if ok then acc.report "DISAGREE" "C15" "is-over-fluctuation-accept" line else acc
    | "q_overspread" =>
      let oracle : Except Err Nat := if kv.bool "ofail" then .error .panic else .ok (kv.nat "oracle")
      let m := Vamm.queryIsOverSpreadLimit pre oracle
      -- Spec (C06): over the limit iff |spot - oracle| * D / oracle ≥ D / 10
      let acc := if ok && kv.nat "oracle" != 0 && pre.st.base != 0 then
          let spot := pre.st.quote * D / pre.st.base
          let o := kv.nat "oracle"
          let diff := if spot ≥ o then spot - o else o - spot
          if kv.bool "r" == decide (diff * D / o ≥ D / 10) then acc
          else acc.report "SPECFAIL" "C06" "spread-limit-threshold" line
        else acc
      match m with
      | .ok mr => if ok && mr == kv.bool "r" then acc else reportMany acc "DISAGREE" ["C06", "C07"] "over-spread-value" line
      | .error e => let acc := acc.cover s!"vamm.{op}:{errTagOf e}"; if ok then reportMany acc "DISAGREE" ["C06", "C07"] "over-spread-accept" line else acc
    | "q_calcfee" =>
      let amt := kv.nat "amt"
      let acc := if ok && !(kv.nat "tf" == amt * pre.cfg.toll / D && kv.nat "sf" == amt * pre.cfg.spread / D)
        then acc.report "SPECFAIL" "C12" "calc-fee-not-floor" line else acc
      let m := Vamm.queryCalcFee pre amt
      match m with
      | .ok (t, s) => if ok && t == kv.nat "tf" && s == kv.nat "sf" then acc else acc.report "DISAGREE" "C12" "calc-fee-value" line
      | .error e => let acc := acc.cover s!"vamm.{op}:{errTagOf e}"; if ok then acc.report "DISAGREE" "C12" "calc-fee-accept" line else acc
    | "settle" =>
      let oracle : Except Err Nat := if kv.bool "ofail" then .error .panic else .ok (kv.nat "otwap")
      let pf := kv.int "pf"
      -- Spec C11 (vAMM part): not before the funding time; next funding at least half a period later
      let acc := if ok && env.time < pre.st.nextFunding then acc.report "SPECFAIL" "C11" "settled-before-funding-time" line else acc
      let acc := if ok && post.st.nextFunding < env.time + pre.cfg.fundingPeriod / 2
        then acc.report "SPECFAIL" "C11" "next-funding-too-early" line else acc
      let acc := if ok then
          match Vamm.queryTwapPrice pre env pre.cfg.twapInterval with
          | .ok tw =>
            let want := Int.tdiv (((tw : Int) - (kv.nat "otwap" : Int)) * (pre.cfg.fundingPeriod : Int)) 86400
            if pf == want then acc else acc.report "SPECFAIL" "C11" "premium-fraction-formula" line
          | .error _ => acc
        else acc
      let acc := if ok && snd != pre.cfg.marginEngine then acc.report "SPECFAIL" "C09" "settle-by-non-engine" line else acc
      let acc := if ok && !pre.st.isOpen then acc.report "SPECFAIL" "C14" "settle-on-closed-vamm" line else acc
      let m := Vamm.settleFunding pre env snd oracle
      match m with
      | .ok (mv, mpf) =>
        if !ok then reportMany acc "DISAGREE" ["C11", "C09", "C14"] "settle-accept(model ok, impl err)" line
        else if mpf.toInt != pf then acc.report "DISAGREE" "C11" "settle-premium" line
        else if !sameV mv post then acc.report "DISAGREE" "C11" s!"settle-state:{diffV mv post}" line
        else acc
      | .error e => let acc := acc.cover s!"vamm.{op}:{errTagOf e}"; if ok then reportMany acc "DISAGREE" ["C11", "C09", "C14"] "settle-accept(model err, impl ok)" line else acc
    | "setopen" =>
      let o := kv.bool "uopen"
      let acc := if ok && snd != pre.cfg.owner && snd != pre.cfg.insuranceFund
        then acc.report "SPECFAIL" "C09" "set-open-by-stranger" line else acc
      let acc := if ok && post.st.isOpen != o then acc.report "SPECFAIL" "C14" "set-open-no-effect" line else acc
      let m := Vamm.setOpen pre env snd o
      match m with
      | .ok mv => if ok && sameV mv post then acc else reportMany acc "DISAGREE" ["C09", "C14"] s!"setopen:{diffV mv post}" line
      | .error e => let acc := acc.cover s!"vamm.{op}:{errTagOf e}"; if ok then reportMany acc "DISAGREE" ["C09", "C14"] "setopen-accept" line else acc
    | "updcfg" =>
      let u : ConfigUpdate :=
        { holdingCap := optNat (kv.str "ucap"), oiCap := optNat (kv.str "uoic"), toll := optNat (kv.str "utoll"),
          spread := optNat (kv.str "uspread"), fluct := optNat (kv.str "ufluct"),
          marginEngine := optNat (kv.str "ueng"), twapInterval := optNat (kv.str "utwi") }
      let acc := if ok && snd != pre.cfg.owner then acc.report "SPECFAIL" "C09" "vamm-config-by-non-owner" line else acc
      let acc := if post.cfg.toll ≤ D && post.cfg.spread ≤ D && post.cfg.fluct ≤ D
          && 60 ≤ post.cfg.twapInterval && post.cfg.twapInterval ≤ 604800 then acc
        else acc.report "SPECFAIL" "C20" "vamm-config-out-of-bounds" line
      let m := Vamm.updateConfig pre snd u
      match m with
      | .ok mv => if ok && mv.cfg == post.cfg then acc else reportMany acc "DISAGREE" ["C20", "C09"] "updcfg" line
      | .error e => let acc := acc.cover s!"vamm.{op}:{errTagOf e}"; if ok then reportMany acc "DISAGREE" ["C20", "C09"] "updcfg-accept" line else acc
    | "updowner" =>
      let acc := if ok && snd != pre.cfg.owner then acc.report "SPECFAIL" "C09" "vamm-owner-change-by-non-owner" line else acc
      let acc := if ok && post.cfg.owner != kv.nat "new" then acc.report "SPECFAIL" "C09" "vamm-owner-not-transferred" line else acc
      let m := Vamm.updateOwner pre snd (kv.nat "new")
      match m with
      | .ok mv => if ok && mv.cfg.owner == post.cfg.owner then acc else acc.report "DISAGREE" "C09" "updowner" line
      | .error e => let acc := acc.cover s!"vamm.{op}:{errTagOf e}"; if ok then acc.report "DISAGREE" "C09" "updowner-accept" line else acc
    | _ => acc
  (acc, next)

end Driver
