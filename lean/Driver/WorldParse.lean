import Perp.Model.World
import Driver.Parse
import Driver.VammD
import Driver.FeedD

/-! Decoding of world traces (`CFG` / `OBS` / `TX` / `QRY` lines, harness `world` mode). -/
namespace Driver
open Perp

def splitNonEmpty (s : String) (sep : String) : List String :=
  if s == "none" || s == "" || s == "-" then [] else (s.splitOn sep).filter (· != "")

def natList (s : String) : List Nat := (splitNonEmpty s ",").filterMap (·.toNat?)

def parsePosition (s : String) : Option Engine.Position :=
  match (s.splitOn ":").map (·.toNat?) with
  | [some v, some t, some d, some sn, some sv, some m, some n, some cn, some cv, some b] =>
    some ⟨v, t, dirOf d, ⟨sv, sn != 0⟩, m, n, ⟨cv, cn != 0⟩, b⟩
  | _ => none

/-- one entry of `qp=`: the engine's answer to `Position{vamm = v, trader = t}`: `v:t:` + the ten fields of the
    answered record -/
def parseQueriedPosition (s : String) : Option (Nat × Nat × Engine.Position) :=
  match (s.splitOn ":").map (·.toNat?) with
  | [some qv, some qt, some v, some t, some d, some sn, some sv, some m, some n, some cn, some cv, some b] =>
    some (qv, qt, ⟨v, t, dirOf d, ⟨sv, sn != 0⟩, m, n, ⟨cv, cn != 0⟩, b⟩)
  | _ => none

def parseCum (s : String) : Option Integer :=
  match (s.splitOn "/").map (·.toNat?) with
  | [some n, some v] => some ⟨v, n != 0⟩
  | _ => none

/-- `vm=<vamm>:<restr>:<n/v,n/v,..|->` ; cumulative fractions arrive oldest first, the model keeps newest first -/
def parseVammMap (s : String) : Option (Nat × Engine.VammMap) :=
  match s.splitOn ":" with
  | [v, r, c] =>
    match v.toNat?, r.toNat? with
    | some v, some r => some (v, ⟨r, ((splitNonEmpty c ",").filterMap parseCum).reverse⟩)
    | _, _ => none
  | _ => none

def parsePairs (s : String) : List (Nat × Nat) :=
  (splitNonEmpty s ";").filterMap (fun p =>
    match (p.splitOn ":").map (·.toNat?) with
    | [some a, some b] => some (a, b)
    | _ => none)

/-- sub-view of the tokens with a given prefix (e.g. `v10.`), prefix stripped -/
def subKV (kv : KV) (pre : String) : KV :=
  kv.filterMap (fun p => if p.1.startsWith pre then some ((p.1.drop pre.length).toString, p.2) else none)

structure Obs where
  w : World
  tmp : Bool
  sent : Bool
  liq : Bool
  deriving Inhabited

def parseObs (kv : KV) : Obs :=
  let env : Env := ⟨kv.nat "height", kv.nat "time"⟩
  let D := kv.nat "e.dec"
  let cfg : Engine.Config :=
    { owner := kv.nat "e.owner", insuranceFund := kv.nat "e.ifd", feePool := kv.nat "e.fp",
      native := kv.nat "e.coll" == 0, decimals := D, imr := kv.nat "e.imr", mmr := kv.nat "e.mmr",
      plr := kv.nat "e.plr", liqFee := kv.nat "e.lf" }
  let e : Engine.E :=
    { cfg := cfg, st := ⟨kv.nat "e.oi", kv.nat "e.prepaid", kv.bool "e.pause"⟩, pauser := kv.nat "e.pauser",
      whitelist := natList (kv.str "e.wl"),
      positions := (splitNonEmpty (kv.str "pos") ";").filterMap parsePosition,
      vammMaps := (splitNonEmpty (kv.str "vm") ";").filterMap parseVammMap,
      tmpSwap := none, sentFunds := none, tmpLiq := none }
  let vamms := [10, 11, 12, 13].filterMap (fun id =>
    let sub := subKV kv s!"v{id}."
    if sub.isEmpty then none else
      let vD := match sub.nat? "dec" with | some d => d | none => D
      some (id, parseV sub vD (sub.nat "fper")))
  let feed : FeedS :=
    if kv.str "fd.kind" == "real" then
      .real { owner := kv.nat "fd.owner",
              keys := match parseRounds (kv.str "fd.r") with | some l => [(World.FEED_KEY, l)] | none => [] }
    else .mock { owner := kv.nat "fd.owner", price := optNat (kv.str "fd.price") }
  let w : World :=
    { env := env, engine := e, vamms := vamms,
      ifund := { owner := kv.nat "if.owner", engine := kv.nat "if.engine", vamms := natList (kv.str "if.vamms"), stored := kv.bool "if.stored" },
      feePool := { owner := kv.nat "fp.owner", tokens := natList (kv.str "fp.tokens") },
      feed := feed,
      ledger := { bal := parsePairs (kv.str "bal"), allow := parsePairs (kv.str "allow") } }
  { w := w, tmp := kv.bool "e.tmp", sent := kv.bool "e.sent", liq := kv.bool "e.liq" }

def sideOf (n : Nat) : Side := if n == 0 then .buy else .sell

def parseTx (kv : KV) : Option World.Tx :=
  let v := kv.nat "v"
  match kv.str "msg" with
  | "open" => some (.engine (.openPosition v (sideOf (kv.nat "side")) (kv.nat "margin") (kv.nat "lev") (kv.nat "lim")))
  | "close" => some (.engine (.closePosition v (kv.nat "lim")))
  | "liq" => some (.engine (.liquidate v (kv.nat "trader") (kv.nat "lim")))
  | "payfunding" => some (.engine (.payFunding v))
  | "deposit" => some (.engine (.depositMargin v (kv.nat "amt")))
  | "withdraw" => some (.engine (.withdrawMargin v (kv.nat "amt")))
  | "ecfg" => some (.engine (.updateConfig
      { owner := optNat (kv.str "uowner"), insuranceFund := optNat (kv.str "uifd"), feePool := optNat (kv.str "ufp"),
        imr := optNat (kv.str "uimr"), mmr := optNat (kv.str "ummr"), plr := optNat (kv.str "uplr"),
        liqFee := optNat (kv.str "ulf") }))
  | "epauser" => some (.engine (.updatePauser (kv.nat "new")))
  | "wladd" => some (.engine (.addWhitelist (kv.nat "a")))
  | "wlrm" => some (.engine (.removeWhitelist (kv.nat "a")))
  | "pause" => some (.engine (.setPause (kv.bool "p")))
  | "vcfg" => some (.vammConfig v
      { holdingCap := optNat (kv.str "ucap"), oiCap := optNat (kv.str "uoic"), toll := optNat (kv.str "utoll"),
        spread := optNat (kv.str "uspread"), fluct := optNat (kv.str "ufluct"), marginEngine := optNat (kv.str "ueng"),
        insuranceFund := optNat (kv.str "uifd"), pricefeed := optNat (kv.str "ufeed"),
        twapInterval := optNat (kv.str "utwi") })
  | "vowner" => some (.vammOwner v (kv.nat "new"))
  | "vsetopen" => some (.vammSetOpen v (kv.bool "uopen"))
  | "vswapin" => some (.vammSwapInput v (dirOf (kv.nat "dir")) (kv.nat "amt") (kv.nat "lim") (kv.bool "cgo"))
  | "vswapout" => some (.vammSwapOutput v (dirOf (kv.nat "dir")) (kv.nat "amt") (kv.nat "lim"))
  | "vsettle" => some (.vammSettle v)
  | "ifadd" => some (.ifAdd v)
  | "ifrm" => some (.ifRemove v)
  | "ifshutdown" => some .ifShutdown
  | "ifwithdraw" => some (.ifWithdraw (kv.nat "amt"))
  | "ifowner" => some (.ifOwner (kv.nat "new"))
  | "fpadd" => some (.fpAdd (kv.nat "tok"))
  | "fprm" => some (.fpRemove (kv.nat "tok"))
  | "fpsend" => some (.fpSend (kv.nat "tok") (kv.nat "amt") (kv.nat "to"))
  | "fpowner" => some (.fpOwner (kv.nat "new"))
  | "oracle" => some (.oracle (kv.nat "price") (kv.nat "ts"))
  | "fdowner" => some (.feedOwner (kv.nat "new"))
  | "tapprove" => some (.tokenApprove (kv.nat "amt"))
  | "tdecrease" => some (.tokenDecrease (kv.nat "amt"))
  | "ttransfer" => some (.tokenTransfer (kv.nat "to") (kv.nat "amt"))
  | "bsend" => some (.bankSend (kv.nat "to") (kv.nat "amt"))
  | _ => none

/-- executed transfers `from:to:amount;...` -/
def parseXfers (s : String) : List (Nat × Nat × Nat) :=
  (splitNonEmpty s ";").filterMap (fun p =>
    match (p.splitOn ":").map (·.toNat?) with
    | [some a, some b, some c] => some (a, b, c)
    | _ => none)

end Driver
