import Driver.Parse
import Driver.IntegerD
import Driver.VammD
import Driver.FeedD
import Driver.WorldD

namespace Driver

structure DState where
  acc : Acc := {}
  vh : VHist := {}
  fh : FHist := {}
  wh : WHist := {}

def handle (s : DState) (line0 : String) : DState :=
  let line := line0.trimAscii.toString
  let acc := { s.acc with lines := s.acc.lines + 1 }
  let (kind, kv) := parseLine line
  match kind with
  | "I" => { s with acc := handleInteger acc kv line }
  | "VCFG" => let (a, h) := handleVCfg acc s.vh kv line; { s with acc := a, vh := h }
  | "CFG" => let (a, h) := handleWCfg acc kv line; { s with acc := a, wh := h }
  | "TX" => let (a, h) := handleWTx acc s.wh kv line; { s with acc := a, wh := h }
  | "OBS" => let (a, h) := handleWObs acc s.wh kv line; { s with acc := a, wh := h }
  | "QRY" => { s with acc := handleWQry acc s.wh kv line }
  | "PCFG" => let (a, h) := handlePCfg acc kv; { s with acc := a, fh := h }
  | "POP" => let (a, h) := handlePOp acc s.fh kv line; { s with acc := a, fh := h }
  | "VOP" => let (a, h) := handleVOp acc s.vh kv line; { s with acc := a, vh := h }
  | _ => { s with acc := acc }

partial def loop (h : IO.FS.Stream) (s : DState) : IO DState := do
  let line ← h.getLine
  if line.isEmpty then return s
  loop h (handle s line)

end Driver

def main : IO UInt32 := do
  let stdin ← IO.getStdin
  let st ← Driver.loop stdin {}
  let acc := st.acc
  for m in acc.out do
    IO.println m
  for c in acc.classes do
    IO.println s!"CLASS {c.1} count={c.2}"
  IO.println s!"SUMMARY lines={acc.lines} checked={acc.checked} disagree={acc.disagree} specfail={acc.specfail}"
  return 0
