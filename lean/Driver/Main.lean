import Driver.Parse
import Driver.IntegerD
import Driver.VammD
import Driver.FeedD
import Driver.WorldD
import Driver.InstD

namespace Driver

structure DState where
  acc : Acc := {}
  vh : VHist := {}
  fh : FHist := {}
  wh : WHist := {}
  whB : WHist := {}
  twinA : Option Perp.Spec.Step := none
  twinDiverged : Bool := false

def handle (s : DState) (line0 : String) : DState :=
  let line := line0.trimAscii.toString
  let acc := { s.acc with lines := s.acc.lines + 1 }
  let (kind, kv) := parseLine line
  match kind with
  | "I" => { s with acc := handleInteger acc kv line }
  | "VCFG" => let (a, h) := handleVCfg acc s.vh kv line; { s with acc := a, vh := h }
  | "CFG" =>
    if kv.str "w" == "B" then
      let (a, h) := handleWCfg acc s.whB kv line
      { s with acc := a, whB := h }
    else
      -- consecutive mini-histories of a search keep referring to the log of the source history
      let prev := if s.wh.srcOf.isSome then { s.wh with liqLog := s.wh.baseLog, tradeLog := s.wh.baseTrade } else s.wh
      let (a, h) := handleWCfg acc prev kv line
      { s with acc := a, wh := h, twinA := none, twinDiverged := false }
  | "TX" =>
    if kv.str "w" == "B" then let (a, h) := handleWTx acc s.whB kv line; { s with acc := a, whB := h }
    else let (a, h) := handleWTx acc s.wh kv line; { s with acc := a, wh := h }
  | "OBS" =>
    if kv.str "w" == "B" then
      let txline := match s.whB.pending with | some p => p.2 | none => line
      let kindB := match s.whB.pending with | some p => p.1.str "msg" | none => ""
      let errB := match s.whB.pending with | some p => (p.1.str "err").take 36 |>.toString | none => ""
      let (a, h, st) := handleWObs acc s.whB kv line
      match s.twinA, st with
      | some sa, some sb =>
        if s.twinDiverged then { s with acc := a, whB := h, twinA := none }
        else
          let tags := twinCheck sa sb
          let flow := openFlow { sa.pre with env := sa.env } sa.sender sa.tx
          -- does the reference model (which mirrors the unchanged code, its recorded C13 divergences included:
          -- `SatGReverse.reopen_exact`, `SatGWitness`) predict that the two deployments part on this very step?
          let okOf (st : Perp.Spec.Step) : Bool := match Perp.World.applyTx st.pre st.env st.sender st.funds st.tx with | .ok _ => true | .error _ => false
          let mv := if okOf sa == okOf sb then "{model-agrees}" else "{model-diverges}"
          -- the native deployment's outcome is named by the REFERENCE MODEL's verdict on that very step (the implementation's error text is
          -- not part of a finding's signature: a reworded message is not a new defect); a native rejection the model does not share is
          -- tagged as such and matches no listed finding
          let nativeTag : String :=
            match Perp.World.applyTx sb.pre sb.env sb.sender sb.funds sb.tx with
            | .ok _ => if sb.ok then "accepted" else "rejected-unlike-the-model"
            | .error e => if sb.ok then "accepted-unlike-the-model" else s!"rejected-as-the-model:{errTagOf e}"
          let _ := errB
          let a := tags.foldl (fun a t => a.report "SPECFAIL" "C13" s!"{kindB}{flow}:{t}[native:{nativeTag}]{mv}" txline) a
          { s with acc := a, whB := h, twinA := none, twinDiverged := !tags.isEmpty }
      | _, _ => { s with acc := a, whB := h }
    else
      let (a, h, st) := handleWObs acc s.wh kv line
      { s with acc := a, wh := h, twinA := if kv.str "w" == "A" then st else none }
  | "EINST" => { s with acc := handleEInst acc kv line }
  | "QRY" => { s with acc := handleWQry acc (if kv.str "w" == "B" then s.whB else s.wh) kv line }
  | "PCFG" => let (a, h) := handlePCfg acc kv; { s with acc := a, fh := h }
  | "POP" => let (a, h) := handlePOp acc s.fh kv line; { s with acc := a, fh := h }
  | "VOP" => let (a, h) := handleVOp acc s.vh kv line; { s with acc := a, vh := h }
  | _ => { s with acc := acc }

partial def loop (h : IO.FS.Stream) (s : DState) : IO DState := do
  let line ← h.getLine
  if line.isEmpty then return s
  loop h (handle s line)

end Driver

def main : IO UInt32 := do
  let stdin ← IO.getStdin
  let st ← Driver.loop stdin {}
  let acc := st.acc
  for m in acc.out do
    IO.println m
  for c in acc.classes do
    IO.println s!"CLASS {c.1} count={c.2}"
  for c in acc.cov do
    IO.println s!"COV {c.1} count={c.2}"
  for c in acc.hyp do
    IO.println s!"HYP {c.1} count={c.2}"
  IO.println s!"SUMMARY lines={acc.lines} checked={acc.checked} disagree={acc.disagree} specfail={acc.specfail}"
  return 0
