import Driver.Parse
import Driver.IntegerD

namespace Driver

def handle (acc : Acc) (line : String) : Acc :=
  let acc := { acc with lines := acc.lines + 1 }
  let (kind, kv) := parseLine line
  match kind with
  | "I" => handleInteger acc kv line
  | _ => acc

partial def loop (h : IO.FS.Stream) (acc : Acc) : IO Acc := do
  let line ← h.getLine
  if line.isEmpty then return acc
  loop h (handle acc line)

end Driver

def main : IO UInt32 := do
  let stdin ← IO.getStdin
  let acc ← Driver.loop stdin {}
  for m in acc.out do
    IO.println m
  IO.println s!"SUMMARY lines={acc.lines} checked={acc.checked} disagree={acc.disagree} specfail={acc.specfail}"
  return 0
