import Perp.Model.Integer
def main : IO Unit := IO.println "driver"
