import Perp.Spec.GhostReg
import Perp.Spec.World
import Perp.Props.ModelStep
import Perp.Spec.Monitor
import Perp.Spec.MonitorTx
import Perp.Spec.Registry
import Perp.Spec.Roles
import Perp.Spec.Scope
import Perp.Spec.LimitV
import Perp.Spec.WithdrawExact
import Perp.Model.Fault
import Driver.WorldParse

/-!
  Driver for world traces.  Per transaction:
  * `Spec.*` predicates are evaluated on the implementation's observations (violation search);
  * the model's `World.applyTx` is run from the implementation's pre-state (resync) and compared
    with the implementation's post-state; differences are attributed to property slices.
-/
namespace Driver
open Perp Perp.Spec

structure WHist where
  alive : Bool := false
  hist : Nat := 0
  last : Obs := default
  pending : Option (KV × String) := none
  /-- vAMM states seen so far in this history (for the C01 quote-recovery check) -/
  seen : List (Nat × Vamm.State) := []
  /-- successful liquidations of this history: (vamm, block height) -/
  liqLog : List (Nat × Nat) := []
  /-- for search mini-histories: the source history and its log (so that consecutive mini-histories share it) -/
  srcOf : Option Nat := none
  baseLog : List (Nat × Nat) := []
  /-- successful OpenPosition / ClosePosition that left a stored record: (trader, vamm, block height) -/
  tradeLog : List (Nat × Nat × Nat) := []
  baseTrade : List (Nat × Nat × Nat) := []
  /-- the engine's answers to `Position{vamm, trader}` for every deployed market × trading account after the
      previous transaction (`none`: the trace carries no query matrix) -/
  lastQp : Option (List (Nat × Nat × Engine.Position)) := none
  /-- ghost funding checkpoints, kept by the driver from the observed HISTORY: for every (vamm, trader) the vAMM's
      cumulative premium fraction at the moment the position's owner last traded on it, withdrew margin from it or
      partially closed it (the events at which C11 says the funding is charged and the checkpoint moves) -/
  ghostChk : List (Nat × Nat × Int) := []
  /-- what the deployment was ASKED to create, per vAMM id: the fields of the `CFG` line's `v<id>.init` token
      (quote reserve, base reserve, funding period, toll, spread, fluctuation limit, holding cap, OI cap, registered, opened) -/
  inits : List (Nat × List Nat) := []
  /-- ghost registry (`Spec/GhostReg.lean`): the insurance fund's list as the MODEL writes it along the observed transactions -/
  ghostReg : Option (List Nat) := none

/-- the deployment's instantiate / wiring parameters against the first observation of the deployed contracts: every field the
    deployment passed must be the field the contract stores (a vAMM whose `instantiate` crosses two ratios of the same type, or
    drops one, answers every later query consistently with its OWN stored configuration — only the message it was sent tells) -/
def deployChecks (inits : List (Nat × List Nat)) (w : World) : List (String × String) :=
  (inits.map (fun (iv : Nat × List Nat) =>
    match w.vamm? iv.1, iv.2 with
    | some x, [q, b, period, toll, spread, fluct, cap, oic, registered, opened] =>
      (if x.st.quote != q || x.st.base != b then [("C01", "reserves")] else [])
      ++ (if x.cfg.fundingPeriod != period then [("C11", "funding-period")] else [])
      ++ (if x.cfg.toll != toll then [("C12", "toll-ratio")] else [])
      ++ (if x.cfg.spread != spread then [("C12", "spread-ratio")] else [])
      ++ (if x.cfg.fluct != fluct then [("C15", "fluctuation-limit")] else [])
      ++ (if x.cfg.holdingCap != cap then [("C20", "holding-cap")] else [])
      ++ (if x.cfg.oiCap != oic then [("C20", "open-interest-cap")] else [])
      ++ (if w.ifund.vamms.contains iv.1 != (registered != 0) then [("C14", "registered")] else [])
      ++ (if x.st.isOpen != (opened != 0) then [("C14", "open")] else [])
    | _, _ => [])).flatten

def txKind (kv : KV) : String := kv.str "msg"

/-- component-wise difference between the model's and the implementation's post-state -/
def diffWorld (m i : World) : List String :=
  let e1 := m.engine
  let e2 := i.engine
  let posKey (p : Engine.Position) := (p.vamm, p.trader, p.direction, p.size.toInt)
  let posMoney (p : Engine.Position) := (p.vamm, p.trader, p.margin, p.notional)
  let posChk (p : Engine.Position) := (p.vamm, p.trader, p.chk.toInt)
  let posBlk (p : Engine.Position) := (p.vamm, p.trader, p.block)
  let sortP (l : List Engine.Position) := l.mergeSort (fun a b => a.vamm < b.vamm || (a.vamm == b.vamm && a.trader ≤ b.trader))
  let p1 := sortP e1.positions
  let p2 := sortP e2.positions
  let vm1 := e1.vammMaps.mergeSort (fun a b => a.1 ≤ b.1)
  let vm2 := e2.vammMaps.mergeSort (fun a b => a.1 ≤ b.1)
  let vkey {α : Type} [BEq α] (f : Vamm.V → α) : Bool := (m.vamms.map (fun p => (p.1, f p.2))) != (i.vamms.map (fun p => (p.1, f p.2)))
  -- only accounts the observation lists are compared
  let balSort (l : List (Nat × Nat)) := (l.filter (fun p => p.2 != 0 && (i.ledger.bal.any (fun q => q.1 == p.1)))).mergeSort (fun a b => a.1 ≤ b.1)
  let allowSort (l : List (Nat × Nat)) := (l.filter (fun p => p.2 != 0 && (i.ledger.allow.any (fun q => q.1 == p.1)))).mergeSort (fun a b => a.1 ≤ b.1)
  (if e1.cfg != e2.cfg then ["ecfg"] else []) ++
  (if e1.st.oi != e2.st.oi then ["oi"] else []) ++
  (if e1.st.prepaid != e2.st.prepaid then ["prepaid"] else []) ++
  (if e1.st.pause != e2.st.pause then ["pause"] else []) ++
  (if e1.pauser != e2.pauser || e1.whitelist.mergeSort (· ≤ ·) != e2.whitelist.mergeSort (· ≤ ·) then ["roles"] else []) ++
  (if p1.map posKey != p2.map posKey then ["possize"] else []) ++
  (if p1.map posMoney != p2.map posMoney then ["posmoney"] else []) ++
  (if p1.map posChk != p2.map posChk then ["poschk"] else []) ++
  (if p1.map posBlk != p2.map posBlk then ["posblock"] else []) ++
  (if vm1.map (fun p => (p.1, p.2.lastRestriction)) != vm2.map (fun p => (p.1, p.2.lastRestriction)) then ["restriction"] else []) ++
  (if vm1.map (fun p => (p.1, p.2.cums.map (·.toInt))) != vm2.map (fun p => (p.1, p.2.cums.map (·.toInt))) then ["cums"] else []) ++
  (if vkey (fun v => (v.st.quote, v.st.base, v.st.net.toInt)) then ["reserves"] else []) ++
  (if vkey (fun v => v.st.snaps) then ["snaps"] else []) ++
  (if vkey (fun v => v.st.isOpen) then ["vopen"] else []) ++
  (if vkey (fun v => (v.st.nextFunding, v.st.fundingRate.toInt)) then ["vfunding"] else []) ++
  (if vkey (fun v => v.cfg) then ["vcfg"] else []) ++
  (if m.ifund != i.ifund then ["ifund"] else []) ++
  (if m.feePool != i.feePool then ["feepool"] else []) ++
  (if m.feed != i.feed then ["feed"] else []) ++
  (if balSort m.ledger.bal != balSort i.ledger.bal then ["bal"] else []) ++
  (if allowSort m.ledger.allow != allowSort i.ledger.allow then ["allow"] else [])

/-- which properties' slices a differing component belongs to, given the transaction kind -/
def slicesOf (kind : String) (tag : String) : List String :=
  match tag with
  | "ecfg" => ["C20", "C09"]
  | "oi" => ["C20"]
  | "prepaid" => ["C04", "C07"]
  | "pause" => ["C14", "C09"]
  | "roles" => ["C09", "C20"]
  | "possize" => ["C02", "C10"] ++ (if kind == "liq" then ["C06"] else if kind == "close" then ["C15"] else [])
  | "posmoney" => (if kind == "liq" then ["C06"] else if kind == "close" then ["C04"] else if kind == "open" then ["C05", "C11"]
                   else if kind == "withdraw" || kind == "deposit" then ["C05"] else ["C10"])
  | "poschk" => ["C11"]
  | "posblock" => ["C16"]
  | "restriction" => ["C16"]
  | "cums" => ["C11"]
  | "reserves" => ["C01", "C02", "C17"]
  | "snaps" => ["C18"]
  | "vopen" => ["C14"]
  | "vfunding" => ["C11"]
  | "vcfg" => ["C20", "C09"]
  | "ifund" => ["C14", "C09"]
  | "feepool" => ["C09"]
  | "feed" => ["C18", "C09"]
  | "bal" => ["C03"] ++ (if kind == "open" then ["C12", "C05"] else if kind == "close" then ["C04", "C12"]
               else if kind == "liq" then ["C06"] else if kind == "payfunding" then ["C11"]
               else if kind == "withdraw" || kind == "deposit" then ["C05"] else [])
  | "allow" => ["C03"]
  | "xfers" => ["C03"] ++ (if kind == "open" then ["C12"] else if kind == "close" then ["C04", "C12"]
               else if kind == "liq" then ["C06"] else if kind == "payfunding" then ["C11"] else [])
  | _ => []

/-- the model rejected, the implementation accepted: attribute by the guard that fired in the model -/
def slicesOfModelErr (kind : String) (e : Err) : List String :=
  -- collateral housekeeping between users belongs to no property's slice (cw20 allowance records are
  -- not observable when they hold zero)
  if kind == "tapprove" || kind == "tdecrease" then [] else
  match e with
  | .unauthorized => ["C09"]
  | .guard 54 | .guard 52 | .guard 53 | .guard 10 => ["C14"]
  | .guard 58 => ["C16"]
  | .guard 56 | .guard 59 | .guard 65 | .guard 66 => ["C05"]
  | .guard 57 => ["C06"]
  | .guard 50 | .guard 51 | .guard 30 | .guard 31 | .guard 34 | .guard 80 | .guard 81 | .guard 82 => ["C20"]
  | .guard 20 | .guard 21 => ["C15"]
  | .guard 11 | .guard 12 | .guard 13 | .guard 14 => ["C17"]
  | .guard 73 => ["C04"]
  | .guard 15 => ["C11"]
  | .guard 69 | .guard 70 | .guard 61 | .guard 62 | .guard 63 => ["C13", "C05"]
  | .guard 90 | .guard 91 | .overflow => ["C03", "C08"]
  | .subcall _ => ["C08"]
  | _ => (if kind == "liq" then ["C06"] else if kind == "open" then ["C05"] else if kind == "close" then ["C04"] else ["C08"])

/-- the model accepted, the implementation rejected: availability-type clauses -/
def slicesOfImplErr (kind : String) : List String :=
  match kind with
  | "tapprove" | "tdecrease" => []
  | "liq" => ["C07", "C14"]
  | "payfunding" => ["C11", "C14"]
  | "open" | "close" => ["C16", "C15"]
  | "deposit" | "withdraw" => ["C05"]
  | "ifshutdown" => ["C14"]
  | _ => ["C09"]

def errTag (e : Err) : String :=
  match e with
  | .overflow => "overflow" | .divZero => "divzero" | .panic => "panic" | .unauthorized => "unauthorized"
  | .guard c => s!"guard{c}" | .subcall c => s!"subcall{c}"

/-- coverage only: the error of the FIRST failing sub-call inside an engine transaction that the model rejects with
    `.subcall id` (the reply handler turns every sub-call failure into that code; the guard that fired inside the vAMM, the
    token or the insurance fund is lost in the model's result).  Walks the response exactly as `World.execSubs` does. -/
def firstSubErr : Nat → World → Nat → List SubMsg → Option Err
  | 0, _, _, _ => none
  | _, _, _, [] => none
  | fuel + 1, w, c, s :: rest =>
    match World.execMsg World.FUEL w c s.msg with
    | .error e => some e
    | .ok (w1, ev) =>
      if s.replyOn = .always ∨ s.replyOn = .success then
        match Engine.replyOk w1.q w1.engine w1.env s.id ev with
        | .ok (e2, subs2) =>
          let w2 := { w1 with engine := e2 }
          match firstSubErr fuel w2 c subs2 with
          | some e => some e
          | none =>
            match World.execSubs World.FUEL w2 c subs2 with
            | .ok w3 => firstSubErr fuel w3 c rest
            | .error _ => none
        | .error _ => none
      else firstSubErr fuel w1 c rest

/-- the inner cause of a `.subcall` rejection of an engine transaction (coverage tag `…>guardNN`) -/
def innerCause (w0 : World) (env : Env) (sender : Nat) (funds : Engine.Funds) (tx : World.Tx) : Option Err :=
  let w := { w0 with env := env, log := [] }
  match tx with
  | .engine m =>
    let w1 := if w.engine.cfg.native ∧ funds.amount ≠ 0 then
        match World.execMsg World.FUEL w sender (.bankSend ENGINE funds.amount) with
        | .ok r => r.1
        | .error _ => w
      else w
    match Engine.execute w1.q w1.engine env sender funds m with
    | .ok (e', subs) => firstSubErr 12 { w1 with engine := e' } ENGINE subs
    | .error _ => none
  | _ => none

/-- `src=<h>:<k>:…` on a search mini-history: the history it continues -/
def srcHist (kv : KV) : Option Nat :=
  match kv.get? "src" with
  | some s => (s.splitOn ":").head?.bind (·.toNat?)
  | none => none

/-! ### theorem-hypothesis monitor

  `Capstone.reachable_sat` and the `sat_*` theorems hold under `AllInv` (invariants) and `SideOK` (per-step side
  conditions); `Perp.Spec.Monitor` gives Boolean versions, proved equivalent in `Perp.Props.MonitorSound`.  The
  driver evaluates them on the IMPLEMENTATION's observed worlds:
  * on the first observation of a history: `Deployed` (and its consequence `AllInv`, `Capstone.deployed_allInv`);
  * on every step whose observed pre-state satisfies `AllInv` and which satisfies `SideOK`: the theorems apply to
    this very step (`Capstone.allInv_clean_core`, `allInv_step`), in particular they predict `AllInv` of the
    post-state — a failure there is a break of the tie between model and implementation (the model provably
    preserves the invariant) and is reported for the properties whose theorems rest on the failing component.
  Steps outside the domain are only counted, by the first failing hypothesis. -/

/-- the in-flight records are observed as presence flags only (`obs.w.engine` carries `none`) -/
def obsAllInvFails (o : Obs) : List String :=
  (if o.tmp || o.sent || o.liq then ["wf:noResidue"] else []) ++ Perp.Spec.Monitor.allInvFails o.w

/-- the properties whose refinement theorems read a component of `AllInv` (see the field comments of
    `Capstone.AllInv`) -/
def propsOfInvTag (tag : String) : List String :=
  if tag.startsWith "wf" then ["C08"]
  else if tag == "vammKeys" then ["C01"]
  else if tag == "mirror:sum" || tag == "mirror:noZeroVamm" || tag == "mirror:signDir" then ["C02"]
  else if tag == "mirror:keys" then ["C10"]
  else if tag == "mirror:engineConfig" || tag.startsWith "config" then ["C20"]
  else if tag == "mirror:noResidue" then ["C08"]
  else if tag == "traders" || tag == "total" then ["C03"]
  else if tag == "snap" then ["C18"]
  else if tag == "marginRep" then ["C05"]
  else if tag == "noContract" then ["C06"]
  else if tag == "registry" then ["C14"]
  else if tag == "buffer" then ["C11"]
  else ["C08"]

/-- the pre-state with the sender's stored funding checkpoint on `v` replaced by the ghost checkpoint of the history -/
def withGhostChk (w : World) (ghost : List (Nat × Nat × Int)) (v t : Nat) : Option World :=
  match ghost.find? (fun g => g.1 == v && g.2.1 == t) with
  | none => none
  | some g =>
    match w.engine.positions.find? (fun p => p.vamm == v && p.trader == t) with
    | none => none
    | some p =>
      if p.chk.toInt == g.2.2 then none else
      let c : Integer := if g.2.2 < 0 then ⟨g.2.2.natAbs, true⟩ else ⟨g.2.2.natAbs, false⟩
      some { w with engine := { w.engine with positions := w.engine.positions.map (fun q =>
        if q.vamm == v && q.trader == t then { q with chk := c } else q) } }

/-- the accounts whose positions are queried (`ALLOW_IDS` of the harness) -/
def QUERIED_TRADERS : List Nat := [101, 102, 103, 104, 105, 106, 110]

def parseQp (kv : KV) : Option (List (Nat × Nat × Engine.Position)) :=
  match kv.get? "qp" with
  | none => none
  | some s => some ((splitNonEmpty s ";").filterMap parseQueriedPosition)

/-- C10 as a user sees it (queries), next to the raw-storage view:
    (i) the engine's answer to `Position{v, t}` is the stored record of (v, t) — the record itself names v and t —
        and every stored record of a deployed market and a trading account is answered;
    (ii) a transaction changes the answer for (v, t) only if t is its sender, or it is the Liquidate naming (v, t). -/
def qpChecks (kind : String) (sender : Nat) (tx : World.Tx) (pre : Option (List (Nat × Nat × Engine.Position)))
    (post : List (Nat × Nat × Engine.Position)) (w : World) : List String :=
  let stored := w.engine.positions
  let markets := w.vamms.map (·.1)
  let agree1 := post.all (fun e => e.2.2.vamm == e.1 && e.2.2.trader == e.2.1 && stored.any (fun r => r == e.2.2))
  let agree2 := stored.all (fun r => !(markets.contains r.vamm && QUERIED_TRADERS.contains r.trader)
                                     || post.any (fun e => e.1 == r.vamm && e.2.1 == r.trader))
  let named : Option (Nat × Nat) := match tx with | .engine (.liquidate v t _) => some (v, t) | _ => none
  let look (l : List (Nat × Nat × Engine.Position)) (v t : Nat) : Option Engine.Position :=
    (l.find? (fun e => e.1 == v && e.2.1 == t)).map (·.2.2)
  let others : Bool := match pre with
    | none => true
    | some pre =>
      markets.all (fun v => QUERIED_TRADERS.all (fun t =>
        t == sender || named == some (v, t) || look pre v t == look post v t))
  (if agree1 && agree2 then [] else [s!"{kind}:position-query-disagrees-with-stored-records"])
  ++ (if others then [] else [s!"{kind}:position-query-answer-changed-for-another-trader"])

def handleWCfg (acc : Acc) (prev : WHist) (kv : KV) (_line : String) : Acc × WHist :=
  -- a search mini-history inherits the liquidation log of the history it continues
  let inherits := srcHist kv == some prev.hist || (kv.get? "src").isSome && prev.srcOf == srcHist kv
  let log := if inherits then prev.liqLog else []
  let tlog := if inherits then prev.tradeLog else []
  let inits : List (Nat × List Nat) := [10, 11, 12, 13].filterMap (fun (id : Nat) =>
    match kv.get? s!"v{id}.init" with
    | some t => some (id, ((t.splitOn ":").take 10).map (fun x => x.toNat?.getD 0))
    | none => none)
  (acc, { alive := kv.bool "setup_ok", hist := kv.nat "h", liqLog := log, baseLog := log, tradeLog := tlog, baseTrade := tlog,
          srcOf := match srcHist kv with | some h => some h | none => none, inits := inits })

def handleWTx (acc : Acc) (h : WHist) (kv : KV) (line : String) : Acc × WHist :=
  (acc, { h with pending := some (kv, line) })

def handleWObs (acc : Acc) (h : WHist) (kv : KV) (_line : String) : Acc × WHist × Option Step :=
  let _okv := kv
  if !h.alive then (acc, h, none) else
  let obs := parseObs kv
  match h.pending with
  | none =>
    -- initial observation: is the real deployment a `Capstone.Deployed` world?  (search mini-histories start
    -- from a replayed prefix, not from a deployment)
    let acc :=
      if h.srcOf.isSome then acc else
      let df := (if obs.tmp || obs.sent || obs.liq then ["noResidue"] else []) ++ Perp.Spec.Monitor.deployedFails obs.w
      let acc := acc.hypCount "deployments"
      let acc := if df.isEmpty then acc.hypCount "deployments:Deployed" else acc.hypCount s!"deployments:not-Deployed({df.headD ""})"
      -- `Capstone.deployed_allInv`: a deployed world satisfies every invariant
      if df.isEmpty then
        (obsAllInvFails obs).foldl (fun a tag =>
          (propsOfInvTag tag).foldl (fun a p => a.report "DISAGREE" p s!"hyp:deployed-but-not-allinv:{tag}" _line) a) acc
      else acc
    let acc := if h.srcOf.isSome then acc else
      (deployChecks h.inits obs.w).foldl (fun (a : Acc) pt => a.report "SPECFAIL" pt.1 s!"deploy:stored-{pt.2}-differs-from-the-instantiate-message" _line) acc
    let acc := match parseQp kv with
      | some post => (qpChecks "deploy" 0 (.ifShutdown) none post obs.w).foldl (fun (a : Acc) t => a.report "SPECFAIL" "C10" t _line) acc
      | none => acc
    (acc, { h with last := obs, lastQp := parseQp kv, seen := obs.w.vamms.map (fun p => (p.1, p.2.st)) }, none)
  | some (tkv, tline) =>
    let acc := { acc with checked := acc.checked + 1 }
    let kind := txKind tkv
    let liqLog := if tkv.str "msg" == "liq" && tkv.bool "ok" && (tkv.get? "fault").all (· == "none")
      then (tkv.nat "v", tkv.nat "height") :: h.liqLog else h.liqLog
    let isTrade := (tkv.str "msg" == "open" || tkv.str "msg" == "close") && tkv.bool "ok" && (tkv.get? "fault").all (· == "none")
      && obs.w.engine.positions.any (fun p => p.vamm == tkv.nat "v" && p.trader == tkv.nat "snd")
    let tradeLog := if isTrade then (tkv.nat "snd", tkv.nat "v", tkv.nat "height") :: h.tradeLog else h.tradeLog
    -- ghost checkpoints: a successful open / close / withdraw by the sender on `v` that leaves a record charges the funding
    -- and moves the checkpoint to the market's latest cumulative fraction; a vanished record drops its ghost; a record
    -- first seen without a ghost takes its stored checkpoint
    let touched : Option (Nat × Nat) :=
      if !(tkv.bool "ok") || !((tkv.get? "fault").all (· == "none")) then none else
      match tkv.str "msg" with
      | "open" | "close" | "withdraw" => some (tkv.nat "v", tkv.nat "snd")
      | _ => none
    let ghost0 := h.ghostChk.filter (fun g => obs.w.engine.positions.any (fun p => p.vamm == g.1 && p.trader == g.2.1))
    let ghost1 := match touched with
      | some (v, t) =>
        if obs.w.engine.positions.any (fun p => p.vamm == v && p.trader == t)
        then (v, t, (Engine.latestCum obs.w.engine v).toInt) :: ghost0.filter (fun g => !(g.1 == v && g.2.1 == t))
        else ghost0
      | none => ghost0
    let ghost2 := obs.w.engine.positions.foldl (fun (gs : List (Nat × Nat × Int)) p =>
      if gs.any (fun g => g.1 == p.vamm && g.2.1 == p.trader) then gs else (p.vamm, p.trader, p.chk.toInt) :: gs) ghost1
    let next : WHist := { h with last := obs, pending := none, liqLog := liqLog, tradeLog := tradeLog, lastQp := parseQp kv, ghostChk := ghost2,
                                 seen := if h.seen.length < 200 then obs.w.vamms.map (fun p => (p.1, p.2.st)) ++ h.seen else h.seen }
    match parseTx tkv with
    | none => (acc.report "DISAGREE" "C08" s!"unparsed-tx:{kind}" tline, next, none)
    | some tx =>
      let env : Env := ⟨tkv.nat "height", tkv.nat "time"⟩
      let sender := tkv.nat "snd"
      let funds : Engine.Funds := ⟨tkv.nat "funds", tkv.bool "extra"⟩
      let ok := tkv.bool "ok"
      let step : Step :=
        { pre := h.last.w, post := obs.w, env := env, sender := sender, funds := funds, tx := tx, ok := ok,
          xfers := parseXfers (tkv.str "xf"), residue := obs.tmp || obs.sent || obs.liq, err := tkv.str "err",
          liqsThisBlock := (h.liqLog.filter (fun p => p.2 == env.height)).map (·.1),
          tradedThisBlock := (h.tradeLog.filter (fun p => p.1 == sender && p.2.2 == env.height)).map (·.2.1) }
      -- fault-injected execution (harness `fault` mode): only C08 is meaningful — the injected
      -- failure must fail the whole call and leave every contract's storage and every balance as before
      let faulted := match tkv.get? "fault" with | some f => f != "none" && tkv.bool "fired" | none => false
      -- fault-point correspondence (engine transactions): the model's instrumented dispatcher (`World.applyTxFE`, the
      -- object of `FaultAtomic.fault_fails_tx / fault_profile`) must reach the j-th dispatched message exactly when the
      -- implementation's j-th sub-call exists.  The harness does not count the host's transfer of attached coins
      -- (a user's bank send), the model does: index + 1 on native calls that attach coins.
      let acc :=
        match (match tkv.get? "fault" with | some fj => some fj | none => tkv.get? "beyond"), tx with
        | some fj, .engine _ =>
          (match fj.toNat? with
           | some j =>
             let jm := if h.last.w.engine.cfg.native && funds.amount != 0 then j + 1 else j
             let reached := match World.applyTxFE (some jm) h.last.w env sender funds tx with
               | .error (_, none) => true
               | .ok (_, none) => true
               | _ => false
             let acc := acc.cover s!"faultpoint:{kind}:{if reached then "reached" else "beyond-the-tree"}"
             -- a `beyond=j` token on a plain line: the implementation's message tree ended before index j
             let implFired := (tkv.get? "fault").isSome && tkv.bool "fired"
             if reached == implFired then acc
             else acc.report "DISAGREE" "C08" s!"{kind}:fault-point(sub-message {j}: model-reached={reached},impl-fired={implFired})" tline
           | none => acc)
        | _, _ => acc
      if faulted then
        let acc := (C08.check step).foldl (fun a tag => a.report "SPECFAIL" "C08" s!"{kind}:fault{tkv.str "fault"}:{tag}" tline) acc
        let acc := if ok then acc.report "SPECFAIL" "C08" s!"{kind}:injected-failure-swallowed(sub-message {tkv.str "fault"})" tline else acc
        -- the history continues from the unchanged state
        (acc, { next with seen := h.seen }, some step)
      else
      let impersonated' := kind == "ifwithdraw" && sender == ENGINE && h.last.w.engine.cfg.insuranceFund != IFUND
      -- 0. theorem-hypothesis monitor on the implementation's observations
      let acc := acc.hypCount "steps"
      let preInv := obsAllInvFails h.last
      let acc :=
        if !preInv.isEmpty then acc.hypCount s!"steps:outside(pre-state:{preInv.headD ""})" else
        -- the per-transaction side condition `SideOKTx` (`CapstoneTx`: `CurveRegular` replaced by `CurveRegularTx` — unit
        -- reserves, and no overshoot of the re-quote when THIS transaction is a partial close of a short); the older, global
        -- `SideOK` is counted next to it
        let sfOld := Perp.Spec.Monitor.sideFails h.last.w env sender funds tx
        let acc := if sfOld.isEmpty then acc.hypCount "steps:in-domain-of-the-global-SideOK" else acc
        let sf := Perp.Spec.MonitorTx.sideFailsTx h.last.w env sender funds tx
        if !sf.isEmpty then acc.hypCount s!"steps:outside(side:{sf.headD ""})" else
        let acc := acc.hypCount "steps:in-theorem-domain"
        let acc := acc.hypCount s!"steps:in-theorem-domain:{kind}:{if ok then "ok" else "err"}"
        (obsAllInvFails obs).foldl (fun a tag =>
          (propsOfInvTag tag).foldl (fun a p => a.report "DISAGREE" p s!"{kind}:hyp:allinv-not-preserved:{tag}" tline) a) acc
      -- 1. specification on the implementation's observations
      -- C07 failures carry the class of the implementation's error (diagnostic, used by known-finding signatures)
      let errClass : String :=
        let e := tkv.str "err"
        if e.startsWith "Overflow_Cannot_Sub" then "[arith-underflow]"
        else if (e.splitOn "transfer_failure").length > 1 then "[transfer-failure]"
        else if (e.splitOn "Querier").length > 1 then "[querier]"
        else s!"[{(e.take 32).toString}]"
      -- … and whether the reference model (which mirrors the unchanged code, known defects included)
      -- rejects the same call: a listed finding is pinned to the states in which the model fails too
      -- (a liquidation that the reference model rejects too is a LISTED finding only on a configuration the engine accepts: with a
      -- stored ratio outside 0..100 % the model's rejection says nothing about the unchanged code, which never stores one)
      let cfgInRange := Perp.Spec.Monitor.engineConfigB h.last.w.engine.cfg
      let modelVerdict : String :=
        match World.applyTx h.last.w env sender funds tx with
        | .ok _ => "{model-accepts}"
        | .error e => if cfgInRange then "{model-rejects:" ++ errTagOf e ++ "}" else "{model-rejects,stored-engine-ratio-out-of-range}"
      -- C07 quantifies over deployments whose engine pays from / draws on ITS insurance fund and fee pool; while the owner has the engine
      -- pointed at another account (re-wiring, outside the quantifier — WORLD_ASSUMPTIONS) a liquidation that needs the fund cannot work
      let c07InScope := Perp.Spec.Monitor.wiredB h.last.w &&
        (match tx with
         | .engine (.liquidate v _ _) =>
           (match h.last.w.vamm? v with
            | some x => x.cfg.pricefeed == FEED && x.cfg.marginEngine == ENGINE   -- … and the market reads THE price feed
            | none => true)
         | _ => true)
      let acc := (allChecks step ++ extraChecks step ++ extraChecks2 step ++ extraChecks3 step ++ extraChecks4 step ++ extraChecks5 step ++ extraChecks6 step ++ extraChecks7 step ++ extraChecks8 step).foldl (fun a pc =>
        pc.2.foldl (fun a tag =>
          if pc.1 == "C07" && !c07InScope then a.hypCount "c07:outside-the-quantifier(engine-or-market-re-wired-to-another-fund-pool-or-feed)" else
          a.report "SPECFAIL" pc.1 (if pc.1 == "C07" then s!"{kind}:{tag}{modelVerdict}" else s!"{kind}:{tag}") tline) a) acc
      -- ghost registry: C14 frame (the stored list is what the accepted adds / removes leave) and C07 with "registered" from the history
      let gPre := h.ghostReg.getD h.last.w.ifund.vamms
      let gPost := Spec.GhostReg.next gPre h.last.w obs.w env sender funds ok tx
      let acc := (Spec.GhostReg.regFrame gPost obs.w).foldl (fun (a : Acc) t => a.report "SPECFAIL" "C14" (kind ++ ":" ++ t) tline) acc
      let acc := (Spec.GhostReg.regCheck gPre step).foldl (fun (a : Acc) t =>
        if !c07InScope then a else a.report "SPECFAIL" "C07" (kind ++ ":" ++ t ++ modelVerdict) tline) acc
      -- C14: the insurance fund's membership queries agree with its stored registry (after every transaction)
      let acc :=
        match _okv.get? "if.qall" with
        | none => acc
        | some qall =>
          let reg := obs.w.ifund.vamms
          let listed := if qall == "err" then [] else natList qall
          let qis := natList (_okv.str "if.qis")
          let known : List Nat := (obs.w.vamms : List (Nat × Vamm.V)).map (fun (p : Nat × Vamm.V) => p.1)
          let stat : List (Nat × Bool) := (((_okv.str "if.qstat").splitOn ",").filterMap (fun (t : String) =>
            match t.splitOn ":" with
            | [a, b] => (match String.toNat? a, String.toNat? b with | some x, some y => some (x, y == 1) | _, _ => none)
            | _ => none))
          let acc := if listed == reg.take 3 then acc
            else acc.report "SPECFAIL" "C14" s!"{kind}:get-all-vamm-disagrees-with-registry" tline
          let acc := if known.all (fun v => qis.contains v == reg.contains v) && qis.all (fun v => reg.contains v) then acc
            else acc.report "SPECFAIL" "C14" s!"{kind}:is-vamm-disagrees-with-registry" tline
          if qall == "err" || stat.map (fun (p : Nat × Bool) => p.1) == reg.take 3
               && stat.all (fun (p : Nat × Bool) => match obs.w.vamm? p.1 with | some x => x.st.isOpen == p.2 | none => true) then acc
          else acc.report "SPECFAIL" "C14" s!"{kind}:vamm-status-query-disagrees-with-state" tline
      -- C04 / C05 / C11 with the funding owed computed from the HISTORY's checkpoint instead of the stored one: when the
      -- stored checkpoint of the sender's position differs from the ghost (a charge that did not move the checkpoint, or a
      -- checkpoint moved without a charge), the payout / margin clauses are judged again on the corrected pre-state
      let acc :=
        match (match tx with
               | .engine (.closePosition v _) | .engine (.withdrawMargin v _) | .engine (.openPosition v _ _ _ _) => some v
               | _ => none) with
        | none => acc
        | some v =>
          match withGhostChk h.last.w h.ghostChk v sender with
          | none => acc
          | some preG =>
            let stepG : Step := { step with pre := preG }
            let acc := (C04.check stepG ++ C04.checkPartial stepG).foldl (fun (a : Acc) t => a.report "SPECFAIL" "C04" s!"{kind}:{t}(funding-from-the-history's-checkpoint)" tline) acc
            let acc := (C05.check stepG).foldl (fun (a : Acc) t => a.report "SPECFAIL" "C05" s!"{kind}:{t}(funding-from-the-history's-checkpoint)" tline) acc
            (C11.checkCharge stepG).foldl (fun (a : Acc) t => a.report "SPECFAIL" "C11" s!"{kind}:{t}(funding-from-the-history's-checkpoint)" tline) acc
      -- C10 on the engine's own answers to `Position{vamm, trader}` (query view)
      let acc := match parseQp _okv with
        | some post => (qpChecks kind sender tx h.lastQp post obs.w).foldl (fun (a : Acc) t => a.report "SPECFAIL" "C10" t tline) acc
        | none => acc
      -- C01 quote recovery across the history
      let acc := obs.w.vamms.foldl (fun a p =>
        if (h.seen.filter (fun e => e.1 == p.1)).all (fun e => Spec.C01.recoveryOk p.2.cfg.decimals e.2 p.2.st) then a
        else a.report "SPECFAIL" "C01" s!"{kind}:quote-recovery(v{p.1})" tline) acc
      -- 1b. the specification's verdict on the MODEL's step from the same pre-state (the object the `sat_*`
      -- theorems speak about) must be the verdict on the implementation's step, check by check
      let mstep : Step := { Perp.Props.ModelStep.modelStep h.last.w env sender funds tx with liqsThisBlock := step.liqsThisBlock }
      let acc := if impersonated' then acc else
        ((allChecks step).zip (allChecks mstep)).foldl (fun a pq =>
          if pq.1.2 == pq.2.2 || pq.1.1 == "C09" && pq.1.2.any (· == "role-holder-refused-as-unauthorized")
             || pq.1.2.any (· == "unrestricted-trader-refused-as-restricted") then a
          else a.report "DISAGREE" pq.1.1 s!"{kind}:spec-verdict(impl={pq.1.2},model={pq.2.2})" tline) acc
      -- 2. correspondence: model step from the implementation's pre-state
      -- outside the model's domain: the harness impersonates the engine and calls the insurance fund
      -- contract directly while the engine itself is configured with ANOTHER fund; the model's
      -- `.ifWithdraw` stands for the engine's call of the fund it is configured with (a real engine
      -- would never send this message), so only Spec is evaluated on such a step
      let acc :=
        if impersonated' then acc.cover s!"{kind}:outside-model(engine-rewired)" else
        match World.applyTx h.last.w env sender funds tx with
        | .ok mw =>
          let acc := acc.cover s!"{kind}:ok"
          if !ok then
            (slicesOfImplErr kind).foldl (fun a p => a.report "DISAGREE" p s!"{kind}:accept(model-ok,impl-err:{tkv.str "err"})" tline) acc
          else
            let tags := diffWorld mw obs.w ++
              (if mw.log.filter (fun x => x.2.2 != 0) != step.xfers.filter (fun x => x.2.2 != 0) then ["xfers"] else [])
            tags.foldl (fun a tag =>
              (slicesOf kind tag).foldl (fun a p => a.report "DISAGREE" p s!"{kind}:state:{tag}" tline) a) acc
        | .error e =>
          let acc := acc.cover s!"{kind}:{errTag e}"
          let acc := match e with
            | .subcall _ =>
              (match innerCause h.last.w env sender funds tx with
               | some ie => acc.cover s!"{kind}:{errTag e}>{errTag ie}"
               | none => acc)
            | _ => acc
          if ok then
            (slicesOfModelErr kind e).foldl (fun a p => a.report "DISAGREE" p s!"{kind}:accept(model-err:{errTag e},impl-ok)" tline) acc
          else acc
      (acc, { next with ghostReg := some gPost }, some step)

/-- `QRY` lines: the engine's own query answers against the model's query functions on the same state -/
def handleWQry (acc : Acc) (h : WHist) (kv : KV) (line : String) : Acc :=
  if !h.alive then acc else
  let w := h.last.w
  let v := kv.nat "v"
  let t := kv.nat "t"
  let acc := { acc with checked := acc.checked + 1 }
  let cmpInt (acc : Acc) (name : String) (props : List String) (m : Except Err Integer) : Acc :=
    let iok := kv.bool s!"{name}ok"
    let iv : Int := (if kv.bool s!"{name}n" then -1 else 1) * (kv.nat s!"{name}v" : Int)
    match m with
    | .ok r => if iok && r.toInt == iv then acc else props.foldl (fun a p => a.report "DISAGREE" p s!"query:{name}" line) acc
    | .error _ => if iok then props.foldl (fun a p => a.report "DISAGREE" p s!"query:{name}-accept" line) acc else acc
  let acc := cmpInt acc "mr" ["C05", "C06"] (Engine.queryMarginRatio w.q w.engine v t)
  let acc := cmpInt acc "fc" ["C05"] (Engine.queryFreeCollateral w.q w.engine v t)
  let p := Engine.readPosition w.engine v t
  let cmpPnl (acc : Acc) (name : String) (opt : PnlOpt) : Acc :=
    let iok := kv.bool s!"{name}ok"
    let inot := kv.nat s!"{name}not"
    -- the notional token is `upsnot` / `uptnot` / `upoot`(oracle) in the harness; accept both spellings
    let inot := if name == "upo" && (kv.get? "uponot").isNone then kv.nat "upoot" else inot
    let iv : Int := (if kv.bool s!"{name}n" then -1 else 1) * (kv.nat s!"{name}v" : Int)
    match Engine.positionNotionalPnl w.q w.engine p opt with
    | .ok (n, pnl) => if iok && n == inot && pnl.toInt == iv then acc
                      else (acc.report "DISAGREE" "C06" s!"query:{name}" line).report "DISAGREE" "C04" s!"query:{name}" line
    | .error _ => if iok then acc.report "DISAGREE" "C06" s!"query:{name}-accept" line else acc
  let acc := cmpPnl acc "ups" .spot
  let acc := cmpPnl acc "upt" .twap
  let acc := cmpPnl acc "upo" .oracle
  let acc := match Engine.positionWithFunding w.engine v t with
    | .ok pf => if kv.bool "pwfok" && pf.margin == kv.nat "pwfm" then acc else acc.report "DISAGREE" "C11" "query:position-with-funding" line
    | .error _ => if kv.bool "pwfok" then acc.report "DISAGREE" "C11" "query:position-with-funding-accept" line else acc
  let cum := (Engine.latestCum w.engine v).toInt
  let icum : Int := (if kv.bool "cpfn" then -1 else 1) * (kv.nat "cpfv" : Int)
  if cum == icum then acc else acc.report "DISAGREE" "C11" "query:cumulative-premium-fraction" line

/-! ### C13: native vs cw20 twins (harness `twin` mode) -/

/-- per-account balance change of a step -/
def balDelta (s : Step) (a : Nat) : Int := Spec.W.bal s.post a - Spec.W.bal s.pre a

def sortPos (l : List Engine.Position) : List Engine.Position :=
  l.mergeSort (fun a b => a.vamm < b.vamm || (a.vamm == b.vamm && a.trader ≤ b.trader))

def posView (w : World) := (sortPos w.engine.positions).map (fun p => (p.vamm, p.trader, p.direction, p.size.toInt, p.margin, p.notional, p.chk.toInt, p.block))
def vammView (w : World) := w.vamms.map (fun p => (p.1, p.2.st.quote, p.2.st.base, p.2.st.net.toInt, p.2.st.isOpen, p.2.st.nextFunding, p.2.st.fundingRate.toInt, p.2.st.snaps))

/-- the two deployments are in the same state (collateral kind aside) -/
def twinSynced (a b : World) : Bool :=
  posView a == posView b && vammView a == vammView b && a.engine.st == b.engine.st
  && (Spec.W.accounts a).all (fun x => Spec.W.bal a x == Spec.W.bal b x)

/-- which flow an OpenPosition takes from a given pre-state (for finding signatures) -/
def openFlow (w : World) (sender : Nat) (tx : World.Tx) : String :=
  match tx with
  | .engine (.openPosition v side margin lev _) =>
    let p := Engine.readPosition w.engine v sender
    if !(w.engine.positions.any (fun q => q.vamm == v && q.trader == sender)) || p.direction == sideToDirection side then "(increase)"
    else
      match Engine.positionNotionalPnl w.q w.engine p .spot with
      | .ok (n, _) => if n > margin * lev / w.engine.cfg.decimals then "(reduce)" else "(reversal)"
      | .error _ => "(reversal?)"
  | _ => ""

/-- C13 on one lock-step operation: `a` ran on the cw20 deployment, `b` on the native one with
    exactly what `a` pulled from the caller attached -/
def twinCheck (a b : Step) : List String :=
  if !twinSynced a.pre b.pre then [] else
  -- not comparable: the native caller cannot even attach the amount (the cw20 run paid it out of what it had just received)
  if Spec.W.bal b.pre b.sender < (b.funds.amount : Int) then [] else
  Spec.W.chk (a.ok == b.ok) "accepted-in-one-deployment-only" ++
  (if a.ok && b.ok then
    Spec.W.chk (posView a.post == posView b.post) "positions-differ" ++
    Spec.W.chk (vammView a.post == vammView b.post) "vamm-state-differs" ++
    Spec.W.chk (a.post.engine.st == b.post.engine.st) "engine-state-differs" ++
    Spec.W.chk ((Spec.W.accounts a.post).all (fun x => balDelta a x == balDelta b x)) "balance-deltas-differ"
   else [])

end Driver
