import Perp.Spec.C19
import Driver.Parse

namespace Driver
open Perp Perp.Spec.C19

def opOf (s : String) : Option Op :=
  match s with
  | "cadd" => some .cadd | "csub" => some .csub | "cmul" => some .cmul | "cdiv" => some .cdiv
  | "add" => some .add | "sub" => some .sub | "mul" => some .mul | "div" => some .div
  | "neg" => some .neg | "abs" => some .abs | "eq" => some .eq | "cmp" => some .cmp
  | "iszero" => some .isZero | "isneg" => some .isNeg | "ispos" => some .isPos
  | "tostr" => some .toStr | "rt" => some .roundTrip
  | _ => none

def ordOf (n : Nat) : Ordering := if n == 0 then .lt else if n == 1 then .eq else .gt

/-- decode the implementation's answer of an `I` line -/
def implRes (op : Op) (kv : KV) : Res :=
  let intRes : Res :=
    if kv.bool "ok" then .int (some ⟨kv.nat "rv", kv.bool "rn"⟩) else .int none
  match op with
  | .eq | .isZero | .isNeg | .isPos => .bool (kv.bool "rb")
  | .cmp => .ord (ordOf (kv.nat "ro"))
  | .toStr => .str (kv.str "s").toList
  | _ => intRes

def handleInteger (acc : Acc) (kv : KV) (line : String) : Acc :=
  match opOf (kv.str "op") with
  | none => acc.report "DISAGREE" "C19" "unknown-op" line
  | some op =>
    let a : Integer := ⟨kv.nat "av", kv.bool "an"⟩
    let b : Integer := ⟨kv.nat "bv", kv.bool "bn"⟩
    let impl := implRes op kv
    let mdl := model op a b
    let acc := { acc with checked := acc.checked + 1 }
    -- 0. an operation that is total by its type panicked (the harness caught the unwind)
    if kv.bool "panicked" then acc.report "SPECFAIL" "C19" s!"panic-{kv.str "op"}" line else
    -- 1. the specification evaluated on the implementation's answer
    let acc := if ok op a b impl then acc else acc.report "SPECFAIL" "C19" s!"spec-{kv.str "op"}" line
    -- extra observations on the same line: partial_cmp / `<` / `>=` must agree with `cmp`, and the
    -- serde path must agree with FromStr
    let acc :=
      if op == .cmp then
        let o := kv.nat "ro"
        if kv.nat "rp" != o || kv.bool "lt" != (o == 0) || kv.bool "ge" != (o != 0)
        then acc.report "SPECFAIL" "C19" "cmp-operators-inconsistent" line else acc
      else if op == .roundTrip then
        if !kv.bool "js" then acc.report "SPECFAIL" "C19" "serde-vs-fromstr" line else acc
      else acc
    -- 2. correspondence: model vs implementation (observational equality)
    if sameRes impl mdl then acc else acc.report "DISAGREE" "C19" s!"model-{kv.str "op"}" line

end Driver
