import Perp.Spec.Feed
import Driver.Parse

namespace Driver
open Perp Perp.Pricefeed

def parseRound (s : String) : Option Round :=
  match s.splitOn ":" with
  | [i, p, t] =>
    match i.toNat?, p.toNat?, t.toNat? with
    | some i, some p, some t => some ⟨i, p, t⟩
    | _, _, _ => none
  | _ => none

def parseRounds (s : String) : Option (List Round) :=
  if s == "none" || s == "" then none else some ((s.splitOn ";").filterMap parseRound)

def parseNatList (s : String) : List Nat :=
  if s == "none" || s == "" then [] else (s.splitOn ",").filterMap (·.toNat?)

structure FHist where
  alive : Bool := false
  owner : Nat := 1
  r1 : Option (List Round) := none
  r2 : Option (List Round) := none

def FHist.get (h : FHist) (key : Nat) : Option (List Round) := if key == 1 then h.r1 else h.r2

def optRound (kv : KV) : Option Round :=
  if kv.bool "ok" then some ⟨kv.nat "rid", kv.nat "rp", kv.nat "rts"⟩ else none

def exOpt {α : Type} (e : Except Err α) : Option α :=
  match e with
  | .ok a => some a
  | .error _ => none

def handlePCfg (acc : Acc) (_kv : KV) : Acc × FHist := (acc, { alive := true })

def handlePOp (acc : Acc) (h : FHist) (kv : KV) (line : String) : Acc × FHist :=
  if !h.alive then (acc, h) else
  let acc := { acc with checked := acc.checked + 1 }
  let op := kv.str "op"
  let ok := kv.bool "ok"
  let acc := acc.cover s!"feed.{op}:{if ok then "ok" else "err"}"
  let key := kv.nat "key"
  let now := kv.nat "now"
  let snd := kv.nat "snd"
  let post : FHist := { alive := true, owner := kv.nat "own", r1 := parseRounds (kv.str "r1"), r2 := parseRounds (kv.str "r2") }
  let pre := readRounds (h.get key)
  let feedPre : Feed := { owner := h.owner, keys := (match h.r1 with | some l => [(1, l)] | none => []) ++ (match h.r2 with | some l => [(2, l)] | none => []) }
  let sameFeed (f : Feed) : Bool := f.owner == post.owner && f.lookup 1 == post.r1 && f.lookup 2 == post.r2
  let unchanged : Bool := h.owner == post.owner && h.r1 == post.r1 && h.r2 == post.r2
  let isExec := op == "append" || op == "appendm" || op == "updowner"
  let acc := if (isExec && ok) || unchanged then acc
    else (acc.report "SPECFAIL" "C09" "feed-state-changed-without-accepted-call" line)
  let wf := Spec.C18F.wellFormed now (Spec.C18F.subs pre)
  let acc :=
    match op with
    | "append" =>
      let acc := if ok && snd != h.owner then acc.report "SPECFAIL" "C09" "price-submitted-by-non-owner" line else acc
      -- judged against what was SUBMITTED: one new round with exactly these values, older rounds untouched
      let acc := if ok && !(Spec.C18F.recordedOk pre (readRounds (post.get key)) [(kv.nat "price", kv.nat "ts")])
        then acc.report "SPECFAIL" "C18" "feed-submission-not-recorded-as-submitted" line else acc
      match appendPrice feedPre snd key (kv.nat "price") (kv.nat "ts") with
      | .ok f => if ok && sameFeed f then acc else (acc.report "DISAGREE" "C18" "feed-append" line).report "DISAGREE" "C09" "feed-append" line
      | .error e => let acc := acc.cover s!"feed.{op}:{errTagOf e}"; if ok then (acc.report "DISAGREE" "C18" "feed-append-accept" line).report "DISAGREE" "C09" "feed-append-accept" line else acc
    | "appendm" =>
      let acc := if ok && snd != h.owner then acc.report "SPECFAIL" "C09" "price-submitted-by-non-owner" line else acc
      let acc := if ok && !(Spec.C18F.recordedOk pre (readRounds (post.get key)) ((parseNatList (kv.str "prices")).zip (parseNatList (kv.str "tss"))))
        then acc.report "SPECFAIL" "C18" "feed-submissions-not-recorded-as-submitted" line else acc
      match appendMultiple feedPre snd key (parseNatList (kv.str "prices")) (parseNatList (kv.str "tss")) with
      | .ok f => if ok && sameFeed f then acc else (acc.report "DISAGREE" "C18" "feed-append-multi" line).report "DISAGREE" "C09" "feed-append-multi" line
      | .error e => let acc := acc.cover s!"feed.{op}:{errTagOf e}"; if ok then (acc.report "DISAGREE" "C18" "feed-append-multi-accept" line).report "DISAGREE" "C09" "feed-append-multi-accept" line else acc
    | "updowner" =>
      let acc := if ok && snd != h.owner then acc.report "SPECFAIL" "C09" "feed-owner-change-by-non-owner" line else acc
      let acc := if ok && post.owner != kv.nat "new" then acc.report "SPECFAIL" "C09" "feed-owner-not-transferred" line else acc
      match updateOwner feedPre snd (kv.nat "new") with
      | .ok f => if ok && sameFeed f then acc else acc.report "DISAGREE" "C09" "feed-updowner" line
      | .error e => let acc := acc.cover s!"feed.{op}:{errTagOf e}"; if ok then acc.report "DISAGREE" "C09" "feed-updowner-accept" line else acc
    | "q_price" =>
      let res := optRound kv
      let acc := if wf && !(Spec.C18F.latestOk pre res) then acc.report "SPECFAIL" "C18" "feed-latest-not-last-submission" line else acc
      -- the vAMM parses this answer as a bare number (C07): record whether that parse works
      let acc := if ok && !kv.bool "scalar" then acc.report "SPECFAIL" "C07" "feed-getprice-not-a-scalar" line else acc
      let acc := match getPrice pre with | .error e => acc.cover s!"feed.{op}:{errTagOf e}" | .ok _ => acc
      if exOpt (getPrice pre) == res then acc else acc.report "DISAGREE" "C18" "feed-getprice" line
    | "q_prev" =>
      let res := optRound kv
      let n := kv.nat "n"
      let acc := if wf && !(Spec.C18F.previousOk pre n res) then acc.report "SPECFAIL" "C18" "feed-previous-not-nth-submission" line else acc
      let acc := match getPrevious pre n with | .error e => acc.cover s!"feed.{op}:{errTagOf e}" | .ok _ => acc
      if exOpt (getPrevious pre n) == res then acc else acc.report "DISAGREE" "C18" "feed-getprevious" line
    | "q_twap" =>
      let iv := kv.nat "iv"
      let r := kv.nat "r"
      let acc := if ok && wf && !(Spec.C18F.twapWithin pre now iv r) then acc.report "SPECFAIL" "C18" "feed-twap-outside-submitted-prices" line else acc
      match getTwap pre now iv with
      | .ok m => if ok && m == r then acc else (acc.report "DISAGREE" "C18" "feed-twap" line).report "DISAGREE" "C11" "feed-twap" line
      | .error e => let acc := acc.cover s!"feed.{op}:{errTagOf e}"; if ok then (acc.report "DISAGREE" "C18" "feed-twap-accept" line).report "DISAGREE" "C11" "feed-twap-accept" line else acc
    | _ => acc
  (acc, post)

end Driver
