import Perp.Model.U128
/-
  Line protocol helpers: `KIND key=value key=value ...` (flat tokens; no JSON).
  Lists inside a value use `,` `;` `|` separators chosen per field (see each decoder).
-/
namespace Driver

abbrev KV := List (String × String)

def splitKV (tok : String) : Option (String × String) :=
  match tok.splitOn "=" with
  | [] => none
  | [_] => none
  | k :: rest => some (k, "=".intercalate rest)

def parseLine (line : String) : String × KV :=
  let toks := (line.trimAscii.toString.splitOn " ").filter (fun t => t != "")
  match toks with
  | [] => ("", [])
  | k :: rest => (k, rest.filterMap splitKV)

def KV.get? (kv : KV) (k : String) : Option String :=
  match kv.find? (fun p => p.1 == k) with
  | some p => some p.2
  | none => none

def KV.str (kv : KV) (k : String) : String := (kv.get? k).getD ""

def KV.nat (kv : KV) (k : String) : Nat :=
  match kv.get? k with
  | some v => v.toNat?.getD 0
  | none => 0

def KV.nat? (kv : KV) (k : String) : Option Nat :=
  match kv.get? k with
  | some v => v.toNat?
  | none => none

def KV.bool (kv : KV) (k : String) : Bool := kv.nat k != 0

/-- signed decimal `-123` / `123` -/
def parseInt? (s : String) : Option Int :=
  if s.startsWith "-" then (s.drop 1).toNat?.map (fun n => -(n : Int))
  else s.toNat?.map (fun n => (n : Int))

def KV.int (kv : KV) (k : String) : Int :=
  match kv.get? k with
  | some v => (parseInt? v).getD 0
  | none => 0

/-- verdict accumulator; messages are kept per (property, what) class so that a frequent finding of
    one property cannot crowd out another property's report -/
structure Acc where
  lines : Nat := 0
  checked : Nat := 0
  disagree : Nat := 0
  specfail : Nat := 0
  out : Array String := #[]
  classes : List (String × Nat) := []
  /-- model-branch coverage of the correspondence: (transaction kind, model outcome) → count -/
  cov : List (String × Nat) := []
  /-- theorem-hypothesis monitor (`Perp.Spec.Monitor`): counters of how many observed deployments / steps lie
      inside the domain of the capstone theorems, and why the others do not -/
  hyp : List (String × Nat) := []

def Acc.hypCount (a : Acc) (key : String) : Acc :=
  let cnt := match a.hyp.find? (fun p => p.1 == key) with | some p => p.2 | none => 0
  { a with hyp := (key, cnt + 1) :: a.hyp.filter (fun p => p.1 != key) }

def Acc.cover (a : Acc) (key : String) : Acc :=
  let cnt := match a.cov.find? (fun p => p.1 == key) with | some p => p.2 | none => 0
  { a with cov := (key, cnt + 1) :: a.cov.filter (fun p => p.1 != key) }

def Acc.report (a : Acc) (kind : String) (prop : String) (what : String) (line : String) : Acc :=
  let key := kind ++ "|" ++ prop ++ "|" ++ what
  let cnt := match a.classes.find? (fun p => p.1 == key) with | some p => p.2 | none => 0
  let classes := (key, cnt + 1) :: a.classes.filter (fun p => p.1 != key)
  let msg := s!"{kind} n={a.lines} prop={prop} what={what} :: {line}"
  let a := { a with classes := classes, out := if cnt < 12 && a.out.size < 5000 then a.out.push msg else a.out }
  if kind == "DISAGREE" then { a with disagree := a.disagree + 1 }
  else { a with specfail := a.specfail + 1 }

/-- short name of a model error (coverage tags) -/
def errTagOf (e : Perp.Err) : String :=
  match e with
  | .overflow => "overflow" | .divZero => "divzero" | .panic => "panic" | .unauthorized => "unauthorized"
  | .guard c => s!"guard{c}" | .subcall c => s!"subcall{c}"

end Driver
