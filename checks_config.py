"""Per-property configuration of /verif/check: which harness streams are generated, how many cases
per tier, what counts as a distinct non-trivial case, and the assumptions stated in the evidence."""

COMMON_ASSUMPTIONS = [
    "cosmwasm-std 1.1.2 Uint128/Timestamp arithmetic modelled as bounded naturals",
    "the Rust harness, its generators and the line protocol decoding are trusted",
]


def _counts(tier, quick, thorough):
    return quick if tier == "quick" else thorough


def vamm_run(tier, seed, q=1500, t=150000):
    return {"mode": "vamm", "args": ["--seed", seed, "--count", _counts(tier, q, t)]}


def feed_run(tier, seed, q=800, t=80000):
    return {"mode": "pricefeed", "args": ["--seed", seed, "--count", _counts(tier, q, t)]}


def world_runs(tier, seed, q=480, t=2500, tn=16, qn=8):
    if tier == "quick":
        return [{"mode": "world", "args": ["--seed", seed * 100 + i, "--count", q // qn]} for i in range(qn)]
    return [{"mode": "world", "args": ["--seed", seed * 1000 + i, "--count", t]} for i in range(tn)]


def pump_runs(tier, seed, q=150, t=1200, n=3):
    """histories that spend their steps on the profit-taking / vault-draining / liquidate-the-losers campaign"""
    cnt = q if tier == "quick" else t
    return [{"mode": "world", "args": ["--seed", seed * 7000 + i, "--count", cnt, "--bias", "pump"]} for i in range(n)]


def fault_runs(tier, seed, q=60, t=1200, tn=8):
    if tier == "quick":
        return [{"mode": "fault", "args": ["--seed", seed * 100 + 50 + i, "--count", q // 2]} for i in range(4)]
    return [{"mode": "fault", "args": ["--seed", seed * 1000 + 500 + i, "--count", t]} for i in range(tn)]


def twin_runs(tier, seed, q=160, t=2000, tn=12):
    if tier == "quick":
        return [{"mode": "twin", "args": ["--seed", seed * 100 + 70 + i, "--count", q // 4]} for i in range(8)]
    return [{"mode": "twin", "args": ["--seed", seed * 1000 + 700 + i, "--count", t]} for i in range(tn)]


WORLD_RULE = ("world histories on the real contracts in cw-multi-test: random deployment (native / cw20 collateral, 6 / 9 decimals, mock / real price feed, "
              "1-3 vAMMs at price 10 / 1 / 0.1, fee ratios 0-10%, fluctuation limit 0-20%, caps, margin ratios, liquidation fee 0-100%, partial ratio "
              "0-100%, unregistered / closed vAMMs, small or empty insurance fund, small balances and allowances; in every other deployment three accounts carry 44/45-character addresses agreeing in their first 34 characters, one being another plus one character), then 10-60 state-dependent transactions "
              "with same-block bursts, single blocks and gaps up to 25 h: open / increase / reduce / reverse, close (whole and partial), deposit / "
              "withdraw (incl. free collateral ±1), liquidation campaigns (price pushed against a leveraged position, oracle realigned, TWAP waited out), "
              "pay-funding before / at / after the funding time, oracle moves around the 10% spread limit, every admin entry point of every contract by "
              "owner / pauser / stranger, direct vAMM calls, collateral housekeeping, malformed inputs. Full state of all contracts and balances is decoded "
              "from raw storage after every transaction. Classes: (transaction kind, accepted?, collateral kind, same block?); distinct_nontrivial = "
              "distinct classes reached")

WORLD_ASSUMPTIONS = COMMON_ASSUMPTIONS + [
    "the chain's sub-message / reply / atomicity semantics are those of cw-multi-test 0.13.4 (modelled by World.execSubs)",
    "position keys are injective in (vamm, trader) (fixed-length addresses, no SHA3 collision)",
    "re-wiring a contract to another engine / fund / feed by its owner is outside the quantifier",
]

VAMM_RULE = ("vAMM unit histories on the real contract (mock storage/querier): random deployment (decimals 5..18, ratios incl. D and D+1, "
             "reserves from one unit to 1e5 units, price >1/=1/<1, fluctuation limit 0/0.1%/1%/5%/100%), then 8-48 operations with "
             "same-block bursts, single blocks, gaps and a frozen clock: swap_input/swap_output (amounts: 0, 1-3, round fractions of the reserve "
             "(zero remainder), random, reserve±2, beyond the reserve; limits 0 / quoted / quoted±1 / random; can_go_over both), TWAP / "
             "input-output TWAP / fluctuation / spread-limit / fee queries, settle_funding, set_open, update_config at boundary values, "
             "update_owner, by engine / owner / insurance fund / stranger. Classes: (op, direction, limit relation, remainder class, "
             "accepted?, can_go_over, base<D?) and per-query outcome classes; distinct_nontrivial = distinct classes reached")

PROPS = {
    "C01": {
        "lean_modules": ["Perp.Props.C01", "Perp.Props.SatA.VammLift", "Perp.Props.SatA.C01W", "Perp.Props.SatA", "Perp.Props.Capstone", "Perp.Props.MonitorSound", "Perp.Props.CapstoneTx", "Perp.Props.MonitorTxSound"],
        "runs": lambda tier, seed: [vamm_run(tier, seed)] + world_runs(tier, seed),
        "rule": VAMM_RULE,
        "assumptions": COMMON_ASSUMPTIONS + ["the vAMM is driven through its public execute/query entry points on cosmwasm-std mock dependencies"],
    },
    "C15": {
        "lean_modules": ["Perp.Props.C15", "Perp.Props.EngineGuards", "Perp.Props.C15Band", "Perp.Props.SatTrace", "Perp.Props.SatFlows", "Perp.Props.SatC15", "Perp.Props.SatEWitness", "Perp.Props.SatE", "Perp.Props.C15Requote", "Perp.Props.Capstone", "Perp.Props.MonitorSound", "Perp.Props.CapstoneTx", "Perp.Props.MonitorTxSound", "Perp.Props.GhostSound"],
        "runs": lambda tier, seed: [vamm_run(tier, seed)] + world_runs(tier, seed),
        "rule": VAMM_RULE,
        "assumptions": COMMON_ASSUMPTIONS,
    },
    "C17": {
        "lean_modules": ["Perp.Props.C17", "Perp.Props.EngineGuards", "Perp.Props.SatTrace", "Perp.Props.SatFlows", "Perp.Props.SatC17", "Perp.Props.SatEWitness", "Perp.Props.SatE", "Perp.Props.Capstone", "Perp.Props.MonitorSound", "Perp.Props.CapstoneTx", "Perp.Props.MonitorTxSound", "Perp.Props.SatLimitV"],
        "runs": lambda tier, seed: [vamm_run(tier, seed)] + world_runs(tier, seed),
        "rule": VAMM_RULE + "; for every swap the harness also runs the same swap without a limit on a copy of the state (twin) to separate limit rejections from other rejections",
        "assumptions": COMMON_ASSUMPTIONS,
    },
    "C18": {
        "lean_modules": ["Perp.Props.C18", "Perp.Props.C18F", "Perp.Props.SatA.VammLift", "Perp.Props.SatA.C18W", "Perp.Props.SatA", "Perp.Props.Capstone", "Perp.Props.MonitorSound", "Perp.Props.CapstoneTx", "Perp.Props.MonitorTxSound", "Perp.Props.C18FRec"],
        "runs": lambda tier, seed: [vamm_run(tier, seed), feed_run(tier, seed)] + world_runs(tier, seed),
        "rule": VAMM_RULE + " || price feed unit histories on the real margined_pricefeed: append / append-multiple by owner and strangers with non-decreasing "
                "timestamps (plus a malformed share: future / out-of-order), GetPrice / GetPreviousPrice{0..7} / GetTwapPrice over intervals 0..1e7, two keys",
        "assumptions": COMMON_ASSUMPTIONS,
    },
    "C19": {
        "runs": lambda tier, seed: [
            {"mode": "integer", "args": ["--seed", seed, "--count", _counts(tier, 60000, 1500000)]},
        ],
        "rule": "operand pairs drawn from boundary pools (0,1,2^k±1,10^k,2^128-1, equal / off-by-one magnitudes, "
                "sums and products exactly at / one over 2^128) mixed with log-uniform values, all four flag "
                "combinations incl. the non-canonical {0,negative}; a case is (operator, operands); classes are "
                "(operator, sign pair, magnitude order, zero operand?, failed?, zero result?); distinct_nontrivial "
                "counts distinct classes reached",
        "assumptions": COMMON_ASSUMPTIONS + [
            "string form modelled over ASCII decimal digits with an own proved codec; serde_json only exercised, not modelled",
        ],
        "trusted_base": [],
    },
    "C03": {
        "lean_modules": ["Perp.Props.Dispatch", "Perp.Props.EngineMoney", "Perp.Props.G9Restr", "Perp.Props.G9Perm", "Perp.Props.WorldMore", "Perp.Props.SatA.C10", "Perp.Props.SatA.C03W", "Perp.Props.SatA", "Perp.Props.Capstone", "Perp.Props.MonitorSound", "Perp.Props.CapstoneTx", "Perp.Props.MonitorTxSound", "Perp.Props.CapLedger", "Perp.Props.FuelEnough"],
        "runs": lambda tier, seed: world_runs(tier, seed),
        "rule": WORLD_RULE, "assumptions": WORLD_ASSUMPTIONS,
    },
    "C08": {
        "lean_modules": ["Perp.Props.Dispatch", "Perp.Props.WorldInv", "Perp.Props.SatA", "Perp.Props.Capstone", "Perp.Props.MonitorSound", "Perp.Props.CapstoneTx", "Perp.Props.MonitorTxSound", "Perp.Props.CapLedger", "Perp.Props.FaultAtomic", "Perp.Props.FuelEnough", "Perp.Props.SatWithdrawExact"],
        "runs": lambda tier, seed: world_runs(tier, seed) + fault_runs(tier, seed),
        "rule": WORLD_RULE, "assumptions": WORLD_ASSUMPTIONS,
    },
    "C09": {
        "lean_modules": ["Perp.Props.VammGuards", "Perp.Props.C18F", "Perp.Props.EngineGuards", "Perp.Props.SatF09", "Perp.Props.SatF", "Perp.Props.Capstone", "Perp.Props.MonitorSound", "Perp.Props.CapstoneTx", "Perp.Props.MonitorTxSound", "Perp.Props.CapClose", "Perp.Props.SatRoles"],
        "runs": lambda tier, seed: world_runs(tier, seed) + [vamm_run(tier, seed, 600, 10000), feed_run(tier, seed, 300, 5000)],
        "rule": WORLD_RULE, "assumptions": WORLD_ASSUMPTIONS,
    },
    "C11": {
        "lean_modules": ["Perp.Props.VammGuards", "Perp.Props.EngineMoney", "Perp.Props.SatTrace", "Perp.Props.SatFlows", "Perp.Props.SatC11", "Perp.Props.SatBuffer", "Perp.Props.SatEWitness", "Perp.Props.SatE", "Perp.Props.Capstone", "Perp.Props.MonitorSound", "Perp.Props.CapstoneTx", "Perp.Props.MonitorTxSound", "Perp.Props.CapClose", "Perp.Props.SatExtra2"],
        "runs": lambda tier, seed: world_runs(tier, seed) + [vamm_run(tier, seed, 600, 10000)],
        "rule": WORLD_RULE, "assumptions": WORLD_ASSUMPTIONS,
    },
    "C14": {
        "lean_modules": ["Perp.Props.VammGuards", "Perp.Props.EngineGuards", "Perp.Props.WorldInv", "Perp.Props.SatF09", "Perp.Props.SatF14", "Perp.Props.SatF", "Perp.Props.Capstone", "Perp.Props.MonitorSound", "Perp.Props.CapstoneTx", "Perp.Props.MonitorTxSound", "Perp.Props.SatExtra3", "Perp.Props.SatExtra4", "Perp.Props.GhostRegSound"],
        "runs": lambda tier, seed: world_runs(tier, seed) + [vamm_run(tier, seed, 600, 10000)],
        "rule": WORLD_RULE, "assumptions": WORLD_ASSUMPTIONS,
    },
    "C20": {
        "lean_modules": ["Perp.Props.VammGuards", "Perp.Props.EngineGuards", "Perp.Props.SatCBase", "Perp.Props.SatCFlow", "Perp.Props.SatCCaps", "Perp.Props.SatC", "Perp.Props.Capstone", "Perp.Props.MonitorSound", "Perp.Props.CapstoneTx", "Perp.Props.MonitorTxSound", "Perp.Props.Inst", "Perp.Props.DeployOK", "Perp.Props.InstV", "Perp.Props.DeployFields"],
        "runs": lambda tier, seed: world_runs(tier, seed) + [vamm_run(tier, seed, 600, 10000)],
        "rule": WORLD_RULE, "assumptions": WORLD_ASSUMPTIONS,
    },
    "C02": {
        "lean_modules": ["Perp.Props.EngineMoney", "Perp.Props.Dispatch", "Perp.Props.CurveNoFlip", "Perp.Props.WorldInv",
                         "Perp.Props.Mirror.Sum", "Perp.Props.Mirror.Walk", "Perp.Props.Mirror.Exec", "Perp.Props.Mirror.VammSide",
                         "Perp.Props.Mirror.Flow", "Perp.Props.Mirror.Run", "Perp.Props.Mirror.Tx", "Perp.Props.MirrorInv", "Perp.Props.SatA.C02W", "Perp.Props.SatA", "Perp.Props.Capstone", "Perp.Props.MonitorSound", "Perp.Props.CapstoneTx", "Perp.Props.MonitorTxSound"],
        "runs": lambda tier, seed: world_runs(tier, seed),
        "rule": WORLD_RULE, "assumptions": WORLD_ASSUMPTIONS,
    },
    "C04": {
        "lean_modules": ["Perp.Props.EngineMoney", "Perp.Props.TxLog", "Perp.Props.TxMoney", "Perp.Props.TxFlow", "Perp.Props.SatOpen", "Perp.Props.SatClose", "Perp.Props.SatFree", "Perp.Props.SatB", "Perp.Props.Capstone", "Perp.Props.MonitorSound", "Perp.Props.CapstoneTx", "Perp.Props.MonitorTxSound", "Perp.Props.SatExtra"],
        "runs": lambda tier, seed: world_runs(tier, seed) + pump_runs(tier, seed, q=100, t=800, n=2),
        "rule": WORLD_RULE + "; plus two runs biased to the profit-taking / empty-vault campaign (payouts with a vault shortfall, small or empty insurance fund)", "assumptions": WORLD_ASSUMPTIONS,
    },
    "C05": {
        "lean_modules": ["Perp.Props.EngineGuards", "Perp.Props.EngineMoney", "Perp.Props.WorldInv", "Perp.Props.SatCBase", "Perp.Props.SatCFlow", "Perp.Props.SatCMargin", "Perp.Props.SatCWallet", "Perp.Props.SatC", "Perp.Props.Capstone", "Perp.Props.MonitorSound", "Perp.Props.CapstoneTx", "Perp.Props.MonitorTxSound"],
        "runs": lambda tier, seed: world_runs(tier, seed) + pump_runs(tier, seed, q=100, t=800, n=2),
        "rule": WORLD_RULE + "; plus two runs biased to the profit-taking / empty-vault campaign (withdrawals with a vault shortfall)", "assumptions": WORLD_ASSUMPTIONS,
    },
    "C06": {
        "lean_modules": ["Perp.Props.EngineMoney", "Perp.Props.EngineGuards", "Perp.Props.CurveNoFlip", "Perp.Props.SatDBase", "Perp.Props.SatDC06", "Perp.Props.SatDWitness", "Perp.Props.SatD", "Perp.Props.Capstone", "Perp.Props.MonitorSound", "Perp.Props.CapstoneTx", "Perp.Props.MonitorTxSound"],
        "runs": lambda tier, seed: world_runs(tier, seed, q=1200, qn=8) + pump_runs(tier, seed) + [vamm_run(tier, seed, 1500, 30000)],
        "rule": WORLD_RULE + "; plus three runs biased to the profit-taking / empty-vault / liquidation campaign; plus the vAMM unit stream (the 10 % spread-limit query at oracle prices exactly at, one unit below and one unit above the threshold)", "assumptions": WORLD_ASSUMPTIONS,
    },
    "C07": {
        "lean_modules": ["Perp.Props.LiqTwin", "Perp.Props.EngineGuards", "Perp.Props.SatDBase", "Perp.Props.SatDC07", "Perp.Props.SatDWitness", "Perp.Props.SatD", "Perp.Props.Capstone", "Perp.Props.MonitorSound", "Perp.Props.CapstoneTx", "Perp.Props.MonitorTxSound", "Perp.Props.SatDC07Partial", "Perp.Props.GhostRegSound"],
        "runs": lambda tier, seed: world_runs(tier, seed, q=1200, qn=8) + pump_runs(tier, seed),
        "rule": WORLD_RULE + "; plus three runs biased to the profit-taking / empty-vault / liquidation campaign", "assumptions": WORLD_ASSUMPTIONS,
    },
    "C10": {
        "lean_modules": ["Perp.Props.WorldInv", "Perp.Props.EngineMoney", "Perp.Props.SatA.C10", "Perp.Props.SatA", "Perp.Props.Capstone", "Perp.Props.MonitorSound", "Perp.Props.CapstoneTx", "Perp.Props.MonitorTxSound", "Perp.Props.SatScope"],
        "runs": lambda tier, seed: world_runs(tier, seed),
        "rule": WORLD_RULE, "assumptions": WORLD_ASSUMPTIONS,
    },
    "C12": {
        "lean_modules": ["Perp.Props.EngineGuards", "Perp.Props.EngineMoney", "Perp.Props.TxLog", "Perp.Props.TxMoney", "Perp.Props.TxFlow", "Perp.Props.SatOpen", "Perp.Props.SatClose", "Perp.Props.SatFree", "Perp.Props.SatB", "Perp.Props.Capstone", "Perp.Props.MonitorSound", "Perp.Props.CapstoneTx", "Perp.Props.MonitorTxSound", "Perp.Props.InstV", "Perp.Props.DeployFields"],
        "runs": lambda tier, seed: world_runs(tier, seed),
        "rule": WORLD_RULE, "assumptions": WORLD_ASSUMPTIONS,
    },
    "C16": {
        "lean_modules": ["Perp.Props.EngineGuards", "Perp.Props.WorldInv", "Perp.Props.G9Restr", "Perp.Props.WorldMore", "Perp.Props.SatC", "Perp.Props.Capstone", "Perp.Props.MonitorSound", "Perp.Props.CapstoneTx", "Perp.Props.MonitorTxSound", "Perp.Props.CapClose", "Perp.Props.SatExtra"],
        "runs": lambda tier, seed: world_runs(tier, seed),
        "rule": WORLD_RULE, "assumptions": WORLD_ASSUMPTIONS,
    },
    "C13": {
        "lean_modules": ["Perp.Props.LiqTwin", "Perp.Props.SatGTwin", "Perp.Props.SatGDeposit", "Perp.Props.SatGRun", "Perp.Props.SatGLedger", "Perp.Props.SatGOpen", "Perp.Props.SatGClose", "Perp.Props.SatGOpenTx", "Perp.Props.SatGCloseTx", "Perp.Props.SatGWitness", "Perp.Props.SatG", "Perp.Props.SatGReduce", "Perp.Props.SatGReverseTx", "Perp.Props.SatGReverse", "Perp.Props.SatGSim", "Perp.Props.SatGHistory", "Perp.Props.SatExtra"],
        "runs": lambda tier, seed: twin_runs(tier, seed) + world_runs(tier, seed, q=120, qn=2, t=1200, tn=6),
        "rule": WORLD_RULE + " || twin mode: two deployments identical except the collateral (cw20 vs native, 6 decimals) driven in lock-step; each native call attaches exactly what the cw20 run pulled from the caller; after every operation positions, vAMM state, engine state and per-account balance deltas are compared",
        "assumptions": WORLD_ASSUMPTIONS,
    },
}
