"""Per-property configuration of /verif/check: which harness streams are generated, how many cases
per tier, what counts as a distinct non-trivial case, and the assumptions stated in the evidence."""

COMMON_ASSUMPTIONS = [
    "cosmwasm-std 1.1.2 Uint128/Timestamp arithmetic modelled as bounded naturals",
    "the Rust harness, its generators and the line protocol decoding are trusted",
]


def _counts(tier, quick, thorough):
    return quick if tier == "quick" else thorough


PROPS = {
    "C19": {
        "runs": lambda tier, seed: [
            {"mode": "integer", "args": ["--seed", seed, "--count", _counts(tier, 60000, 1500000)]},
        ],
        "rule": "operand pairs drawn from boundary pools (0,1,2^k±1,10^k,2^128-1, equal / off-by-one magnitudes, "
                "sums and products exactly at / one over 2^128) mixed with log-uniform values, all four flag "
                "combinations incl. the non-canonical {0,negative}; a case is (operator, operands); classes are "
                "(operator, sign pair, magnitude order, zero operand?, failed?, zero result?); distinct_nontrivial "
                "counts distinct classes reached",
        "assumptions": COMMON_ASSUMPTIONS + [
            "string form modelled over ASCII decimal digits with an own proved codec; serde_json only exercised, not modelled",
        ],
        "trusted_base": [],
    },
}
