/-
  G8 — handler-level theorems for C07 (liquidation liveness, partial) and C13 (the collateral kind
  only changes the form of the emitted transfers).  STATEMENTS ARE FIXED.
-/
import Perp.Model.World
import Perp.Lemmas.Basic

namespace Perp.Props.LiqTwin
open Perp Perp.Engine

def isOk {α : Type} (e : Except Err α) : Prop := ∃ r, e = .ok r

/-! ### C07 (partial): the execute half of `Liquidate` has no failure path of its own -/

/-- full-liquidation path: if the position exists, every query answers, the vAMM is registered and
    open, and the (possibly oracle-lifted) margin ratio is at most the maintenance ratio, `liquidate`
    dispatches the closing swap — whatever the caller, the pause flag, the vault balance, and however
    negative the ratio is -/
theorem liquidate_full_path_live (q : Q) (e : E) (env : Env) (s v t l : Nat) (r0 : Integer) (over : Bool)
    (hq : queryMarginRatio q { e with tmpLiq := some s } v t = .ok r0)
    (hs : q.isOverSpread v = .ok over)
    (horacle : over = true → ∃ ro d, marginRatioByOption q { e with tmpLiq := some s } v t .oracle = .ok ro
                 ∧ Integer.checkedSub ro r0 = .ok d
                 ∧ Integer.gt (if Integer.gt d Integer.zero then ro else r0) (Integer.newPositive e.cfg.mmr) = false)
    (hlow : over = false → Integer.gt r0 (Integer.newPositive e.cfg.mmr) = false)
    (hv : requireVamm q v = .ok ())
    (hp : (readPosition e v t).size.value ≠ 0)
    (hfull : e.cfg.plr = 0) :
    ∃ e', liquidate q e env s v t l = .ok (e',
      [swapOutputMsg (readPosition e v t).vamm (directionToSide (readPosition e v t).direction)
        (readPosition e v t).size.value l REPLY_LIQUIDATION])
      ∧ e'.tmpLiq = some s := by
  sorry

/-- the unrestricted liveness statement is FALSE of the model (and of the code): a deeply
    under-water position with a non-zero partial-liquidation ratio takes the partial path, whose reply
    underflows.  Witness: margin 10, notional 100, long 10 base, quote paid for a quarter is 15
    (value collapsed), 25 % partial ratio, fee 2.5 %. -/
def witnessE : E :=
  { cfg := { owner := 100, insuranceFund := 2, feePool := 3, native := false, decimals := 1000000,
             imr := 100000, mmr := 50000, plr := 250000, liqFee := 25000 },
    st := ⟨0, 0, false⟩, pauser := 111, whitelist := [],
    positions := [⟨10, 101, .addToAmm, ⟨10000000, false⟩, 10000000, 100000000, Integer.zero, 5⟩],
    vammMaps := [],
    tmpSwap := some ⟨10, 101, .sell, 2500000, 0, 15000000, 0, ⟨40000000, true⟩, Integer.zero, false⟩,
    sentFunds := none, tmpLiq := some 110 }

def witnessQ : Q :=
  { isVamm := fun _ => .ok true, vammOpen := fun _ => .ok true, vammNet := fun _ => .ok Integer.zero,
    vammCaps := fun _ => .ok (0, 0), outputAmount := fun _ _ _ => .ok 15000000,
    outputTwap := fun _ _ _ => .ok 15000000, calcFee := fun _ _ => .ok (0, 0),
    isOverSpread := fun _ => .ok false, underlyingPrice := fun _ => .ok 6000000,
    isOverFluct := fun _ _ _ => .ok false, balance := fun _ => .ok 1000000000 }

theorem partial_path_underflows :
    ∃ x, partialLiquidationReply witnessQ witnessE ⟨6, 100⟩ 2500000 15000000 = .error x := by
  sorry

/-! ### C13: collateral kind and message form -/

def setNative (e : E) (b : Bool) : E := { e with cfg := { e.cfg with native := b } }

/-- the native form of a cw20 transfer message (a `TransferFrom` becomes a send out of the engine) -/
def toNative (m : SubMsg) : SubMsg :=
  match m.msg with
  | .tokenTransfer to amt => { m with msg := .bankSend to amt }
  | .tokenTransferFrom _ to amt => { m with msg := .bankSend to amt }
  | _ => m

def lift (r : E × List SubMsg) : E × List SubMsg := (setNative r.1 true, r.2.map toNative)

/-- for every handler that does not read the attached funds, the native engine does exactly what the
    cw20 engine does, with each transfer in its native form (given the same query answers) -/
theorem closePosition_twin (q : Q) (e : E) (env : Env) (s v l : Nat) :
    closePosition q (setNative e true) env s v l = (closePosition q (setNative e false) env s v l).map lift := by
  sorry

theorem liquidate_twin (q : Q) (e : E) (env : Env) (s v t l : Nat) :
    liquidate q (setNative e true) env s v t l = (liquidate q (setNative e false) env s v t l).map lift := by
  sorry

theorem withdrawMargin_twin (q : Q) (e : E) (env : Env) (s v a : Nat) :
    withdrawMargin q (setNative e true) env s v a = (withdrawMargin q (setNative e false) env s v a).map lift := by
  sorry

theorem closePositionReply_twin (q : Q) (e : E) (env : Env) (out : Nat) :
    closePositionReply q (setNative e true) env out = (closePositionReply q (setNative e false) env out).map lift := by
  sorry

theorem partialClosePositionReply_twin (q : Q) (e : E) (env : Env) (i o : Nat) :
    partialClosePositionReply q (setNative e true) env i o
      = (partialClosePositionReply q (setNative e false) env i o).map lift := by
  sorry

theorem liquidateReply_twin (q : Q) (e : E) (env : Env) (out : Nat) :
    liquidateReply q (setNative e true) env out = (liquidateReply q (setNative e false) env out).map lift := by
  sorry

theorem partialLiquidationReply_twin (q : Q) (e : E) (env : Env) (i o : Nat) :
    partialLiquidationReply q (setNative e true) env i o
      = (partialLiquidationReply q (setNative e false) env i o).map lift := by
  sorry

theorem payFundingReply_twin (q : Q) (e : E) (env : Env) (pf : Integer) (v : Nat) :
    payFundingReply q (setNative e true) env pf v = (payFundingReply q (setNative e false) env pf v).map lift := by
  sorry

/-- a deposit changes the stored margin identically; native requires exactly the amount attached,
    cw20 pulls it -/
theorem depositMargin_twin (e : E) (env : Env) (s v a : Nat) :
    (depositMargin (setNative e true) env s ⟨a, false⟩ v a).map (·.1)
      = (depositMargin (setNative e false) env s ⟨0, false⟩ v a).map (fun r => setNative r.1 true) := by
  sorry

/-- the ledger effect of a transfer is the same in both forms (cw20 `Transfer` vs bank `Send`) -/
theorem transfer_twin (g : Ledger) (src dst amt : Nat) :
    Ledger.tokenTransfer g src dst amt = Ledger.bankSend g src dst amt := by
  sorry

end Perp.Props.LiqTwin
