/-
  G3 — generic theorems about the host dispatcher model (`World.execMsg` / `World.execSubs` /
  `World.applyTx`): collateral conservation (C03a), no failure is swallowed (C08), frames.
  STATEMENTS ARE FIXED.
-/
import Perp.Model.World
import Perp.Lemmas.Basic

namespace Perp.Props.Dispatch
open Perp Perp.World

/-- total collateral recorded by the ledger -/
def total (g : Ledger) : Nat := (g.bal.map (·.2)).foldl (· + ·) 0

/-- each account appears at most once -/
def KeysNodup (g : Ledger) : Prop := (g.bal.map (·.1)).Nodup

/-! ### ledger primitives -/

theorem move_total (g g' : Ledger) (src dst amt : Nat) (hk : KeysNodup g)
    (h : Ledger.move g src dst amt = .ok g') : KeysNodup g' ∧ total g' = total g ∧ g'.allow = g.allow := by
  sorry

theorem tokenTransfer_total (g g' : Ledger) (src dst amt : Nat) (hk : KeysNodup g)
    (h : Ledger.tokenTransfer g src dst amt = .ok g') : KeysNodup g' ∧ total g' = total g := by
  sorry

theorem tokenTransferFrom_total (g g' : Ledger) (owner dst amt : Nat) (hk : KeysNodup g)
    (h : Ledger.tokenTransferFrom g owner dst amt = .ok g') : KeysNodup g' ∧ total g' = total g := by
  sorry

theorem bankSend_total (g g' : Ledger) (src dst amt : Nat) (hk : KeysNodup g)
    (h : Ledger.bankSend g src dst amt = .ok g') : KeysNodup g' ∧ total g' = total g := by
  sorry

/-- a ledger primitive changes at most the two balances it names -/
theorem move_frame (g g' : Ledger) (src dst amt a : Nat) (h : Ledger.move g src dst amt = .ok g')
    (h1 : a ≠ src) (h2 : a ≠ dst) : g'.balance a = g.balance a := by
  sorry

/-! ### the dispatcher conserves collateral (C03, first sentence), for every message tree -/

theorem exec_total (fuel : Nat) :
    (∀ w sender m w' ev, execMsg fuel w sender m = .ok (w', ev) → KeysNodup w.ledger →
        KeysNodup w'.ledger ∧ total w'.ledger = total w.ledger)
    ∧ (∀ w c subs w', execSubs fuel w c subs = .ok w' → KeysNodup w.ledger →
        KeysNodup w'.ledger ∧ total w'.ledger = total w.ledger) := by
  sorry

/-- every transaction of every kind conserves the total (a failed one changes nothing at all) -/
theorem applyTx_total (w w' : World) (env : Env) (s : Nat) (f : Engine.Funds) (tx : Tx)
    (hk : KeysNodup w.ledger) (h : applyTx w env s f tx = .ok w') :
    KeysNodup w'.ledger ∧ total w'.ledger = total w.ledger := by
  sorry

theorem step_total (w : World) (env : Env) (s : Nat) (f : Engine.Funds) (tx : Tx) (hk : KeysNodup w.ledger) :
    KeysNodup (step w env s f tx).ledger ∧ total (step w env s f tx).ledger = total w.ledger := by
  sorry

/-! ### no failure is swallowed (C08) -/

/-- the engine's `reply` turns every reported failure into a failure -/
theorem replyErr_is_error (e : Engine.E) (id : Nat) : ∃ x, Engine.replyErr e id = .error x := by
  sorry

/-- a failing sub-message of the engine with `ReplyOn::Always` / `ReplyOn::Error` fails the whole response -/
theorem execSubs_head_error (fuel : Nat) (w : World) (s : SubMsg) (rest : List SubMsg) (e : Err)
    (hr : s.replyOn = .always ∨ s.replyOn = .error)
    (h : execMsg fuel w ENGINE s.msg = .error e) :
    ∃ e', execSubs (fuel + 1) w ENGINE (s :: rest) = .error e' := by
  sorry

/-- a failing sub-message with `ReplyOn::Never` / `Success` fails the response of any contract -/
theorem execSubs_head_error_never (fuel : Nat) (w : World) (c : Nat) (s : SubMsg) (rest : List SubMsg) (e : Err)
    (hr : s.replyOn = .never ∨ s.replyOn = .success)
    (h : execMsg fuel w c s.msg = .error e) :
    ∃ e', execSubs (fuel + 1) w c (s :: rest) = .error e' := by
  sorry

/-- success of a response implies success of its first sub-message, of the reply to it (when one is
    due) together with everything that reply dispatched, and of the remaining sub-messages -/
theorem execSubs_cons_ok (fuel : Nat) (w w' : World) (c : Nat) (s : SubMsg) (rest : List SubMsg)
    (h : execSubs (fuel + 1) w c (s :: rest) = .ok w') :
    ∃ w1 ev, execMsg fuel w c s.msg = .ok (w1, ev) ∧
      ((s.replyOn = .always ∨ s.replyOn = .success) →
        c = ENGINE ∧ ∃ e2 subs2 w3, Engine.replyOk w1.q w1.engine w1.env s.id ev = .ok (e2, subs2)
          ∧ execSubs fuel { w1 with engine := e2 } c subs2 = .ok w3 ∧ execSubs fuel w3 c rest = .ok w')
      ∧ (¬ (s.replyOn = .always ∨ s.replyOn = .success) → execSubs fuel w1 c rest = .ok w') := by
  sorry

/-! ### frames -/

/-- executing a message (of any kind, by any sender) never writes the engine's state; replies do -/
theorem execMsg_engine_frame (fuel : Nat) :
    (∀ w sender m w' ev, execMsg fuel w sender m = .ok (w', ev) → w'.engine = w.engine ∧ w'.env = w.env
        ∧ w'.ifund = w.ifund ∧ w'.feePool = w.feePool ∧ w'.feed = w.feed)
    ∧ (∀ w c subs w', c ≠ ENGINE → execSubs fuel w c subs = .ok w' → w'.engine = w.engine ∧ w'.env = w.env
        ∧ w'.ifund = w.ifund ∧ w'.feePool = w.feePool ∧ w'.feed = w.feed) := by
  sorry

/-- collateral messages leave every vAMM untouched; a vAMM message touches only the addressed vAMM -/
theorem execMsg_vamm_frame (fuel : Nat) (w w' : World) (sender : Nat) (m : Msg) (ev : Ev) (a : Nat)
    (h : execMsg fuel w sender m = .ok (w', ev))
    (hm : ∀ d x l g, m ≠ .vammSwapInput a d x l g) (hm2 : ∀ d x l, m ≠ .vammSwapOutput a d x l)
    (hm3 : m ≠ .vammSettle a) (hm4 : ∀ o, m ≠ .vammSetOpen a o) :
    w'.vamm? a = w.vamm? a := by
  sorry

/-- vAMM messages move no collateral -/
theorem execMsg_vamm_ledger (fuel : Nat) (w w' : World) (sender : Nat) (m : Msg) (ev : Ev)
    (h : execMsg fuel w sender m = .ok (w', ev))
    (hm : (∃ a d x l g, m = .vammSwapInput a d x l g) ∨ (∃ a d x l, m = .vammSwapOutput a d x l)
          ∨ (∃ a, m = .vammSettle a) ∨ (∃ a o, m = .vammSetOpen a o)) :
    w'.ledger = w.ledger ∧ w'.log = w.log := by
  sorry

end Perp.Props.Dispatch
