/-
  C18 (vAMM part) — TWAPs stay within observed prices; snapshot discipline.
  STATEMENTS ARE FIXED; replace every `sorry` by a proof.
-/
import Perp.Model.VammRun
import Perp.Spec.Vamm
import Perp.Lemmas.Basic

namespace Perp.Props.C18
open Perp Perp.Vamm Perp.Spec.C18

/-- timestamps non-increasing along the (newest-first) list and not in the future -/
def TimeOrdered (now : Nat) : List Snapshot → Prop
  | [] => True
  | s :: rest => s.timestamp ≤ now ∧ TimeOrdered s.timestamp rest

/-- the reserve TWAP lies between the lowest and the highest spot price in effect in the window
    (whole history if shorter) -/
theorem calcTwap_within (D : Nat) (snaps : List Snapshot) (env : Env) (interval r : Nat)
    (hord : TimeOrdered env.time snaps) (hi : interval ≠ 0)
    (h : calcTwap D snaps env .reserve interval = .ok r) :
    twapWithin D snaps env.time interval r = true := by
  sorry

/-- with interval 0 the TWAP is the current spot price -/
theorem calcTwap_zero (D : Nat) (s : Snapshot) (rest : List Snapshot) (env : Env) (r : Nat)
    (h : calcTwap D (s :: rest) env .reserve 0 = .ok r) : r = price D s := by
  sorry

/-- if every price in effect is the same, the TWAP equals it -/
theorem calcTwap_const (D : Nat) (snaps : List Snapshot) (env : Env) (interval r p : Nat)
    (hord : TimeOrdered env.time snaps) (hi : interval ≠ 0)
    (hp : ∀ s ∈ inEffect (env.time - interval) snaps, price D s = p)
    (h : calcTwap D snaps env .reserve interval = .ok r) : r = p := by
  sorry

/-- snapshot discipline as an invariant of the vAMM state machine under a monotone chain clock -/
def SnapInv (v : V) (env : Env) : Prop := snapshotsOk v.st env = true

theorem instantiate_snapInv (env : Env) (sender : Nat) (m : InstantiateMsg) (v : V)
    (h : instantiate env sender m = .ok v) : SnapInv v env := by
  sorry

/-- any accepted call at a block not earlier than the last one keeps the invariant: at most one
    snapshot per block, and the newest reflects the block's final reserves -/
theorem apply_snapInv (v v' : V) (c : Call) (env0 : Env)
    (hinv : SnapInv v env0) (hh : env0.height ≤ c.env.height) (ht : env0.time ≤ c.env.time)
    (h : apply v c = .ok v') : SnapInv v' c.env := by
  sorry

/-- within one block a second trade overwrites the block's snapshot instead of adding one -/
theorem addSnapshot_same_block (s : Snapshot) (rest : List Snapshot) (env : Env) (q b : Nat)
    (h : s.height = env.height) :
    addSnapshot (s :: rest) env q b = ⟨q, b, s.timestamp, s.height⟩ :: rest := by
  sorry

theorem addSnapshot_new_block (s : Snapshot) (rest : List Snapshot) (env : Env) (q b : Nat)
    (h : s.height ≠ env.height) :
    addSnapshot (s :: rest) env q b = ⟨q, b, env.time, env.height⟩ :: s :: rest := by
  sorry

end Perp.Props.C18
