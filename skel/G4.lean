/-
  G4 — what the engine's money-moving handlers compute and emit (handler level; parts of C04, C05,
  C06, C11, C12).  STATEMENTS ARE FIXED.
-/
import Perp.Model.World
import Perp.Lemmas.Basic

namespace Perp.Props.EngineMoney
open Perp Perp.Engine

def trunc (a b : Int) : Int := Int.tdiv a b

/-- funding owed by a position at the engine's current cumulative premium fraction -/
def fundingOwed (e : E) (p : Position) : Int :=
  trunc (((latestCum e p.vamm).toInt - p.chk.toInt) * p.size.toInt) (e.cfg.decimals : Int)

/-- who receives collateral from a message, if anyone -/
def payee (m : SubMsg) : Option Nat :=
  match m.msg with
  | .tokenTransfer to _ => some to
  | .tokenTransferFrom _ to _ => some to
  | .bankSend to _ => some to
  | _ => none

/-- `calc_remain_margin_with_funding_payment` is margin + delta − funding, floored at zero, the
    deficit reported as bad debt; the checkpoint returned is the current cumulative fraction -/
theorem calcRemainMargin_spec (e : E) (p : Position) (d : Integer) (rm : RemainMargin)
    (h : calcRemainMargin e p d = .ok rm) :
    rm.funding.toInt = fundingOwed e p ∧ rm.latest = latestCum e p.vamm
    ∧ (0 ≤ d.toInt - fundingOwed e p + p.margin →
         (rm.margin : Int) = d.toInt - fundingOwed e p + p.margin ∧ rm.badDebt = 0)
    ∧ (d.toInt - fundingOwed e p + p.margin < 0 →
         rm.margin = 0 ∧ (rm.badDebt : Int) = -(d.toInt - fundingOwed e p + p.margin)) := by
  sorry

/-- `withdraw`: the receiver is paid exactly `amount`; an insurance-fund withdrawal is requested only
    for the shortfall of the vault, and exactly that shortfall is booked as prepaid bad debt (C04) -/
theorem withdraw_spec (q : Q) (e : E) (st st' : State) (r amt pre : Nat) (msgs : List SubMsg)
    (h : withdraw q e st r amt pre = .ok (st', msgs)) :
    ∃ bal, q.balance ENGINE_ADDR = .ok bal ∧
      ((bal + pre < amt ∧ st'.prepaid = st.prepaid + (amt - (bal + pre)) ∧ st'.oi = st.oi ∧ st'.pause = st.pause
          ∧ msgs = [ifWithdrawMsg (amt - (bal + pre)), transferMsg e.cfg r amt])
       ∨ (amt ≤ bal + pre ∧ st' = st ∧ msgs = [transferMsg e.cfg r amt])) := by
  sorry

/-- C04: a whole close pays the trader exactly margin + realised PnL − funding (never with bad debt),
    charges the fee on the open notional, and erases the position -/
theorem closePositionReply_spec (q : Q) (e e' : E) (env : Env) (out : Nat) (msgs : List SubMsg) (sw : TmpSwap)
    (hs : e.tmpSwap = some sw) (h : closePositionReply q e env out = .ok (e', msgs)) :
    let p := getPosition env e sw.vamm sw.trader sw.side
    ∃ delta rm wa st1 wmsgs fmsgs,
      closeMarginDelta p sw out = .ok delta ∧ calcRemainMargin e p delta = .ok rm ∧ rm.badDebt = 0
      ∧ Integer.checkedAdd (Integer.newPositive rm.margin) sw.upnl = .ok wa
      ∧ (if wa.isZero then st1 = e.st ∧ wmsgs = [] else withdraw q e e.st sw.trader wa.value 0 = .ok (st1, wmsgs))
      ∧ (if p.notional ≠ 0 then ∃ sp tl, transferFees q e sw.trader sw.vamm p.notional = .ok (fmsgs, sp, tl) else fmsgs = [])
      ∧ msgs = wmsgs ++ fmsgs
      ∧ e'.tmpSwap = none ∧ readPosition e' sw.vamm sw.trader = Position.default
      ∧ (∀ v t, ¬ (v = p.vamm ∧ t = p.trader) → readPosition e' v t = readPosition e v t) := by
  sorry

/-- C04: a partial close that would create bad debt is rejected -/
theorem partialClose_no_bad_debt (q : Q) (e e' : E) (env : Env) (i o : Nat) (msgs : List SubMsg) (sw : TmpSwap)
    (hs : e.tmpSwap = some sw) (h : partialClosePositionReply q e env i o = .ok (e', msgs)) :
    let p := getPosition env e sw.vamm sw.trader sw.side
    ∃ realized rm, realizedPnl p sw (signedOutput sw.side o) = .ok realized
      ∧ calcRemainMargin e p realized = .ok rm ∧ rm.badDebt = 0
      ∧ (readPosition e' sw.vamm sw.trader).margin = rm.margin
      ∧ (readPosition e' sw.vamm sw.trader).chk = rm.latest
      ∧ e'.tmpSwap = none := by
  sorry

/-- C06: a full liquidation pays the liquidator half the penalty, sends what is left of the margin to
    the insurance fund, removes the position and pays the liquidated trader nothing -/
theorem liquidateReply_spec (q : Q) (e e' : E) (env : Env) (out : Nat) (msgs : List SubMsg) (sw : TmpSwap)
    (liq : Nat) (hs : e.tmpSwap = some sw) (hl : e.tmpLiq = some liq)
    (h : liquidateReply q e env out = .ok (e', msgs)) :
    let p := getPosition env e sw.vamm sw.trader sw.side
    let fee := out * e.cfg.liqFee / e.cfg.decimals / 2
    ∃ delta rm margin badDebt st1 m1 pre st2 m3,
      closeMarginDelta p sw out = .ok delta ∧ calcRemainMargin e p delta = .ok rm
      ∧ (if fee > rm.margin then margin = 0 ∧ badDebt = rm.badDebt + (fee - rm.margin)
         else margin = rm.margin - fee ∧ badDebt = rm.badDebt)
      ∧ (st1, m1, pre) = (if badDebt ≠ 0 then realizeBadDebt e.st badDebt else (e.st, [], 0))
      ∧ withdraw q e st1 liq fee pre = .ok (st2, m3)
      ∧ msgs = m1 ++ (if margin ≠ 0 then [transferMsg e.cfg e.cfg.insuranceFund margin] else []) ++ m3
      ∧ readPosition e' sw.vamm sw.trader = Position.default
      ∧ e'.tmpSwap = none ∧ e'.tmpLiq = none
      ∧ (∀ m ∈ msgs, payee m = some sw.trader → sw.trader = liq ∨ sw.trader = e.cfg.insuranceFund) := by
  sorry

/-- C06: a partial liquidation reduces the size by the base amount exchanged, keeps its sign side,
    and pays the insurance fund and the liquidator half the penalty each -/
theorem partialLiquidationReply_spec (q : Q) (e e' : E) (env : Env) (i o : Nat) (msgs : List SubMsg)
    (sw : TmpSwap) (liq : Nat) (hs : e.tmpSwap = some sw) (hl : e.tmpLiq = some liq)
    (h : partialLiquidationReply q e env i o = .ok (e', msgs)) :
    let p := getPosition env e sw.vamm sw.trader sw.side
    let fee := o * e.cfg.liqFee / e.cfg.decimals / 2
    (readPosition e' sw.vamm sw.trader).size.toInt
        = (if p.size.toInt < 0 then p.size.toInt + i else p.size.toInt - i)
    ∧ (fee = 0 → msgs = [])
    ∧ (fee ≠ 0 → ∃ st2 m3, withdraw q e e.st liq fee 0 = .ok (st2, m3)
                  ∧ msgs = transferMsg e.cfg e.cfg.insuranceFund fee :: m3)
    ∧ e'.tmpSwap = none ∧ e'.tmpLiq = none
    ∧ (readPosition e' sw.vamm sw.trader).chk = p.chk ∧ (readPosition e' sw.vamm sw.trader).block = p.block := by
  sorry

/-- C11: the engine's half of a funding settlement -/
theorem payFundingReply_spec (q : Q) (e e' : E) (env : Env) (pf : Integer) (v : Nat) (msgs : List SubMsg)
    (h : payFundingReply q e env pf v = .ok (e', msgs)) :
    (latestCum e' v).toInt = (latestCum e v).toInt + pf.toInt
    ∧ ∃ net, q.vammNet v = .ok net ∧
        let payment := trunc (net.toInt * pf.toInt) (e.cfg.decimals : Int)
        (payment < 0 → msgs = [ifWithdrawMsg payment.natAbs])
        ∧ (payment = 0 → msgs = [])
        ∧ (0 < payment → ∃ bal, q.balance ENGINE_ADDR = .ok bal ∧
              msgs = [transferMsg e.cfg e.cfg.insuranceFund (if bal < payment.natAbs then bal else payment.natAbs)])
    ∧ e'.positions = e.positions ∧ e'.st = e.st ∧ e'.cfg = e.cfg := by
  sorry

/-- C12: the fee of an open is charged in `update_position_reply` exactly when it has not been charged
    by the reversal leg before, on the requested notional -/
theorem updatePositionReply_fees (q : Q) (e e' : E) (env : Env) (i o id : Nat) (msgs : List SubMsg) (sw : TmpSwap)
    (hs : e.tmpSwap = some sw) (h : updatePositionReply q e env i o id = .ok (e', msgs)) :
    (sw.feesPaid = true → ∀ m ∈ msgs, payee m ≠ some e.cfg.feePool ∨ e.cfg.feePool = sw.trader ∨ e.cfg.feePool = ENGINE_ADDR)
    ∧ (sw.feesPaid = false → ∃ pre fm sp tl, msgs = pre ++ fm
         ∧ transferFees q e sw.trader sw.vamm sw.openNotional = .ok (fm, sp, tl)
         ∧ pre.length ≤ 2)
    ∧ e'.tmpSwap = none ∧ e'.sentFunds = none := by
  sorry

/-- C12: a reversal charges the fee once, on the requested notional, in its first leg and marks it paid -/
theorem reversePositionReply_fees (q : Q) (e e' : E) (env : Env) (out : Nat) (msgs : List SubMsg) (sw : TmpSwap)
    (hs : e.tmpSwap = some sw) (h : reversePositionReply q e env out = .ok (e', msgs)) :
    ∃ fm sp tl last, transferFees q e sw.trader sw.vamm sw.openNotional = .ok (fm, sp, tl)
      ∧ msgs = fm ++ [last]
      ∧ ((e'.tmpSwap = none ∧ e'.sentFunds = none ∧ ∃ amt, last = transferMsg e.cfg sw.trader amt)
         ∨ (∃ sw', e'.tmpSwap = some sw' ∧ sw'.feesPaid = true ∧ sw'.trader = sw.trader ∧ sw'.vamm = sw.vamm
              ∧ sw'.side = sw.side ∧ sw'.upnl = Integer.zero
              ∧ last = swapInputMsg sw.vamm sw.side sw'.openNotional 0 false REPLY_INCREASE))
      ∧ (readPosition e' sw.vamm sw.trader).size = Integer.zero
      ∧ (readPosition e' sw.vamm sw.trader).margin = 0 := by
  sorry

/-- C05: the last guard of every open flow: the stored position's margin ratio is at least the
    maintenance ratio (the ratio does not depend on the fields changed afterwards) -/
theorem updatePositionReply_ratio (q : Q) (e e' : E) (env : Env) (i o id : Nat) (msgs : List SubMsg) (sw : TmpSwap)
    (hs : e.tmpSwap = some sw) (h : updatePositionReply q e env i o id = .ok (e', msgs)) :
    ∃ r, queryMarginRatio q e' sw.vamm sw.trader = .ok r ∧ Integer.lt r (Integer.newPositive e.cfg.mmr) = false
      ∧ (readPosition e' sw.vamm sw.trader).block = env.height
      ∧ (readPosition e' sw.vamm sw.trader).chk = latestCum e sw.vamm := by
  sorry

/-- C05: withdrawal — margin falls by amount + funding, checkpoint moves, free collateral covers it -/
theorem withdrawMargin_spec (q : Q) (e e' : E) (env : Env) (s v amt : Nat) (msgs : List SubMsg)
    (h : withdrawMargin q e env s v amt = .ok (e', msgs)) :
    let p := readPosition e v s
    ∃ rm fc st1, calcRemainMargin e p (Integer.newNegative amt) = .ok rm ∧ rm.badDebt = 0
      ∧ queryFreeCollateral q e v s = .ok fc ∧ (amt : Int) ≤ fc.toInt
      ∧ withdraw q e e.st s amt 0 = .ok (st1, msgs)
      ∧ readPosition e' p.vamm p.trader = { p with margin := rm.margin, chk := rm.latest }
      ∧ amt ≠ 0 := by
  sorry

/-- C05: deposit — margin rises by exactly the amount taken (cw20: pulled; native: attached) -/
theorem depositMargin_spec (e e' : E) (env : Env) (s : Nat) (f : Funds) (v amt : Nat) (msgs : List SubMsg)
    (h : depositMargin e env s f v amt = .ok (e', msgs)) :
    let p := readPosition e v s
    p.trader = s ∧ readPosition e' p.vamm p.trader = { p with margin := p.margin + amt } ∧ amt ≠ 0
    ∧ (e.cfg.native = true → msgs = [] ∧ f.amount = amt ∧ f.extra = false)
    ∧ (e.cfg.native = false → msgs = [transferFromMsg e.cfg s ENGINE_ADDR amt]) := by
  sorry

end Perp.Props.EngineMoney
