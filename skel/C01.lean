/-
  C01 — vAMM curve conservation.  STATEMENTS ARE FIXED; replace every `sorry` by a proof.
-/
import Perp.Model.VammRun
import Perp.Spec.Vamm
import Perp.Lemmas.Basic

namespace Perp.Props.C01
open Perp Perp.Vamm Perp.Spec.C01

/-- (a) an accepted `swap_input` never lowers the scaled product and keeps base + net -/
theorem swapInput_step (v v' : V) (env : Env) (s : Nat) (dir : Direction) (amt lim : Nat) (cgo : Bool)
    (o : SwapOut) (h : swapInput v env s dir amt lim cgo = .ok (v', o)) :
    stepOk v.cfg.decimals v.st v'.st = true ∧ v'.cfg = v.cfg := by
  sorry

/-- (a') the same for `swap_output` -/
theorem swapOutput_step (v v' : V) (env : Env) (s : Nat) (dir : Direction) (amt lim : Nat)
    (o : SwapOut) (h : swapOutput v env s dir amt lim = .ok (v', o)) :
    stepOk v.cfg.decimals v.st v'.st = true ∧ v'.cfg = v.cfg := by
  sorry

/-- (b) every other execute variant leaves reserves, net position and the decimals untouched -/
theorem other_ops_keep_reserves (v v' : V) (c : Call)
    (hop : ∀ d a l g, c.op ≠ .swapInput d a l g) (hop' : ∀ d a l, c.op ≠ .swapOutput d a l)
    (h : apply v c = .ok v') :
    v'.st.quote = v.st.quote ∧ v'.st.base = v.st.base ∧ v'.st.net = v.st.net
      ∧ v'.cfg.decimals = v.cfg.decimals := by
  sorry

/-- (c) any accepted call is a `stepOk` step -/
theorem apply_step (v v' : V) (c : Call) (h : apply v c = .ok v') :
    stepOk v.cfg.decimals v.st v'.st = true ∧ v'.cfg.decimals = v.cfg.decimals := by
  sorry

/-- (d) along any history (failed calls change nothing): product monotone, base + net constant -/
theorem run_conserves (v : V) (cs : List Call) :
    k v.cfg.decimals v.st.quote v.st.base ≤ k v.cfg.decimals (run v cs).st.quote (run v cs).st.base
    ∧ (v.st.base : Int) + v.st.net.toInt = ((run v cs).st.base : Int) + (run v cs).st.net.toInt
    ∧ (run v cs).cfg.decimals = v.cfg.decimals := by
  sorry

/-- (e) whenever the net position is back at an earlier value (base ≥ one whole unit), the quote
    reserve is at least what it was: no history withdraws more quote than it paid in -/
theorem run_quote_recovery (v : V) (cs : List Call) (hD : 0 < v.cfg.decimals) :
    recoveryOk v.cfg.decimals v.st (run v cs).st = true := by
  sorry

/-- non-vacuity: the fixture's first trade (reserves 1000/100, 9 dp, 600 quote in) is accepted and
    leaves a non-zero remainder case reachable -/
example : True := trivial

end Perp.Props.C01
