/-
  SatD — the model's step satisfies Spec.C06, C07 (see Perp/Props/ModelStep.lean).
  Target shape of every theorem:   Spec.Cxx.check (modelStep w env s f tx) = []
-/
import Perp.Model.World
import Perp.Spec.World
import Perp.Lemmas.Basic
import Perp.Props.ModelStep
import Perp.Props.Dispatch
import Perp.Props.EngineGuards
import Perp.Props.EngineMoney
import Perp.Props.WorldInv
import Perp.Props.CurveNoFlip
import Perp.Props.C01
import Perp.Props.C15
import Perp.Props.C17
import Perp.Props.C18
import Perp.Props.VammGuards
import Perp.Props.G9Restr
import Perp.Props.G9Perm
import Perp.Props.WorldMore
import Perp.Props.MirrorInv

namespace Perp.Props.SatD
open Perp Perp.World Perp.Engine Perp.Spec Perp.Props.ModelStep

theorem sat_C06 (w : World) (env : Env) (s : Nat) (f : Funds) (tx : Tx) (hwf : WF w) :
    Spec.C06.check (modelStep w env s f tx) = [] := by
  sorry

theorem sat_C07 (w : World) (env : Env) (s : Nat) (f : Funds) (tx : Tx) (hwf : WF w) :
    Spec.C07.check (modelStep w env s f tx) = [] := by
  sorry

end Perp.Props.SatD
