/-
  G9 — world-level theorems for C16 (restriction marker: who sets it, who keeps it) and C03
  (second sentence: a transaction moves collateral only between its sender, the engine, the
  insurance fund and the fee pool).  STATEMENTS ARE FIXED.
  You may import and use Perp.Props.Dispatch, EngineGuards, EngineMoney, WorldInv.
-/
import Perp.Model.World
import Perp.Lemmas.Basic
import Perp.Props.Dispatch
import Perp.Props.EngineGuards
import Perp.Props.EngineMoney
import Perp.Props.WorldInv

namespace Perp.Props.WorldMore
open Perp Perp.World Perp.Engine

/-! ### C16: the restriction marker -/

def restr (e : E) (v : Nat) : Nat := (readVammMap e v).lastRestriction

/-- only the two liquidation replies write the marker; every other reply keeps it for every vAMM -/
theorem replyOk_restr_frame (q : Q) (e e' : E) (env : Env) (id : Nat) (ev : Ev) (subs : List SubMsg)
    (h : replyOk q e env id ev = .ok (e', subs)) (h6 : id ≠ REPLY_LIQUIDATION) (h7 : id ≠ REPLY_PARTIAL_LIQUIDATION) :
    ∀ v, restr e' v = restr e v := by
  sorry

/-- no `execute` handler writes the marker -/
theorem execute_restr_frame (q : Q) (e e' : E) (env : Env) (s : Nat) (f : Funds) (m : ExecMsg) (subs : List SubMsg)
    (h : execute q e env s f m = .ok (e', subs)) : ∀ v, restr e' v = restr e v := by
  sorry

/-- a liquidation reply sets the marker of its own vAMM to the current block and keeps the others -/
theorem liquidation_reply_restr (q : Q) (e e' : E) (env : Env) (id : Nat) (ev : Ev) (subs : List SubMsg) (sw : TmpSwap)
    (hs : e.tmpSwap = some sw) (hid : id = REPLY_LIQUIDATION ∨ id = REPLY_PARTIAL_LIQUIDATION)
    (h : replyOk q e env id ev = .ok (e', subs)) :
    restr e' sw.vamm = env.height ∧ ∀ v, v ≠ sw.vamm → restr e' v = restr e v := by
  sorry

/-- a transaction that is not a Liquidate keeps every marker (so a marker set earlier in a block
    survives whatever else happens in that block, e.g. a PayFunding) -/
theorem nonliquidation_keeps_restr (w w' : World) (env : Env) (s : Nat) (f : Funds) (tx : Tx)
    (hinv : WorldInv.NoResidue w.engine) (hnl : ∀ v t l, tx ≠ .engine (.liquidate v t l))
    (h : applyTx w env s f tx = .ok w') : ∀ v, restr w'.engine v = restr w.engine v := by
  sorry

/-- a successful Liquidate sets the marker of its vAMM to the block it ran in -/
theorem liquidation_sets_restr (w w' : World) (env : Env) (s : Nat) (f : Funds) (v t l : Nat)
    (hinv : WorldInv.NoResidue w.engine)
    (h : applyTx w env s f (.engine (.liquidate v t l)) = .ok w') : restr w'.engine v = env.height := by
  sorry

/-- C16 assembled: after a successful liquidation on `v` in block `b`, any number of non-liquidation
    transactions later in block `b`, a sender whose position on `v` carries block stamp `b` can
    neither open nor close (both transactions are rejected) -/
theorem restricted_after_liquidation (w0 w1 : World) (env0 : Env) (s0 : Nat) (f0 : Funds) (v t l : Nat)
    (hinv : WorldInv.NoResidue w0.engine)
    (hliq : applyTx w0 env0 s0 f0 (.engine (.liquidate v t l)) = .ok w1)
    (txs : List (Env × Nat × Funds × Tx))
    (hsame : ∀ x ∈ txs, x.1.height = env0.height)
    (hnl : ∀ x ∈ txs, ∀ v' t' l', x.2.2.2 ≠ .engine (.liquidate v' t' l'))
    (env : Env) (henv : env.height = env0.height) (s : Nat) (f : Funds) (side : Side) (m lev b lim : Nat) :
    let w := txs.foldl (fun w x => step w x.1 x.2.1 x.2.2.1 x.2.2.2) w1
    (readPosition w.engine v s).block = env.height →
      WorldInv.isErr (applyTx w env s f (.engine (.openPosition v side m lev b)))
      ∧ WorldInv.isErr (applyTx w env s f (.engine (.closePosition v lim))) := by
  sorry

/-! ### C03, second sentence -/

/-- the accounts an engine transaction may move collateral between -/
def permitted (w : World) (s : Nat) (a : Nat) : Prop :=
  a = s ∨ a = ENGINE ∨ a = IFUND ∨ a = w.engine.cfg.insuranceFund ∨ a = w.engine.cfg.feePool

/-- every transfer executed by an engine transaction has both endpoints in the permitted set -/
theorem engine_tx_log_permitted (w w' : World) (env : Env) (s : Nat) (f : Funds) (m : ExecMsg)
    (hinv : WorldInv.NoResidue w.engine) (hcfg : ∀ u, m ≠ .updateConfig u)
    (h : applyTx w env s f (.engine m) = .ok w') :
    ∀ x ∈ w'.log, permitted w s x.1 ∧ permitted w s x.2.1 := by
  sorry

/-- hence no other account's balance changes -/
theorem engine_tx_balances_frame (w w' : World) (env : Env) (s : Nat) (f : Funds) (m : ExecMsg)
    (hinv : WorldInv.NoResidue w.engine) (hcfg : ∀ u, m ≠ .updateConfig u)
    (h : applyTx w env s f (.engine m) = .ok w') :
    ∀ a, ¬ permitted w s a → w'.ledger.balance a = w.ledger.balance a := by
  sorry

/-- in particular a liquidated trader (other than the liquidator and the pools) receives and pays nothing -/
theorem liquidated_trader_balance (w w' : World) (env : Env) (s : Nat) (f : Funds) (v t l : Nat)
    (hinv : WorldInv.NoResidue w.engine) (ht : ¬ permitted w s t)
    (h : applyTx w env s f (.engine (.liquidate v t l)) = .ok w') :
    w'.ledger.balance t = w.ledger.balance t := by
  sorry

/-- the insurance fund pays out only to the engine; the fee pool only to the recipient its owner names -/
theorem if_withdraw_pays_engine (w w' : World) (env : Env) (s : Nat) (f : Funds) (amt : Nat)
    (h : applyTx w env s f (.ifWithdraw amt) = .ok w') :
    ∀ a, a ≠ IFUND → a ≠ w.ifund.engine → w'.ledger.balance a = w.ledger.balance a := by
  sorry

theorem fp_send_pays_recipient (w w' : World) (env : Env) (s : Nat) (f : Funds) (tok amt to : Nat)
    (h : applyTx w env s f (.fpSend tok amt to) = .ok w') :
    ∀ a, a ≠ FEEPOOL → a ≠ to → w'.ledger.balance a = w.ledger.balance a := by
  sorry

end Perp.Props.WorldMore
