/-
  G2 — engine / insurance fund / fee pool guard theorems (handler level; parts of C05, C09, C12,
  C14, C15, C16, C17, C20).  STATEMENTS ARE FIXED.
-/
import Perp.Model.World
import Perp.Lemmas.Basic

namespace Perp.Props.EngineGuards
open Perp Perp.Engine

def isErr {α : Type} (e : Except Err α) : Prop := ∃ x, e = .error x
def isOk {α : Type} (e : Except Err α) : Prop := ∃ r, e = .ok r

/-! ### C14: pause and closed / unregistered markets -/

theorem paused_rejects (q : Q) (e : E) (env : Env) (s : Nat) (f : Funds) (v : Nat) (side : Side)
    (m l b a : Nat) (hp : e.st.pause = true) :
    isErr (openPosition q e env s f v side m l b) ∧ isErr (closePosition q e env s v l)
      ∧ isErr (depositMargin e env s f v a) ∧ isErr (withdrawMargin q e env s v a) := by
  sorry

/-- liquidation and funding do not read the pause flag -/
theorem liquidate_ignores_pause (q : Q) (e : E) (env : Env) (s v t l : Nat) (b : Bool) :
    isOk (liquidate q { e with st := { e.st with pause := b } } env s v t l) ↔ isOk (liquidate q e env s v t l) := by
  sorry

theorem payFunding_ignores_pause (q : Q) (e : E) (v : Nat) (b : Bool) :
    isOk (payFunding q { e with st := { e.st with pause := b } } v) ↔ isOk (payFunding q e v) := by
  sorry

/-- a vAMM that is closed or not registered fails `require_vamm`, … -/
theorem requireVamm_ok (q : Q) (v : Nat) (h : requireVamm q v = .ok ()) :
    q.isVamm v = .ok true ∧ q.vammOpen v = .ok true := by
  sorry

/-- … and every operation that needs it is rejected -/
theorem needs_vamm (q : Q) (e : E) (env : Env) (s : Nat) (f : Funds) (v : Nat) (side : Side)
    (m l b a t : Nat) (hv : isErr (requireVamm q v)) :
    isErr (openPosition q e env s f v side m l b) ∧ isErr (liquidate q e env s v t l)
      ∧ isErr (withdrawMargin q e env s v a) ∧ isErr (payFunding q e v) := by
  sorry

/-! ### C16: restriction mode -/

theorem restricted_rejects (q : Q) (e : E) (env : Env) (s : Nat) (f : Funds) (v : Nat) (side : Side)
    (m l b : Nat)
    (hr : (readVammMap e v).lastRestriction = env.height ∧ (readPosition e v s).block = env.height) :
    isErr (openPosition q e env s f v side m l b) ∧ isErr (closePosition q e env s v l) := by
  sorry

theorem unrestricted_passes (e : E) (v s h : Nat)
    (hr : ¬ ((readVammMap e v).lastRestriction = h ∧ (readPosition e v s).block = h)) :
    requireNotRestrictionMode e v s h = .ok () := by
  sorry

theorem liquidateReply_restricts (q : Q) (e e' : E) (env : Env) (out : Nat) (msgs : List SubMsg) (sw : TmpSwap)
    (hs : e.tmpSwap = some sw) (h : liquidateReply q e env out = .ok (e', msgs)) :
    (readVammMap e' sw.vamm).lastRestriction = env.height := by
  sorry

theorem partialLiquidationReply_restricts (q : Q) (e e' : E) (env : Env) (i o : Nat) (msgs : List SubMsg)
    (sw : TmpSwap) (hs : e.tmpSwap = some sw) (h : partialLiquidationReply q e env i o = .ok (e', msgs)) :
    (readVammMap e' sw.vamm).lastRestriction = env.height := by
  sorry

/-! ### C05: leverage bounds -/

theorem open_leverage_bounds (q : Q) (e e' : E) (env : Env) (s : Nat) (f : Funds) (v : Nat) (side : Side)
    (m l b : Nat) (msgs : List SubMsg) (h : openPosition q e env s f v side m l b = .ok (e', msgs)) :
    e.cfg.decimals ≤ l ∧ e.cfg.imr ≤ e.cfg.decimals * e.cfg.decimals / l ∧ m ≠ 0 := by
  sorry

/-! ### C15 / C17: what the engine asks of the vAMM -/

/-- an OpenPosition dispatches exactly one swap; opening / increasing / reducing swaps carry the
    caller's base limit unchanged and may not leave the price band -/
theorem openPosition_msgs (q : Q) (e e' : E) (env : Env) (s : Nat) (f : Funds) (v : Nat) (side : Side)
    (m l b : Nat) (msgs : List SubMsg) (h : openPosition q e env s f v side m l b = .ok (e', msgs)) :
    let p := getPosition env e v s side
    let N := m * l / e.cfg.decimals
    msgs = [swapInputMsg v side N b false REPLY_INCREASE]
    ∨ msgs = [swapInputMsg p.vamm side N b false REPLY_DECREASE]
    ∨ msgs = [swapOutputMsg p.vamm (directionToSide p.direction) p.size.value 0 REPLY_REVERSE] := by
  sorry

/-- a whole-position close carries the caller's quote limit unchanged -/
theorem closePosition_msgs (q : Q) (e e' : E) (env : Env) (s v l : Nat) (msgs : List SubMsg)
    (h : closePosition q e env s v l = .ok (e', msgs)) :
    let p := readPosition e v s
    msgs = [swapOutputMsg p.vamm (directionToSide p.direction) p.size.value l REPLY_CLOSE]
    ∨ (∃ n, msgs = [swapInputMsg p.vamm (positionToSide p.size) n 0 true REPLY_PARTIAL_CLOSE]
        ∧ q.isOverFluct v (if Integer.gt p.size Integer.zero then .addToAmm else .removeFromAmm) p.size.value = .ok true
        ∧ e.cfg.plr < e.cfg.decimals) := by
  sorry

/-- the second leg of a reversal may not leave the band either -/
theorem reverse_second_leg (q : Q) (e e' : E) (env : Env) (out : Nat) (msgs : List SubMsg)
    (h : reversePositionReply q e env out = .ok (e', msgs)) :
    ∀ m ∈ msgs, ∀ a d x lim g, m.msg = .vammSwapInput a d x lim g → g = false ∧ m.id = REPLY_INCREASE := by
  sorry

/-! ### C12: shape of the fee transfers -/

theorem transferFees_spec (q : Q) (e : E) (src v N : Nat) (msgs : List SubMsg) (spread toll : Nat)
    (h : transferFees q e src v N = .ok (msgs, spread, toll)) :
    q.calcFee v N = .ok (toll, spread)
    ∧ msgs = (if spread ≠ 0 then [transferFromMsg e.cfg src e.cfg.insuranceFund spread] else [])
           ++ (if toll ≠ 0 then [transferFromMsg e.cfg src e.cfg.feePool toll] else []) := by
  sorry

/-! ### C20: caps and configuration bounds -/

def ConfigOK (c : Config) : Prop :=
  c.imr ≤ c.decimals ∧ c.mmr ≤ c.decimals ∧ c.plr ≤ c.decimals ∧ c.liqFee ≤ c.decimals ∧ c.mmr ≤ c.imr

theorem updateConfig_configOK (e e' : E) (s : Nat) (u : ConfigUpdate) (hc : ConfigOK e.cfg)
    (h : updateConfig e s u = .ok e') : ConfigOK e'.cfg ∧ e'.cfg.decimals = e.cfg.decimals := by
  sorry

/-- no other entry point (execute or reply) changes the configuration -/
theorem execute_cfg (q : Q) (e e' : E) (env : Env) (s : Nat) (f : Funds) (m : ExecMsg) (msgs : List SubMsg)
    (hm : ∀ u, m ≠ .updateConfig u) (h : execute q e env s f m = .ok (e', msgs)) : e'.cfg = e.cfg := by
  sorry

theorem replyOk_cfg (q : Q) (e e' : E) (env : Env) (id : Nat) (ev : Ev) (msgs : List SubMsg)
    (h : replyOk q e env id ev = .ok (e', msgs)) : e'.cfg = e.cfg := by
  sorry

theorem oi_cap (q : Q) (e : E) (st st' : State) (v : Nat) (amount : Integer) (trader hc cap : Nat)
    (h : updateOpenInterest q e st v amount trader = .ok st') (hq : q.vammCaps v = .ok (hc, cap))
    (hcap : cap ≠ 0) (hpos : amount.isPositive = true) (hw : e.whitelist.contains trader = false) :
    st'.oi ≤ cap := by
  sorry

theorem holding_cap (q : Q) (e : E) (v size trader hc cap : Nat)
    (h : checkHoldingCap q e v size trader = .ok ()) (hq : q.vammCaps v = .ok (hc, cap))
    (hcap : hc ≠ 0) (hw : e.whitelist.contains trader = false) : size ≤ hc := by
  sorry

/-- registry of the insurance fund: no duplicates, at most three, only decimals-compatible vAMMs -/
def RegOK (s : Insurance.S) : Prop := s.vamms.Nodup ∧ s.vamms.length ≤ 3

theorem addVamm_spec (s s' : Insurance.S) (sender v : Nat) (ed vd : Except Err Nat) (hr : RegOK s)
    (h : Insurance.addVamm s sender v ed vd = .ok s') :
    RegOK s' ∧ sender = s.owner ∧ (∃ d, ed = .ok d ∧ vd = .ok d) ∧ s'.vamms = s.vamms ++ [v] ∧ s'.owner = s.owner := by
  sorry

theorem removeVamm_spec (s s' : Insurance.S) (sender v : Nat) (hr : RegOK s)
    (h : Insurance.removeVamm s sender v = .ok s') :
    RegOK s' ∧ sender = s.owner ∧ v ∉ s'.vamms ∧ (∀ x, x ≠ v → (x ∈ s'.vamms ↔ x ∈ s.vamms)) := by
  sorry

/-! ### C09: roles of the engine, the insurance fund and the fee pool -/

theorem engine_roles (e e' : E) (s : Nat) :
    (∀ u, updateConfig e s u = .ok e' → s = e.cfg.owner)
    ∧ (∀ n, updatePauser e s n = .ok e' → s = e.pauser ∧ e'.pauser = n)
    ∧ (∀ a, addWhitelist e s a = .ok e' → s = e.pauser)
    ∧ (∀ a, removeWhitelist e s a = .ok e' → s = e.pauser)
    ∧ (∀ p, setPause e s p = .ok e' → s = e.pauser ∧ e'.st.pause = p ∧ e.st.pause ≠ p) := by
  sorry

theorem engine_owner_transfer (e e' : E) (s n : Nat) (u : ConfigUpdate) (hu : u.owner = some n)
    (h : updateConfig e s u = .ok e') : e'.cfg.owner = n := by
  sorry

theorem insurance_roles (s s' : Insurance.S) (x : Nat) :
    (∀ n, Insurance.updateOwner s x n = .ok s' → x = s.owner ∧ s'.owner = n ∧ s'.vamms = s.vamms) := by
  sorry

theorem feepool_roles (s s' : FeePool.S) (x : Nat) :
    (∀ t, FeePool.addToken s x t = .ok s' → x = s.owner)
    ∧ (∀ t, FeePool.removeToken s x t = .ok s' → x = s.owner)
    ∧ (∀ n, FeePool.updateOwner s x n = .ok s' → x = s.owner ∧ s'.owner = n) := by
  sorry

/-- world level: the insurance fund pays out only on the engine's request, the fee pool only on its
    owner's, an emergency shutdown only for the fund's owner -/
theorem world_roles (w w' : World) (env : Env) (s : Nat) (f : Funds) :
    (∀ amt, World.applyTx w env s f (.ifWithdraw amt) = .ok w' → s = w.ifund.engine)
    ∧ (∀ t amt to, World.applyTx w env s f (.fpSend t amt to) = .ok w' → s = w.feePool.owner)
    ∧ (World.applyTx w env s f .ifShutdown = .ok w' → s = w.ifund.owner ∨ s = IFUND) := by
  sorry

end Perp.Props.EngineGuards
