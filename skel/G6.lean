/-
  G6 — world-level invariants by induction over the dispatcher: no in-flight residue (C08), one
  account's transaction never alters another trader's position (C10), and the guard corollaries
  that lift handler-level rejections to whole transactions (C05, C14, C16).  STATEMENTS ARE FIXED.
  You may import and use Perp.Props.Dispatch (G3), Perp.Props.EngineGuards (G2), Perp.Props.EngineMoney (G4).
-/
import Perp.Model.World
import Perp.Lemmas.Basic
import Perp.Props.Dispatch

namespace Perp.Props.WorldInv
open Perp Perp.World Perp.Engine

/-- no in-flight swap, sent-funds or liquidator record -/
def NoResidue (e : E) : Prop := e.tmpSwap = none ∧ e.sentFunds = none ∧ e.tmpLiq = none

/-- generic: a property of the engine's state that every successful `reply` preserves is preserved
    by running any list of the engine's sub-messages (sub-calls themselves never write engine state) -/
theorem execSubs_engine_invariant (P : E → Prop)
    (hreply : ∀ (q : Q) (e e' : E) (env : Env) (id : Nat) (ev : Ev) (subs : List SubMsg),
        P e → replyOk q e env id ev = .ok (e', subs) → P e') :
    ∀ (fuel : Nat) (w w' : World) (subs : List SubMsg),
      execSubs fuel w ENGINE subs = .ok w' → P w.engine → P w'.engine := by
  sorry

/-- a successful engine transaction is a successful `execute` followed by a successful run of its sub-messages -/
theorem applyTx_engine_inv (w w' : World) (env : Env) (s : Nat) (f : Funds) (m : ExecMsg)
    (h : applyTx w env s f (.engine m) = .ok w') :
    ∃ (w1 : World) (e1 : E) (subs : List SubMsg), w1.engine = w.engine ∧ w1.env = env ∧ w1.vamms = w.vamms ∧ w1.ifund = w.ifund
      ∧ w1.feePool = w.feePool ∧ w1.feed = w.feed
      ∧ execute w1.q w1.engine env s f m = .ok (e1, subs)
      ∧ execSubs FUEL { w1 with engine := e1 } ENGINE subs = .ok w' := by
  sorry

/-- transactions that are not engine calls never write the engine's state -/
theorem applyTx_nonengine_frame (w w' : World) (env : Env) (s : Nat) (f : Funds) (tx : Tx)
    (hne : ∀ m, tx ≠ .engine m) (h : applyTx w env s f tx = .ok w') : w'.engine = w.engine := by
  sorry

/-! ### C08: no residue -/

/-- C08, second sentence: after any successful transaction the engine holds no in-flight record
    (a failed one leaves the state as it was, which had none) -/
theorem noResidue_step (w w' : World) (env : Env) (s : Nat) (f : Funds) (tx : Tx)
    (hinv : NoResidue w.engine) (h : applyTx w env s f tx = .ok w') : NoResidue w'.engine := by
  sorry

theorem noResidue_run (w : World) (env : Env) (s : Nat) (f : Funds) (tx : Tx) (hinv : NoResidue w.engine) :
    NoResidue (step w env s f tx).engine := by
  sorry

/-! ### C10: other traders' positions -/

/-- the accounts a transaction may touch: its sender, and the trader named by a `Liquidate` -/
def touched (s : Nat) (tx : Tx) (t : Nat) : Prop :=
  t = s ∨ (∃ v l, tx = .engine (.liquidate v t l))

/-- `execute` writes no position of an untouched trader and puts only touched traders in flight -/
theorem execute_others (q : Q) (e e' : E) (env : Env) (s : Nat) (f : Funds) (m : ExecMsg) (subs : List SubMsg)
    (hinv : NoResidue e) (h : execute q e env s f m = .ok (e', subs)) :
    (∀ v t, ¬ touched s (.engine m) t → readPosition e' v t = readPosition e v t)
    ∧ (∀ sw, e'.tmpSwap = some sw → touched s (.engine m) sw.trader) := by
  sorry

/-- every reply writes at most the position of the trader in flight, and keeps that trader in flight -/
theorem replyOk_others (q : Q) (e e' : E) (env : Env) (id : Nat) (ev : Ev) (subs : List SubMsg)
    (h : replyOk q e env id ev = .ok (e', subs)) :
    (∀ v t, (∀ sw, e.tmpSwap = some sw → sw.trader ≠ t) → readPosition e' v t = readPosition e v t)
    ∧ (∀ sw', e'.tmpSwap = some sw' → ∃ sw, e.tmpSwap = some sw ∧ sw'.trader = sw.trader) := by
  sorry

/-- C10: a transaction never changes, creates or removes the stored position of a trader other than
    its sender (and the trader named by a Liquidate) -/
theorem others_untouched (w w' : World) (env : Env) (s : Nat) (f : Funds) (tx : Tx)
    (hinv : NoResidue w.engine) (h : applyTx w env s f tx = .ok w') :
    ∀ v t, ¬ touched s tx t → readPosition w'.engine v t = readPosition w.engine v t := by
  sorry

/-! ### guards lifted to transactions (C05, C14, C16) -/

def isErr {α : Type} (e : Except Err α) : Prop := ∃ x, e = .error x

/-- if `execute` rejects, the transaction is rejected (and `step` then changes nothing but the clock) -/
theorem execute_err_applyTx_err (w : World) (env : Env) (s : Nat) (f : Funds) (m : ExecMsg)
    (h : ∀ w1 : World, w1.engine = w.engine → w1.vamms = w.vamms → w1.ifund = w.ifund → w1.feed = w.feed → w1.env = env →
          isErr (execute w1.q w1.engine env s f m)) :
    isErr (applyTx w env s f (.engine m)) := by
  sorry

/-- C14: while paused, Open / Close / Deposit / Withdraw transactions fail -/
theorem paused_tx_rejected (w : World) (env : Env) (s : Nat) (f : Funds) (v : Nat) (side : Side) (m l b a : Nat)
    (hp : w.engine.st.pause = true) :
    isErr (applyTx w env s f (.engine (.openPosition v side m l b)))
    ∧ isErr (applyTx w env s f (.engine (.closePosition v l)))
    ∧ isErr (applyTx w env s f (.engine (.depositMargin v a)))
    ∧ isErr (applyTx w env s f (.engine (.withdrawMargin v a))) := by
  sorry

/-- C16: in a block in which a liquidation happened on the vAMM, a trader whose position was already
    updated in that block can neither open nor close -/
theorem restricted_tx_rejected (w : World) (env : Env) (s : Nat) (f : Funds) (v : Nat) (side : Side) (m l b : Nat)
    (hr : (readVammMap w.engine v).lastRestriction = env.height ∧ (readPosition w.engine v s).block = env.height) :
    isErr (applyTx w env s f (.engine (.openPosition v side m l b)))
    ∧ isErr (applyTx w env s f (.engine (.closePosition v l))) := by
  sorry

/-- C14: on a vAMM that is closed or not registered, Open / Liquidate / Withdraw / PayFunding fail -/
theorem closed_or_unregistered_tx_rejected (w : World) (env : Env) (s : Nat) (f : Funds) (v : Nat) (side : Side)
    (m l b a t : Nat)
    (hc : w.engine.cfg.insuranceFund = IFUND →
            (w.ifund.vamms.contains v = false ∨ (∃ x, w.vamm? v = some x ∧ x.st.isOpen = false) ∨ w.vamm? v = none)) :
    isErr (applyTx w env s f (.engine (.openPosition v side m l b)))
    ∧ isErr (applyTx w env s f (.engine (.liquidate v t l)))
    ∧ isErr (applyTx w env s f (.engine (.withdrawMargin v a)))
    ∧ isErr (applyTx w env s f (.engine (.payFunding v))) := by
  sorry

/-- C05: leverage below 1 or above 1/initial-margin-ratio is rejected -/
theorem leverage_tx_rejected (w : World) (env : Env) (s : Nat) (f : Funds) (v : Nat) (side : Side) (m l b : Nat)
    (hl : l < w.engine.cfg.decimals ∨ w.engine.cfg.decimals * w.engine.cfg.decimals / l < w.engine.cfg.imr) :
    isErr (applyTx w env s f (.engine (.openPosition v side m l b))) := by
  sorry

end Perp.Props.WorldInv
