/-
  G1 — vAMM-level guard theorems (parts of C09, C11, C14, C20).  STATEMENTS ARE FIXED.
-/
import Perp.Model.VammRun
import Perp.Lemmas.Basic

namespace Perp.Props.VammGuards
open Perp Perp.Vamm

/-- configuration bounds of a vAMM (C20): ratios within [0,1], TWAP interval between a minute and a week -/
def ConfigOK (c : Config) : Prop :=
  c.toll ≤ c.decimals ∧ c.spread ≤ c.decimals ∧ c.fluct ≤ c.decimals ∧ 60 ≤ c.twapInterval ∧ c.twapInterval ≤ 604800

theorem instantiate_configOK (env : Env) (s : Nat) (m : InstantiateMsg) (v : V)
    (h : instantiate env s m = .ok v) : ConfigOK v.cfg ∧ v.cfg.decimals ≤ v.st.quote ∧ v.cfg.decimals ≤ v.st.base
      ∧ 1000000 ≤ v.cfg.decimals := by
  sorry

/-- every accepted `update_config` (single or combined fields) keeps the bounds -/
theorem updateConfig_configOK (v v' : V) (s : Nat) (u : ConfigUpdate) (hc : ConfigOK v.cfg)
    (h : updateConfig v s u = .ok v') : ConfigOK v'.cfg ∧ v'.cfg.decimals = v.cfg.decimals ∧ v'.st = v.st := by
  sorry

/-- any accepted call keeps the bounds (C20, vAMM half, for all update sequences) -/
theorem apply_configOK (v v' : V) (c : Call) (hc : ConfigOK v.cfg) (h : apply v c = .ok v') : ConfigOK v'.cfg := by
  sorry

theorem run_configOK (v : V) (cs : List Call) (hc : ConfigOK v.cfg) : ConfigOK (run v cs).cfg := by
  sorry

/-- roles (C09): swaps and funding settlement only for the configured margin engine -/
theorem swapInput_role (v : V) (env : Env) (s : Nat) (d : Direction) (a l : Nat) (g : Bool) (r : V × SwapOut)
    (h : swapInput v env s d a l g = .ok r) : s = v.cfg.marginEngine := by
  sorry
theorem swapOutput_role (v : V) (env : Env) (s : Nat) (d : Direction) (a l : Nat) (r : V × SwapOut)
    (h : swapOutput v env s d a l = .ok r) : s = v.cfg.marginEngine := by
  sorry
theorem settleFunding_role (v : V) (env : Env) (s : Nat) (o : Except Err Nat) (r : V × Integer)
    (h : settleFunding v env s o = .ok r) : s = v.cfg.marginEngine := by
  sorry
/-- configuration and ownership only for the owner; the new owner then holds the role, the old one does not -/
theorem updateConfig_role (v v' : V) (s : Nat) (u : ConfigUpdate) (h : updateConfig v s u = .ok v') :
    s = v.cfg.owner ∧ v'.cfg.owner = v.cfg.owner := by
  sorry
theorem updateOwner_role (v v' : V) (s n : Nat) (h : updateOwner v s n = .ok v') :
    s = v.cfg.owner ∧ v'.cfg.owner = n ∧ v'.st = v.st := by
  sorry
theorem updateOwner_old_refused (v v' : V) (s n : Nat) (u : ConfigUpdate) (h : updateOwner v s n = .ok v')
    (hne : n ≠ s) : (∃ e, updateConfig v' s u = .error e) ∧ (∃ e, updateOwner v' s s = .error e) := by
  sorry
/-- opening / closing only for the owner or the insurance fund, and only when it changes the flag -/
theorem setOpen_role (v v' : V) (env : Env) (s : Nat) (o : Bool) (h : setOpen v env s o = .ok v') :
    (s = v.cfg.owner ∨ s = v.cfg.insuranceFund) ∧ v.st.isOpen ≠ o ∧ v'.st.isOpen = o ∧ v'.cfg = v.cfg := by
  sorry

/-- closed market (C14): no swap and no funding settlement -/
theorem closed_rejects (v : V) (env : Env) (s : Nat) (d : Direction) (a l : Nat) (g : Bool) (o : Except Err Nat)
    (hc : v.st.isOpen = false) :
    (∃ e, swapInput v env s d a l g = .error e) ∧ (∃ e, swapOutput v env s d a l = .error e)
      ∧ (∃ e, settleFunding v env s o = .error e) := by
  sorry

/-- funding schedule (C11, vAMM half): not before the funding time; the premium fraction is
    trunc((vAMM TWAP − oracle TWAP) · period / 1 day); the next funding time is at least the buffer
    (half a period, by `instantiate`) later -/
theorem settleFunding_spec (v v' : V) (env : Env) (s : Nat) (oracle : Except Err Nat) (pf : Integer)
    (h : settleFunding v env s oracle = .ok (v', pf)) :
    v.st.nextFunding ≤ env.time
    ∧ (∃ u tw, oracle = .ok u ∧ calcTwap v.cfg.decimals v.st.snaps env .reserve v.cfg.twapInterval = .ok tw
        ∧ pf.toInt = Int.tdiv (((tw : Int) - (u : Int)) * (v.cfg.fundingPeriod : Int)) 86400)
    ∧ env.time + v.cfg.fundingBuffer ≤ v'.st.nextFunding
    ∧ v'.cfg = v.cfg ∧ v'.st.quote = v.st.quote ∧ v'.st.base = v.st.base ∧ v'.st.net = v.st.net
    ∧ v'.st.snaps = v.st.snaps ∧ v'.st.isOpen = v.st.isOpen := by
  sorry

theorem instantiate_buffer (env : Env) (s : Nat) (m : InstantiateMsg) (v : V)
    (h : instantiate env s m = .ok v) : v.cfg.fundingBuffer = v.cfg.fundingPeriod / 2 := by
  sorry

end Perp.Props.VammGuards
