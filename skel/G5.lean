/-
  G5 — price feed theorems (second half of C18).  STATEMENTS ARE FIXED.
-/
import Perp.Model.Pricefeed
import Perp.Spec.Feed
import Perp.Lemmas.Basic

namespace Perp.Props.C18F
open Perp Perp.Pricefeed Perp.Spec.C18F

/-- a stored round list as the contract builds it: the dummy round, then pushes -/
inductive Built : List Round → Prop
  | init : Built [dummy]
  | push (rs : List Round) (p t : Nat) : Built rs → Built (pushRound rs p t)

def exOpt {α : Type} (e : Except Err α) : Option α :=
  match e with
  | .ok a => some a
  | .error _ => none

/-- round ids count the submissions: the head of a built list has id = number of submissions -/
theorem built_ids (rs : List Round) (h : Built rs) :
    rs.length = (subs rs).length + 1 ∧ (∀ r, rs.head? = some r → r.roundId = (subs rs).length) := by
  sorry

/-- the latest query returns exactly the last submission -/
theorem getPrice_latest (rs : List Round) (h : Built rs) : latestOk rs (exOpt (getPrice rs)) = true := by
  sorry

/-- the n-back query returns exactly the n-back submission and fails when there is none -/
theorem getPrevious_nth (rs : List Round) (n : Nat) (h : Built rs) :
    previousOk rs n (exOpt (getPrevious rs n)) = true := by
  sorry

/-- the feed TWAP lies between the lowest and highest submitted price overlapping the window -/
theorem getTwap_within (rs : List Round) (now interval r : Nat) (h : Built rs)
    (hr : getTwap rs now interval = .ok r) : twapWithin rs now interval r = true := by
  sorry

/-- submissions only by the owner; ownership transfer moves the right (C09, feed part) -/
theorem appendPrice_role (f f' : Feed) (s k p t : Nat) (h : appendPrice f s k p t = .ok f') : s = f.owner := by
  sorry
theorem appendMultiple_role (f f' : Feed) (s k : Nat) (ps ts : List Nat) (h : appendMultiple f s k ps ts = .ok f') :
    s = f.owner := by
  sorry
theorem updateOwner_role (f f' : Feed) (s n : Nat) (h : updateOwner f s n = .ok f') :
    s = f.owner ∧ f'.owner = n ∧ f'.keys = f.keys := by
  sorry

/-- what `appendPrice` stores stays `Built` -/
theorem push_built (f : Feed) (k p t : Nat) (hb : ∀ l, f.lookup k = some l → Built l) :
    ∀ l, (f.push k p t).lookup k = some l → Built l := by
  sorry

end Perp.Props.C18F
