/-
  G7a — curve lemmas behind "a reducing trade never flips a position" (used by C02 / C06).
  STATEMENTS ARE FIXED.
-/
import Perp.Model.Vamm
import Perp.Lemmas.Basic

namespace Perp.Props.CurveNoFlip
open Perp Perp.Vamm

/-- long position of `s` base units: closing it whole would pay `Q` quote; selling for a smaller
    quote notional `n < Q` takes at most `s` base out of the position -/
theorem reduce_long_no_flip (D s n x y Q B : Nat) (hx : D ≤ x) (hy : D ≤ y)
    (hQ : getOutputPrice D .addToAmm s x y = .ok Q) (hn : n < Q)
    (hB : getInputPrice D .removeFromAmm n x y = .ok B) : B ≤ s := by
  sorry

/-- short position of `s` base units: closing it whole would cost `Q` quote; buying for a smaller
    quote notional `n < Q` returns at most `s` base -/
theorem reduce_short_no_flip (D s n x y Q B : Nat) (hx : D ≤ x) (hy : D ≤ y)
    (hQ : getOutputPrice D .removeFromAmm s x y = .ok Q) (hn : n < Q)
    (hB : getInputPrice D .addToAmm n x y = .ok B) : B ≤ s := by
  sorry

/-- partial close of a long: the quote notional quoted for `a ≤ s` base units buys back at most `a` -/
theorem partial_long_no_overshoot (D a x y Q B : Nat) (hx : D ≤ x) (hy : D ≤ y)
    (hQ : getOutputPrice D .addToAmm a x y = .ok Q)
    (hB : getInputPrice D .removeFromAmm Q x y = .ok B) : B ≤ a := by
  sorry

/-- partial close of a short, at a spot price of at least 1 (base reserve ≤ quote reserve): below that
    price one raw quote unit buys several raw base units and the re-quoted amount can overshoot -/
theorem partial_short_no_overshoot (D a x y Q B : Nat) (hx : D ≤ x) (hy : D ≤ y) (hp : y ≤ x)
    (hQ : getOutputPrice D .removeFromAmm a x y = .ok Q)
    (hB : getInputPrice D .addToAmm Q x y = .ok B) : B ≤ a := by
  sorry

/-- the price hypothesis of `partial_short_no_overshoot` is needed: at price 1/9 the quote for one base
    unit (rounded up to 1) buys back four -/
example : getOutputPrice 1 .removeFromAmm 1 1 9 = .ok 1 ∧ getInputPrice 1 .addToAmm 1 1 9 = .ok 4 := by decide

end Perp.Props.CurveNoFlip
