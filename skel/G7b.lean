/-
  G7b — C02 at world level: the engine's positions mirror every vAMM's net position, as an
  invariant of the whole transaction system.  STATEMENTS ARE FIXED (the invariant itself is yours to
  choose: the main theorem only asks for *some* inductive invariant that implies the mirror property).
-/
import Perp.Model.World
import Perp.Lemmas.Basic
import Perp.Props.Dispatch
import Perp.Props.EngineGuards
import Perp.Props.EngineMoney
import Perp.Props.WorldInv
import Perp.Props.CurveNoFlip
import Perp.Props.C01
import Perp.Props.C17

namespace Perp.Props.Mirror
open Perp Perp.World Perp.Engine

/-- signed sum of the stored position sizes of one vAMM (what Spec.C02 computes from observations) -/
def sumSizes (e : E) (v : Nat) : Int :=
  ((e.positions.filter (fun p => p.vamm == v)).map (fun p => p.size.toInt)).foldl (· + ·) 0

/-- C02: for every vAMM wired to the engine, Σ sizes = reported net position -/
def MirrorOK (w : World) : Prop :=
  ∀ a x, w.vamm? a = some x → x.cfg.marginEngine = ENGINE → sumSizes w.engine a = x.st.net.toInt

/-- a stored position's sign agrees with its direction (needed to close it correctly) -/
def SignDir (e : E) : Prop :=
  ∀ p ∈ e.positions, (0 < p.size.toInt → p.direction = .addToAmm) ∧ (p.size.toInt < 0 → p.direction = .removeFromAmm)

/-- a freshly deployed protocol -/
def Init (w : World) : Prop :=
  w.engine.positions = [] ∧ WorldInv.NoResidue w.engine ∧ EngineGuards.ConfigOK w.engine.cfg
  ∧ (w.vamms.map (·.1)).Nodup
  ∧ (∀ a x, w.vamm? a = some x → x.st.net.toInt = 0)

/-- senders are user accounts, never a contract of the deployment -/
def UserSender (w : World) (s : Nat) : Prop :=
  s ≠ ENGINE ∧ s ≠ IFUND ∧ s ≠ FEEPOOL ∧ s ≠ FEED ∧ s ≠ TOKEN ∧ ∀ a x, w.vamm? a = some x → s ≠ a

/-- owners do not re-wire a vAMM to another margin engine (outside the property's quantifier) -/
def NotRewire (tx : Tx) : Prop :=
  match tx with
  | .vammConfig _ u => u.marginEngine = none
  | _ => True

/-- the curve is in its regular regime: both reserves hold at least one whole unit, and — where
    partial closes can happen (non-zero fluctuation limit) — the spot price is at least 1
    (below that the re-quoted base amount of a partial close of a short can overshoot, CurveNoFlip) -/
def CurveRegular (w : World) : Prop :=
  ∀ a x, w.vamm? a = some x →
    x.cfg.decimals ≤ x.st.quote ∧ x.cfg.decimals ≤ x.st.base ∧ (x.cfg.fluct ≠ 0 → x.st.base ≤ x.st.quote)

/-- **C02 (world level, partial: regular curve regime)**: there is an inductive invariant of the
    transaction system — established by deployment, preserved by every successful transaction of every
    kind by any user — that implies the mirror property and the sign/direction agreement.
    (Failed transactions change nothing: `World.step`.) -/
theorem mirror_invariant_partial :
    ∃ Inv : World → Prop,
      (∀ w, Init w → Inv w)
      ∧ (∀ w, Inv w → MirrorOK w ∧ SignDir w.engine ∧ WorldInv.NoResidue w.engine)
      ∧ (∀ w w' env s f tx, Inv w → UserSender w s → NotRewire tx → CurveRegular w →
            applyTx w env s f tx = .ok w' → Inv w') := by
  sorry

/-- consequence for histories: along any sequence of transactions (failed ones skipped by `step`),
    as long as the side conditions hold at each step, the mirror property holds after every step -/
theorem mirror_along_history (w0 : World) (h0 : Init w0)
    (txs : List (Env × Nat × Funds × Tx))
    (hside : ∀ (pre : List (Env × Nat × Funds × Tx)) (t : Env × Nat × Funds × Tx) (post : List (Env × Nat × Funds × Tx)),
        txs = pre ++ t :: post →
        let w := pre.foldl (fun w t => step w t.1 t.2.1 t.2.2.1 t.2.2.2) w0
        UserSender w t.2.1 ∧ NotRewire t.2.2.2 ∧ CurveRegular w) :
    MirrorOK (txs.foldl (fun w t => step w t.1 t.2.1 t.2.2.1 t.2.2.2) w0) := by
  sorry

/-- non-vacuity is checked on the implementation: Spec.C02 is evaluated after every transaction of
    every generated history (see evidence); here only that the definitions are consistent -/
example : MirrorOK { (default : World) with vamms := [] } := by
  intro a x h; simp [World.vamm?] at h

end Perp.Props.Mirror
