/-
  C15 (vAMM part) — per-block price band.  STATEMENTS ARE FIXED; replace every `sorry` by a proof.
-/
import Perp.Model.VammRun
import Perp.Spec.Vamm
import Perp.Lemmas.Basic

namespace Perp.Props.C15
open Perp Perp.Vamm Perp.Spec.C15

/-- the model's boundaries are the specification's band -/
theorem priceBoundaries_eq_band (cfg : Config) (snaps : List Snapshot) (env : Env) (up lo : Nat)
    (h : priceBoundaries cfg snaps env = .ok (up, lo)) :
    band cfg.decimals cfg.fluct snaps env.height = some (up, lo) := by
  sorry

/-- a swap that may not leave the band (`can_go_over_fluctuation = false`, what every opening trade
    uses) is accepted only if the spot price is inside the band before *and* after it -/
theorem swapInput_inside_band (v v' : V) (env : Env) (s : Nat) (dir : Direction) (amt lim : Nat)
    (o : SwapOut) (hf : v.cfg.fluct ≠ 0)
    (h : swapInput v env s dir amt lim false = .ok (v', o)) :
    ∃ bd, band v.cfg.decimals v.cfg.fluct v.st.snaps env.height = some bd
      ∧ inside v.cfg.decimals bd v.st.quote v.st.base = true
      ∧ inside v.cfg.decimals bd v'.st.quote v'.st.base = true := by
  sorry

/-- once the price is outside the band, every swap of the block is rejected, whatever its flag -/
theorem swapInput_rejected_outside (v : V) (env : Env) (s : Nat) (dir : Direction) (amt lim : Nat)
    (cgo : Bool) (hf : v.cfg.fluct ≠ 0) (bd : Nat × Nat)
    (hb : band v.cfg.decimals v.cfg.fluct v.st.snaps env.height = some bd)
    (hout : inside v.cfg.decimals bd v.st.quote v.st.base = false) :
    ∃ e, swapInput v env s dir amt lim cgo = .error e := by
  sorry

theorem swapOutput_rejected_outside (v : V) (env : Env) (s : Nat) (dir : Direction) (amt lim : Nat)
    (hf : v.cfg.fluct ≠ 0) (bd : Nat × Nat)
    (hb : band v.cfg.decimals v.cfg.fluct v.st.snaps env.height = some bd)
    (hout : inside v.cfg.decimals bd v.st.quote v.st.base = false) :
    ∃ e, swapOutput v env s dir amt lim = .error e := by
  sorry

/-- any accepted swap started inside the band -/
theorem swapOutput_started_inside (v v' : V) (env : Env) (s : Nat) (dir : Direction) (amt lim : Nat)
    (o : SwapOut) (hf : v.cfg.fluct ≠ 0)
    (h : swapOutput v env s dir amt lim = .ok (v', o)) :
    ∃ bd, band v.cfg.decimals v.cfg.fluct v.st.snaps env.height = some bd
      ∧ inside v.cfg.decimals bd v.st.quote v.st.base = true := by
  sorry

/-- what `IsOverFluctuationLimit{direction, base}` answers: `false` exactly when a `swap_output` of
    that base amount in that direction would leave the spot price inside the band -/
theorem isOverFluctuation_spec (v v' : V) (env : Env) (s : Nat) (dir : Direction) (amt : Nat) (r : Bool)
    (o : SwapOut) (hf : v.cfg.fluct ≠ 0)
    (hq : queryIsOverFluctuationLimit v env dir amt = .ok r)
    (hs : swapOutput v env s dir amt 0 = .ok (v', o)) :
    ∃ bd, band v.cfg.decimals v.cfg.fluct v.st.snaps env.height = some bd
      ∧ r = !(inside v.cfg.decimals bd v'.st.quote v'.st.base) := by
  sorry

theorem isOverFluctuation_zero_limit (v : V) (env : Env) (dir : Direction) (amt : Nat)
    (hf : v.cfg.fluct = 0) : queryIsOverFluctuationLimit v env dir amt = .ok false := by
  sorry

end Perp.Props.C15
