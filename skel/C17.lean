/-
  C17 (vAMM part) — quoted amounts equal executed amounts; slippage limits are honoured.
  STATEMENTS ARE FIXED; replace every `sorry` by a proof.
-/
import Perp.Model.VammRun
import Perp.Spec.Vamm
import Perp.Lemmas.Basic

namespace Perp.Props.C17
open Perp Perp.Vamm Perp.Spec.C17

def optOf {α : Type} (e : Except Err α) : Option α :=
  match e with
  | .ok a => some a
  | .error _ => none

/-- an accepted swap_input exchanges exactly what the query quoted at that state, moves exactly the
    requested amount on the requested side, and respected the limit -/
theorem swapInput_spec (v v' : V) (env : Env) (s : Nat) (dir : Direction) (amt lim : Nat) (cgo : Bool)
    (o : SwapOut) (h : swapInput v env s dir amt lim cgo = .ok (v', o)) :
    swapInputOk v.st v'.st dir amt lim (optOf (queryInputAmount v dir amt)) o.quoteAmt o.baseAmt = true
      ∧ o.isInput = true := by
  sorry

theorem swapOutput_spec (v v' : V) (env : Env) (s : Nat) (dir : Direction) (amt lim : Nat)
    (o : SwapOut) (h : swapOutput v env s dir amt lim = .ok (v', o)) :
    swapOutputOk v.st v'.st dir amt lim (optOf (queryOutputAmount v dir amt)) o.quoteAmt o.baseAmt = true
      ∧ o.isInput = false := by
  sorry

/-- the limit is the *only* effect of `lim`: for a non-zero amount, the swap with a limit behaves as
    the limit-free swap when the quoted amount meets the limit, and fails otherwise -/
theorem swapInput_limit_iff (v : V) (env : Env) (s : Nat) (dir : Direction) (amt lim : Nat) (cgo : Bool)
    (hamt : amt ≠ 0) (q : Nat) (hq : queryInputAmount v dir amt = .ok q) :
    (inputLimitMet dir lim q = true → swapInput v env s dir amt lim cgo = swapInput v env s dir amt 0 cgo)
    ∧ (inputLimitMet dir lim q = false → ∃ e, swapInput v env s dir amt lim cgo = .error e) := by
  sorry

theorem swapOutput_limit_iff (v : V) (env : Env) (s : Nat) (dir : Direction) (amt lim : Nat)
    (hamt : amt ≠ 0) (q : Nat) (hq : queryOutputAmount v dir amt = .ok q) :
    (outputLimitMet dir lim q = true → swapOutput v env s dir amt lim = swapOutput v env s dir amt 0)
    ∧ (outputLimitMet dir lim q = false → ∃ e, swapOutput v env s dir amt lim = .error e) := by
  sorry

/-- if the quote itself fails, so does the swap (non-zero amount) -/
theorem swapInput_needs_quote (v : V) (env : Env) (s : Nat) (dir : Direction) (amt lim : Nat) (cgo : Bool)
    (hamt : amt ≠ 0) (e : Err) (hq : queryInputAmount v dir amt = .error e) :
    ∃ e', swapInput v env s dir amt lim cgo = .error e' := by
  sorry

theorem swapOutput_needs_quote (v : V) (env : Env) (s : Nat) (dir : Direction) (amt lim : Nat)
    (hamt : amt ≠ 0) (e : Err) (hq : queryOutputAmount v dir amt = .error e) :
    ∃ e', swapOutput v env s dir amt lim = .error e' := by
  sorry

end Perp.Props.C17
