#!/usr/bin/env python3
"""mkmeta.py <name> <hint> <detection> <needs...> : write seeded/<name>/meta.json (confirmation read from confirmation.txt)"""
import json,sys,os
name,hint,det,needs=sys.argv[1],sys.argv[2],sys.argv[3],sys.argv[4]
d=f"/verif/seeded/{name}"; prop=name.split('-')[0]
conf=open(f"{d}/confirmation.txt").read().strip() if os.path.exists(f"{d}/confirmation.txt") else ""
json.dump({"property":prop,"needs_to_manifest":needs,"confirmed":conf,
 "what_was_run":["scratch worktree of /repo HEAD (8e375d2) with change+demo: cargo test --workspace --offline --no-fail-fast (410 existing tests pass, only the demo fails)",
  "same worktree with patch.diff reverted (demo kept): all tests pass",
  f"git -C /repo apply patch.diff; ./check {prop} --tier quick; git -C /repo checkout -- ."],
 "detection":det,
 "written_by":f"independent sub-agent given only the property text, a diversification hint ({hint}) and a scratch worktree"},open(f"{d}/meta.json","w"),indent=1)
