#!/bin/sh
# Builds the whole framework offline from files on disk: all Lean proofs + the compiled driver,
# and the Rust harness against /repo's working tree.
set -e
cd /verif/lean
lake build Perp driver
cd /verif/harness
[ -f Cargo.lock ] || cp /repo/Cargo.lock Cargo.lock
CARGO_NET_OFFLINE=true cargo build --release --offline
echo "setup ok"
